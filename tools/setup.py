#!/usr/bin/env python3
"""MANIFEST.setup_cmd: build everything the checks need, offline, from files on disk."""
import os, sys, subprocess, time
sys.path.insert(0, os.path.dirname(os.path.abspath(__file__)))
import vlib, translate, build_repo

t = time.time()
print("translate:", {k: v.get("error", "ok") for k, v in translate.run().items()})
import re, json
claimed = [c["property_id"] for c in json.load(open(os.path.join(vlib.VERIF, "MANIFEST.json")))["checks"]]
wanted = {"drv_" + p.lower() for p in claimed} | ({"drv_c01"} if "C11" in claimed else set())
exes = [e for e in re.findall(r'name = "(drv_\w+)"', open(os.path.join(vlib.LEAN, "lakefile.toml")).read())
        if e in wanted and os.path.exists(os.path.join(vlib.LEAN, "Driver", e[4:].upper() + ".lean"))]
audits = ["SimuVerif.Audit." + p for p in claimed if os.path.exists(os.path.join(vlib.LEAN, "SimuVerif", "Audit", p + ".lean"))]
ok, log, wall = vlib.lake_build(["SimuVerif"] + exes + audits)
print("lake build SimuVerif %s: ok=%s %.0fs" % (" ".join(exes), ok, wall))
if not ok:
    print(log[-4000:])
objs, n = build_repo.build_objects()
print("repo objects (default configuration, ASan+UBSan): %d, rebuilt %d" % (len(objs), n))
print("setup wall %.0fs" % (time.time() - t))
sys.exit(0 if ok else 1)
