#!/usr/bin/env python3
"""A small translator from the straight-line numeric C++ of SimuCell3D to Lean 4 terms.

Subset handled (enough for the arithmetic kernels this repository is made of):
  statements   const T x = e; | T x = e; | T x(e); | x = e; | x += e; | x -= e; | x *= e;
               if (c) stmt [else stmt] | { ... } | return e; | return {e1, e2};
  expressions  identifiers, numeric literals, unary -, !, binary + - * / < <= > >= == != && ||,
               ?:, calls f(a,..), method calls x.m(a,..), member access x.m, vec3(a,b,c),
               std::sqrt/abs/min/max/log/exp/floor/pow(x,2|3), static_cast<T>(e), T(e) casts

Anything else raises TranslateError: the caller treats that as "the tie to the source is broken"
(the model can no longer be regenerated), which is reported like a broken proof.

The Lean side (SimuVerif/Model/Vec.lean) gives `+ - * /` on `V3 R` the meaning of vec3's
operators, so C++ expressions are carried over verbatim and the Lean elaborator — not this
script — resolves which operator is meant.  Numeric literals become `lit n` or `lit p / lit q`
(correctly rounded division reproduces the nearest-double of a decimal literal).
"""
import re, sys, os
from fractions import Fraction


class TranslateError(Exception):
    pass


# ------------------------------------------------------------------------------------------
# source extraction

def strip_comments(src):
    out = []
    i = 0
    n = len(src)
    while i < n:
        c = src[i]
        if src.startswith("//", i):
            j = src.find("\n", i)
            if j < 0:
                j = n
            i = j
        elif src.startswith("/*", i):
            j = src.find("*/", i + 2)
            if j < 0:
                j = n - 2
            out.append(" " * 1)
            i = j + 2
        elif c == '"':
            j = i + 1
            while j < n and src[j] != '"':
                if src[j] == "\\":
                    j += 1
                j += 1
            out.append(src[i:j + 1])
            i = j + 1
        elif c == "'":
            j = i + 1
            while j < n and src[j] != "'":
                if src[j] == "\\":
                    j += 1
                j += 1
            out.append(src[i:j + 1])
            i = j + 1
        else:
            out.append(c)
            i += 1
    return "".join(out)


def match_brace(src, i, open_c="{", close_c="}"):
    """src[i] == open_c ; returns index of matching close"""
    assert src[i] == open_c, (src[i:i + 20])
    depth = 0
    n = len(src)
    j = i
    while j < n:
        c = src[j]
        if c == '"':
            j += 1
            while j < n and src[j] != '"':
                if src[j] == "\\":
                    j += 1
                j += 1
        elif c == open_c:
            depth += 1
        elif c == close_c:
            depth -= 1
            if depth == 0:
                return j
        j += 1
    raise TranslateError("unbalanced %s" % open_c)


def find_function(src, qualname, occurrence=0):
    """returns (params_text, body_text) of the definition `qualname(...) ... { body }`
    in comment-stripped source"""
    pat = re.compile(r"(?<![\w:])" + re.escape(qualname) + r"\s*\(")
    k = 0
    for m in pat.finditer(src):
        p0 = m.end() - 1
        p1 = match_brace(src, p0, "(", ")")
        # after the parameter list: qualifiers then '{' (definition) or ';' (declaration/call)
        rest = src[p1 + 1:p1 + 200]
        mm = re.match(r"\s*(const)?\s*(noexcept(\s*\([^)]*\))?)?\s*(override)?\s*(->\s*[\w:<>, ]+)?\s*\{", rest)
        if not mm:
            continue
        if k < occurrence:
            k += 1
            continue
        b0 = p1 + 1 + mm.end() - 1
        b1 = match_brace(src, b0)
        return src[p0 + 1:p1], src[b0 + 1:b1]
    raise TranslateError("function %s not found" % qualname)


# ------------------------------------------------------------------------------------------
# tokenizer

TOK = re.compile(r"""
    (?P<num>(\d+\.\d*|\.\d+|\d+)([eE][+-]?\d+)?[fFuUlL]*)
  | (?P<id>[A-Za-z_]\w*(::[A-Za-z_]\w*)*)
  | (?P<op>->|\+\+|--|<<|>>|<=|>=|==|!=|&&|\|\||\+=|-=|\*=|/=|::|[-+*/%<>=!&|^~?:;,.(){}\[\]])
  | (?P<str>"([^"\\]|\\.)*")
  | (?P<ws>\s+)
""", re.X)


def tokenize(s):
    toks = []
    i = 0
    while i < len(s):
        m = TOK.match(s, i)
        if not m:
            raise TranslateError("cannot tokenize at: %r" % s[i:i + 30])
        i = m.end()
        if m.lastgroup == "ws":
            continue
        toks.append((m.lastgroup, m.group(m.lastgroup)))
    return toks


# ------------------------------------------------------------------------------------------
# AST: tuples  ('num', Fraction) ('id', name) ('un', op, e) ('bin', op, a, b) ('call', name, args)
#              ('mcall', obj, name, args) ('member', obj, name) ('tern', c, a, b) ('tuple', [e])
#              ('index', obj, e)

TYPE_WORDS = {"const", "double", "float", "int", "unsigned", "size_t", "auto", "bool", "vec3", "long",
              "short", "static", "mat33", "constexpr", "signed", "std::size_t", "uint", "char"}

BINPREC = {
    "||": 1, "&&": 2, "==": 5, "!=": 5, "<": 6, "<=": 6, ">": 6, ">=": 6,
    "+": 8, "-": 8, "*": 9, "/": 9, "%": 9,
}


class Parser:
    def __init__(self, toks):
        self.t = toks
        self.i = 0

    def peek(self, k=0):
        return self.t[self.i + k] if self.i + k < len(self.t) else ("eof", "")

    def next(self):
        tk = self.peek()
        self.i += 1
        return tk

    def accept(self, v):
        if self.peek()[1] == v:
            self.i += 1
            return True
        return False

    def expect(self, v):
        if not self.accept(v):
            raise TranslateError("expected %r, got %r (…%s)" % (v, self.peek()[1], " ".join(x[1] for x in self.t[max(0, self.i - 6):self.i + 4])))

    # ---- expressions
    def expr(self):
        return self.ternary()

    def ternary(self):
        c = self.binary(0)
        if self.accept("?"):
            a = self.expr()
            self.expect(":")
            b = self.ternary()
            return ("tern", c, a, b)
        return c

    def binary(self, minprec):
        lhs = self.unary()
        while True:
            op = self.peek()[1]
            if self.peek()[0] != "op" or op not in BINPREC or BINPREC[op] < minprec:
                return lhs
            self.next()
            rhs = self.binary(BINPREC[op] + 1)
            lhs = ("bin", op, lhs, rhs)

    def unary(self):
        if self.accept("-"):
            return ("un", "-", self.unary())
        if self.accept("+"):
            return self.unary()
        if self.accept("!"):
            return ("un", "!", self.unary())
        return self.postfix()

    def args(self, close=")"):
        a = []
        if self.accept(close):
            return a
        while True:
            a.append(self.expr())
            if self.accept(close):
                return a
            self.expect(",")

    def skip_template(self):
        # at '<' : skip to matching '>'
        depth = 0
        while True:
            v = self.next()[1]
            if v == "<":
                depth += 1
            elif v == ">":
                depth -= 1
                if depth == 0:
                    return
            elif v == ">>":
                depth -= 2
                if depth <= 0:
                    return
            elif v == "":
                raise TranslateError("template")

    def primary(self):
        k, v = self.next()
        if k == "num":
            return ("num", parse_num(v))
        if k == "id":
            if v in ("static_cast", "reinterpret_cast", "const_cast"):
                self.skip_template()
                self.expect("(")
                e = self.expr()
                self.expect(")")
                return e
            if v in ("true", "false"):
                return ("bool", v == "true")
            if self.peek()[1] == "(":
                self.next()
                a = self.args()
                if v in ("double", "float", "int", "unsigned", "size_t", "long") and len(a) == 1:
                    return a[0]
                return ("call", v, a)
            if self.peek()[1] == "{" and v in ("vec3",):
                self.next()
                a = self.args("}")
                return ("call", v, a)
            return ("id", v)
        if v == "(":
            e = self.expr()
            self.expect(")")
            return e
        if v == "{":
            a = self.args("}")
            return ("tuple", a)
        raise TranslateError("unexpected token %r" % v)

    def postfix(self):
        e = self.primary()
        while True:
            if self.accept(".") or self.accept("->"):
                k, name = self.next()
                if k != "id":
                    raise TranslateError("member name")
                if self.peek()[1] == "(":
                    self.next()
                    a = self.args()
                    e = ("mcall", e, name, a)
                else:
                    e = ("member", e, name)
            elif self.accept("["):
                ix = self.expr()
                self.expect("]")
                e = ("index", e, ix)
            else:
                return e

    # ---- statements:  ('let', name, e) ('assign', name, op, e) ('if', c, [then], [else]) ('ret', e)
    #                   ('expr', e)
    def at_decl(self):
        k, v = self.peek()
        if k != "id":
            return False
        if v in TYPE_WORDS:
            return True
        return False

    def statement(self):
        if self.accept("{"):
            body = []
            while not self.accept("}"):
                body.append(self.statement())
            return ("block", body)
        k, v = self.peek()
        if v == "if":
            self.next()
            self.expect("(")
            c = self.expr()
            self.expect(")")
            th = self.statement()
            el = None
            if self.peek()[1] == "else":
                self.next()
                el = self.statement()
            return ("if", c, th, el)
        if v == "return":
            self.next()
            if self.accept(";"):
                return ("ret", None)
            e = self.expr()
            self.expect(";")
            return ("ret", e)
        if self.at_decl():
            # skip the type words, references
            while self.peek()[1] in TYPE_WORDS or self.peek()[1] in ("&", "*"):
                self.next()
            if self.peek()[1] == "<":
                self.skip_template()
            if self.peek()[1] == "[":     # structured binding  auto [a,b] = e;
                self.next()
                names = []
                while True:
                    names.append(self.next()[1])
                    if self.accept("]"):
                        break
                    self.expect(",")
                self.expect("=")
                e = self.expr()
                self.expect(";")
                return ("letpat", names, e)
            k, name = self.next()
            if k != "id":
                raise TranslateError("declaration name, got %r" % name)
            if self.accept("="):
                e = self.expr()
            elif self.accept("("):
                a = self.args()
                e = a[0] if len(a) == 1 else ("call", "vec3", a)
            elif self.accept("{"):
                a = self.args("}")
                e = a[0] if len(a) == 1 else ("call", "vec3", a)
            else:
                e = None
            self.expect(";")
            return ("let", name, e)
        e = self.expr()
        k, v = self.peek()
        if v in ("=", "+=", "-=", "*=", "/="):
            self.next()
            r = self.expr()
            self.expect(";")
            return ("assign", e, v, r)
        self.expect(";")
        return ("expr", e)

    def statements(self):
        out = []
        while self.peek()[0] != "eof":
            out.append(self.statement())
        return out


def parse_num(v):
    v = v.rstrip("fFuUlL")
    if re.fullmatch(r"\d+", v):
        return Fraction(int(v))
    m = re.fullmatch(r"(\d*)\.?(\d*)([eE]([+-]?\d+))?", v)
    if not m:
        raise TranslateError("number %r" % v)
    ip, fp, _, ex = m.groups()
    fr = Fraction(int((ip or "0") + (fp or "")), 10 ** len(fp or ""))
    if ex:
        fr *= Fraction(10) ** int(ex)
    return fr


def parse_statements(text):
    return Parser(tokenize(text)).statements()


def parse_expr(text):
    p = Parser(tokenize(text))
    e = p.expr()
    if p.peek()[0] != "eof":
        raise TranslateError("trailing tokens in expression: %r" % text)
    return e


# ------------------------------------------------------------------------------------------
# Lean emission

class Emitter:
    """env: maps C++ names / accessor patterns to Lean text.
       methods: maps method name -> lambda(obj_lean, [args_lean]) -> lean text
       calls:   maps function name -> lambda([args]) -> lean text"""

    def __init__(self, rtype="R", methods=None, calls=None, members=None, ids=None):
        self.R = rtype
        self.methods = {
            "dot": lambda o, a: "(V3.dot %s %s)" % (o, a[0]),
            "cross": lambda o, a: "(V3.cross %s %s)" % (o, a[0]),
            "squared_norm": lambda o, a: "(V3.normSq %s)" % o,
            "norm": lambda o, a: "(fn.sqrt (V3.normSq %s))" % o,
            "dx": lambda o, a: "%s.x" % o,
            "dy": lambda o, a: "%s.y" % o,
            "dz": lambda o, a: "%s.z" % o,
        }
        self.methods.update(methods or {})
        self.calls = {
            "vec3": lambda a: ("(V3.mk %s %s %s)" % tuple(a)) if len(a) == 3 else self._fail("vec3 arity"),
            "std::sqrt": lambda a: "(fn.sqrt %s)" % a[0],
            "sqrt": lambda a: "(fn.sqrt %s)" % a[0],
            "std::log": lambda a: "(fn.ln %s)" % a[0],
            "std::exp": lambda a: "(fn.exp %s)" % a[0],
            "std::acos": lambda a: "(fn.acos %s)" % a[0],
            "std::abs": lambda a: "(sabs %s)" % a[0],
            "std::fabs": lambda a: "(sabs %s)" % a[0],
            "std::min": lambda a: "(smin %s %s)" % (a[0], a[1]),
            "std::max": lambda a: "(smax %s %s)" % (a[0], a[1]),
            "std::pow": self._pow,
        }
        self.calls.update(calls or {})
        self.members = members or {}
        self.ids = ids or {}

    def _fail(self, msg):
        raise TranslateError(msg)

    def _pow(self, a):
        raise TranslateError("std::pow")

    def num(self, fr):
        if fr.denominator == 1:
            return "(lit %d : %s)" % (fr.numerator, self.R)
        return "((lit %d : %s) / lit %d)" % (fr.numerator, self.R, fr.denominator)

    def expr(self, e):
        k = e[0]
        if k == "num":
            return self.num(e[1])
        if k == "id":
            return self.ids.get(e[1], leanid(e[1]))
        if k == "bool":
            return "True" if e[1] else "False"
        if k == "un":
            if e[1] == "-":
                return "(-%s)" % self.expr(e[2])
            return "(¬ %s)" % self.expr(e[2])
        if k == "bin":
            op, a, b = e[1], self.expr(e[2]), self.expr(e[3])
            if op == "&&":
                return "(%s ∧ %s)" % (a, b)
            if op == "||":
                return "(%s ∨ %s)" % (a, b)
            if op == "<=":
                return "(%s ≤ %s)" % (a, b)
            if op == ">=":
                return "(%s ≤ %s)" % (b, a)
            if op == "<":
                return "(%s < %s)" % (a, b)
            if op == ">":
                return "(%s < %s)" % (b, a)
            if op == "==":
                return "(%s = %s)" % (a, b)
            if op == "!=":
                return "(%s ≠ %s)" % (a, b)
            if op in "+-*/":
                return "(%s %s %s)" % (a, op, b)
            raise TranslateError("operator %s" % op)
        if k == "tern":
            return "(if %s then %s else %s)" % (self.expr(e[1]), self.expr(e[2]), self.expr(e[3]))
        if k == "call":
            f = e[1]
            if f not in self.calls:
                raise TranslateError("unknown function %s" % f)
            return self.calls[f]([self.expr(a) for a in e[2]])
        if k == "mcall":
            key = e[2]
            if key not in self.methods:
                raise TranslateError("unknown method .%s()" % key)
            return self.methods[key](self.expr(e[1]), [self.expr(a) for a in e[3]])
        if k == "member":
            key = e[2]
            if key in self.members:
                return self.members[key](self.expr(e[1]))
            raise TranslateError("unknown member .%s" % key)
        if k == "tuple":
            return "(" + ", ".join(self.expr(a) for a in e[1]) + ")"
        raise TranslateError("expression kind %s" % k)

    # statements -> a Lean term; `cont` is the text of the continuation (None at the end)
    def block(self, stmts, indent=2, tail=None):
        """translate a statement list whose control flow ends in `return`s into one Lean term"""
        pad = " " * indent
        if not stmts:
            if tail is None:
                raise TranslateError("control reaches end without return")
            return tail
        s, rest = stmts[0], stmts[1:]
        k = s[0]
        if k == "block":
            return self.block(list(s[1]) + list(rest), indent, tail)
        if k == "let":
            if s[2] is None:
                raise TranslateError("uninitialised local %s" % s[1])
            return "%slet %s := %s\n%s" % (pad, leanid(s[1]), self.expr(s[2]), self.block(rest, indent, tail))
        if k == "letpat":
            return "%slet (%s) := %s\n%s" % (pad, ", ".join(leanid(n) for n in s[1]), self.expr(s[2]),
                                              self.block(rest, indent, tail))
        if k == "assign":
            if s[1][0] != "id":
                raise TranslateError("assignment to non-local")
            n = leanid(s[1][1])
            if s[2] == "=":
                rhs = self.expr(s[3])
            else:
                rhs = "(%s %s %s)" % (n, s[2][0], self.expr(s[3]))
            return "%slet %s := %s\n%s" % (pad, n, rhs, self.block(rest, indent, tail))
        if k == "ret":
            return "%s%s" % (pad, self.expr(s[1]))
        if k == "if":
            th = s[2][1] if s[2][0] == "block" else [s[2]]
            if s[3] is None:
                if not ends_in_return(th):
                    raise TranslateError("if without else that falls through")
                t = self.block(th, indent + 2, None)
                r = self.block(rest, indent, tail)
                return "%sif %s then\n%s\n%selse\n%s" % (pad, self.expr(s[1]), t, pad, r)
            el = s[3][1] if s[3][0] == "block" else [s[3]]
            if ends_in_return(th) and ends_in_return(el):
                return "%sif %s then\n%s\n%selse\n%s" % (pad, self.expr(s[1]), self.block(th, indent + 2, None), pad,
                                                         self.block(el, indent + 2, None))
            raise TranslateError("if/else that falls through")
        raise TranslateError("statement kind %s" % k)


def ends_in_return(stmts):
    if not stmts:
        return False
    s = stmts[-1]
    if s[0] == "ret":
        return True
    if s[0] == "block":
        return ends_in_return(s[1])
    if s[0] == "if" and s[3] is not None:
        th = s[2][1] if s[2][0] == "block" else [s[2]]
        el = s[3][1] if s[3][0] == "block" else [s[3]]
        return ends_in_return(th) and ends_in_return(el)
    return False


LEAN_KW = {"end", "at", "from", "to", "in", "fun", "by", "do", "then", "else", "if", "let", "have",
           "show", "open", "local", "def", "theorem", "where", "with", "match", "instance", "class"}


def leanid(n):
    n = n.replace("::", "_")
    if n in LEAN_KW:
        return n + "'"
    if n.endswith("_"):
        n = n + "m"
    return n


SCALAR_VARS = ("variable {R : Type} [Add R] [Sub R] [Mul R] [Div R] [Neg R] [Lit R] "
               "[LT R] [LE R] [DecidableLT R] [DecidableLE R] [DecidableEq R]")


def read_source(path):
    with open(path) as f:
        return strip_comments(f.read())
