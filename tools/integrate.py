#!/usr/bin/env python3
"""coordinator helper: register a finished property (import line, MANIFEST entry taken from notes/Cxx.md or given)"""
import sys, os, json, re
VERIF = os.path.dirname(os.path.dirname(os.path.abspath(__file__)))


def manifest_entry_from_notes(pid):
    p = os.path.join(VERIF, "notes", pid + ".md")
    if not os.path.exists(p):
        return None
    txt = open(p).read()
    for m in re.finditer(r"```(?:json)?\s*\n(\{.*?\})\s*\n```", txt, re.S):
        try:
            d = json.loads(m.group(1))
            if d.get("property_id") == pid:
                return d
        except Exception:
            continue
    return None


def register(pid, entry=None):
    sv = os.path.join(VERIF, "lean", "SimuVerif.lean")
    s = open(sv).read()
    line = "import SimuVerif.Properties.%s" % pid
    if line not in s and os.path.exists(os.path.join(VERIF, "lean", "SimuVerif", "Properties", pid + ".lean")):
        s = s.rstrip("\n") + "\n" + line + "\n"
        open(sv, "w").write(s)
    mp = os.path.join(VERIF, "MANIFEST.json")
    m = json.load(open(mp))
    e = entry or manifest_entry_from_notes(pid)
    if e is None:
        raise SystemExit("no manifest entry for %s" % pid)
    e.setdefault("quick_cmd", "python3 tools/check.py %s --tier quick" % pid)
    e.setdefault("thorough_cmd", "python3 tools/check.py %s --tier thorough" % pid)
    e.setdefault("evidence_file", "evidence/%s.json" % pid)
    e.setdefault("replay_cmd_template", "python3 tools/check.py %s --replay {path}" % pid)
    e.setdefault("engine", "lean4")
    m["checks"] = [c for c in m["checks"] if c["property_id"] != pid] + [e]
    m["checks"].sort(key=lambda c: c["property_id"])
    m["not_applicable"] = [n for n in m.get("not_applicable", []) if n["property_id"] != pid]
    for eng in m.get("engines", []):
        if eng["name"] == "lean4":
            eng["serves_properties"] = sorted(set(eng["serves_properties"]) | {pid})
    json.dump(m, open(mp, "w"), indent=1)
    print("registered", pid)


if __name__ == "__main__":
    register(sys.argv[1])
