"""C20 generator: include/uspg/uspg_abstract.hpp, uspg_3d.hpp, uspg_4d.hpp  ->  lean/SimuVerif/Gen/Grid.lean

Everything of the grids that is straight-line arithmetic is translated from the C++ text on every run:
  update_dimensions (3d and 4d)          -> updateDims3 / updateDims4   (voxel counts, shifted origin, max corner, size)
  get_3d_voxel_index(double,double,double)-> voxelIndex                  (floor, cast, clamp)
  get_voxel_index(unsigned x3)            -> flatten                     (z*nx*ny + y*nx + x)
  get_voxel_index(double x3)              -> voxelId
  get_neighborhood(double x3) (3d, 4d)    -> nbhIndex3 / nbhIndex4       (which voxel the query starts from)
  get_neighborhood(unsigned x3) (3d, 4d)  -> nbhRange3 / nbhRange4       (clipped start/end of the 3x3x3 block)
The loops themselves (containers, push_front) are hand-modelled in Model/Grid.lean and tied by the
correspondence harness; here their headers and the flattening expression used inside them are checked
to be what the model assumes (otherwise the translation fails, which is reported like a broken proof).

The translator is typed (Nat for unsigned/size_t, R for double) because the grid code mixes both; a
`static_cast<unsigned>` of `std::floor/ceil` becomes `Int.toNat`, an unsigned used in double arithmetic
becomes `lit n`.  Unsigned 32-bit wrap-around is not modelled (Nat).
"""
import re, os, hashlib
import translate as T
import cxx2lean as X
from cxx2lean import TranslateError

ABS = "include/uspg/uspg_abstract.hpp"
G3 = "include/uspg/uspg_3d.hpp"
G4 = "include/uspg/uspg_4d.hpp"

MEMBER_READ = {"min_x_": ("g.min_x", "R"), "min_y_": ("g.min_y", "R"), "min_z_": ("g.min_z", "R"),
               "max_x_": ("g.max_x", "R"), "max_y_": ("g.max_y", "R"), "max_z_": ("g.max_z", "R"),
               "voxel_size_": ("g.v", "R"),
               "nb_voxels_x_": ("g.nx", "N"), "nb_voxels_y_": ("g.ny", "N"), "nb_voxels_z_": ("g.nz", "N")}


class TE:
    """typed expression/statement emitter.  types: 'R' double, 'N' unsigned/size_t, 'K' integer literal,
    'B' condition, 'T' triple of N"""

    def __init__(self, env):
        self.env = dict(env)          # C++ name -> (lean text, type)

    def co(self, t, ty, want):
        if ty == want:
            return t
        if ty == "K" and want == "R":
            return "(lit %s : R)" % t
        if ty == "K" and want == "N":
            return "(%s : Nat)" % t
        if ty == "N" and want == "R":
            return "(lit %s : R)" % t
        raise TranslateError("cannot use a %s where a %s is needed: %s" % (ty, want, t))

    def unify(self, a, ta, b, tb):
        if "B" in (ta, tb) or "T" in (ta, tb):
            raise TranslateError("arithmetic on a condition/tuple")
        w = "R" if "R" in (ta, tb) else "N"
        return self.co(a, ta, w), self.co(b, tb, w), w

    def ex(self, e):
        k = e[0]
        if k == "num":
            fr = e[1]
            if fr.denominator == 1:
                return str(fr.numerator), "K"
            return "((lit %d : R) / lit %d)" % (fr.numerator, fr.denominator), "R"
        if k == "id":
            if e[1] not in self.env:
                raise TranslateError("unknown identifier %s" % e[1])
            return self.env[e[1]]
        if k == "un":
            a, ta = self.ex(e[2])
            if e[1] == "-" and ta == "R":
                return "(-%s)" % a, "R"
            if e[1] == "!" and ta == "B":
                return "(¬ %s)" % a, "B"
            raise TranslateError("unary %s on %s" % (e[1], ta))
        if k == "bin":
            op = e[1]
            a, ta = self.ex(e[2])
            b, tb = self.ex(e[3])
            if op in ("&&", "||"):
                if ta != "B" or tb != "B":
                    raise TranslateError("logical operator on non-conditions")
                return "(%s %s %s)" % (a, "∧" if op == "&&" else "∨", b), "B"
            a, b, w = self.unify(a, ta, b, tb)
            if op in ("+", "-", "*", "/"):
                if op == "/" and w == "N":
                    raise TranslateError("integer division")
                return "(%s %s %s)" % (a, op, b), w
            rel = {"<": "(%s < %s)", "<=": "(%s ≤ %s)", "==": "(%s = %s)", "!=": "(%s ≠ %s)"}
            if op in rel:
                return rel[op] % (a, b), "B"
            if op == ">":
                return "(%s < %s)" % (b, a), "B"
            if op == ">=":
                return "(%s ≤ %s)" % (b, a), "B"
            raise TranslateError("operator %s" % op)
        if k == "tern":
            c, tc = self.ex(e[1])
            if tc != "B":
                raise TranslateError("?: on a non-condition")
            a, ta = self.ex(e[2])
            b, tb = self.ex(e[3])
            a, b, w = self.unify(a, ta, b, tb)
            return "(if %s then %s else %s)" % (c, a, b), w
        if k == "tuple":
            return self.triple(e[1]), "T"
        if k == "call":
            f, args = e[1], [self.ex(a) for a in e[2]]
            if f in ("std::floor", "std::ceil"):
                if len(args) != 1 or args[0][1] != "R":
                    raise TranslateError("%s of a non-double" % f)
                # every floor/ceil of these headers sits inside static_cast<unsigned>( … ) — checked textually by the caller
                return "(Int.toNat (%s %s))" % ("fn.floor" if f == "std::floor" else "fceil fn", args[0][0]), "N"
            if f == "std::min" and len(args) == 2:
                a, b, w = self.unify(args[0][0], args[0][1], args[1][0], args[1][1])
                if w != "N":
                    raise TranslateError("std::min on doubles")
                return "(min %s %s)" % (a, b), "N"
            if f == "get_3d_voxel_index" and [t for _, t in args] == ["R", "R", "R"]:
                return "(voxelIndex fn g %s %s %s)" % tuple(a for a, _ in args), "T"
            if f == "get_voxel_index" and len(args) == 3:
                if [t for _, t in args] == ["R", "R", "R"]:
                    return "(voxelId fn g %s %s %s)" % tuple(a for a, _ in args), "N"
                return "(flatten g %s %s %s)" % tuple(self.co(a, t, "N") for a, t in args), "N"
            if f == "get_neighborhood" and len(args) == 3:      # tail call into the (unsigned, unsigned, unsigned) overload
                return "(%s, %s, %s)" % tuple(self.co(a, t, "N") for a, t in args), "T"
            raise TranslateError("unknown function %s/%d" % (f, len(args)))
        raise TranslateError("expression kind %s" % k)

    def triple(self, es):
        if len(es) != 3:
            raise TranslateError("tuple arity %d" % len(es))
        return "(%s, %s, %s)" % tuple(self.co(*(self.ex(a) + ("N",))) for a in es)

    def block(self, stmts, tail=None):
        out = []
        ret = None
        for s in stmts:
            if ret is not None:
                raise TranslateError("statement after return")
            k = s[0]
            if k == "block":
                raise TranslateError("nested block")
            if k == "let" or (k == "assign" and s[2] == "=" and s[1][0] == "id"):
                name = s[1] if k == "let" else s[1][1]
                rhs = s[2] if k == "let" else s[3]
                if rhs is None:
                    raise TranslateError("uninitialised %s" % name)
                t, ty = self.ex(rhs)
                if ty == "K":
                    t, ty = self.co(t, ty, "N"), "N"
                ln = X.leanid(name)
                self.env[name] = (ln, ty)
                out.append("  let %s := %s" % (ln, t))
            elif k == "letpat":
                t, ty = self.ex(s[2])
                if ty != "T" or len(s[1]) != 3:
                    raise TranslateError("structured binding of a non-triple")
                for n in s[1]:
                    self.env[n] = (X.leanid(n), "N")
                out.append("  let (%s) := %s" % (", ".join(X.leanid(n) for n in s[1]), t))
            elif k == "ret":
                t, ty = self.ex(s[1])
                ret = (t, ty)
                out.append("  " + t)
            elif k == "expr" and s[1][0] == "call" and s[1][1] == "assert":
                continue
            else:
                raise TranslateError("statement %r not in the translated subset" % (s[:2],))
        if ret is None:
            if tail is None:
                raise TranslateError("no return")
            out.append("  " + tail(self))
        return "\n".join(out)


def param_names(params):
    return [m for m in re.findall(r"(\w+)\s*(?:,|$)", re.sub(r"\s+", " ", params).strip())]


def find_overload(src, name, param_re):
    for occ in range(12):
        try:
            params, body = X.find_function(src, name, occ)
        except TranslateError:
            break
        if re.search(param_re, re.sub(r"\s+", " ", params)):
            return params, body
    raise TranslateError("%s(%s) not found" % (name, param_re))


def check_casts(body, what):
    for f in ("std::floor", "std::ceil"):
        if len(re.findall(re.escape(f) + r"\s*\(", body)) != len(re.findall(r"static_cast\s*<\s*unsigned\s*>\s*\(\s*" + re.escape(f) + r"\s*\(", body)):
            raise TranslateError("%s: a %s is not directly inside static_cast<unsigned>" % (what, f))


def norm(s):
    return re.sub(r"\s+", "", s)


def delta_def(body, what):
    m = re.search(r"constexpr\s+double\s+delta\s*=\s*([^;]*);", body)
    if not m:
        raise TranslateError("%s: definition of delta not found" % what)
    rhs = norm(m.group(1))
    body = body[:m.start()] + body[m.end():]
    if rhs == "std::numeric_limits<double>::epsilon()":
        return body, "Float.ofBits 0x3CB0000000000000", rhs
    try:
        fr = X.parse_num(rhs)
    except TranslateError:
        raise TranslateError("%s: delta = %s is neither DBL_EPSILON nor a literal" % (what, rhs))
    return body, ("(Float.ofNat %d) / (Float.ofNat %d)" % (fr.numerator, fr.denominator)), rhs


def gen_update(src, suffix, what):
    params, body = find_overload(src, "update_dimensions", r"const size_t nb_objects")
    if param_names(params) != ["nb_objects", "min_x", "min_y", "min_z", "max_x", "max_y", "max_z"]:
        raise TranslateError("%s: update_dimensions parameters %r" % (what, param_names(params)))
    check_casts(body, what)
    body, dfloat, dtext = delta_def(body, what)
    # the only container operations: clear, then resize to total_nb_voxels (4d wraps the resize in try/catch)
    if len(re.findall(r"voxel_lst_\s*\.\s*clear\s*\(\s*\)\s*;", body)) != 1:
        raise TranslateError("%s: voxel_lst_.clear() expected once" % what)
    body = re.sub(r"voxel_lst_\s*\.\s*clear\s*\(\s*\)\s*;", "", body)
    rs = re.findall(r"voxel_lst_\s*\.\s*resize\s*\(\s*(\w+)\s*(?:,[^;]*)?\)\s*;", body)
    if rs != ["total_nb_voxels"]:
        raise TranslateError("%s: voxel_lst_.resize(total_nb_voxels…) expected once, got %r" % (what, rs))
    body = re.sub(r"voxel_lst_\s*\.\s*resize\s*\([^;]*;", "", body)
    m = re.search(r"try\s*\{\s*\}\s*catch\s*\([^)]*\)\s*\{[^{}]*\}", body)
    if m:
        body = body[:m.start()] + body[m.end():]
    if "voxel_lst_" in body or "try" in body:
        raise TranslateError("%s: unexpected container code in update_dimensions" % what)
    st = X.parse_statements(body)
    env = {n: (n, "R") for n in ("min_x", "min_y", "min_z", "max_x", "max_y", "max_z")}
    env["delta"] = ("δ", "R")
    env["voxel_size_"] = ("voxel_size_m", "R")
    te = TE(env)

    def tail(te):
        need = ["min_x_", "min_y_", "min_z_", "max_x_", "max_y_", "max_z_", "nb_voxels_x_", "nb_voxels_y_", "nb_voxels_z_"]
        typ = ["R"] * 6 + ["N"] * 3
        for n, t in zip(need, typ):
            if n not in te.env or te.env[n][1] != t:
                raise TranslateError("%s: member %s is not assigned (as %s) by update_dimensions" % (what, n, t))
        if te.env.get("total_nb_voxels", (None, None))[1] != "N":
            raise TranslateError("%s: total_nb_voxels missing" % what)
        return "Dims.mk " + " ".join(te.env[n][0] for n in need) + " voxel_size_m total_nb_voxels"
    lean = "/-- `uspg_%s::update_dimensions` (δ is `delta`, defined there as %s) -/\n" % (suffix + "d", dtext)
    lean += "def updateDims%s (fn : Fn R) (δ voxel_size_m min_x min_y min_z max_x max_y max_z : R) : Dims R :=\n" % suffix
    lean += te.block(st, tail) + "\n"
    lean += "/-- the value of `delta` in `uspg_%sd::update_dimensions` as a double -/\ndef deltaFloat%s : Float := %s\n" % (suffix, suffix, dfloat)
    return lean, len(st), dtext


def gen_ctor(src, cls, what):
    params, body = find_overload(src, cls, r"const double voxel_size")
    if param_names(params) != ["min_x", "min_y", "min_z", "max_x", "max_y", "max_z", "voxel_size", "nb_objects"]:
        raise TranslateError("%s constructor parameters %r" % (what, param_names(params)))
    if norm(body) != "voxel_size_=voxel_size;update_dimensions(nb_objects,min_x,min_y,min_z,max_x,max_y,max_z);":
        raise TranslateError("%s constructor body changed: %s" % (what, norm(body)))


def gen_nbh(src, suffix, what):
    # (double,double,double): which voxel the query starts from
    params, body = find_overload(src, "get_neighborhood", r"const double pos_x")
    if param_names(params) != ["pos_x", "pos_y", "pos_z"]:
        raise TranslateError("%s get_neighborhood(double…) parameters" % what)
    check_casts(body, what)
    env = dict(MEMBER_READ)
    env.update({n: (n, "R") for n in ("pos_x", "pos_y", "pos_z")})
    st = X.parse_statements(body)
    lean = "/-- `uspg_%sd::get_neighborhood(double, double, double)`: the voxel whose surroundings are visited -/\n" % suffix
    lean += "def nbhIndex%s (fn : Fn R) (g : Dims R) (pos_x pos_y pos_z : R) : Nat × Nat × Nat :=\n" % suffix
    lean += TE(env).block(st) + "\n"
    # (unsigned,unsigned,unsigned): clipped block, loops
    params, body = find_overload(src, "get_neighborhood", r"const unsigned object_voxel_x_id")
    names = param_names(params)
    if names != ["object_voxel_x_id", "object_voxel_y_id", "object_voxel_z_id"]:
        raise TranslateError("%s get_neighborhood(unsigned…) parameters" % what)
    m = re.search(r"\bfor\s*\(", body)
    if not m:
        raise TranslateError("%s get_neighborhood: no loop" % what)
    k = m.start()
    pre, loops = body[:k], body[k:]
    pre, n = re.subn(r"std::forward_list\s*<\s*T\s*>\s*neighboring_objects\s*;", "", pre)
    if n != 1:
        raise TranslateError("%s get_neighborhood: result list declaration" % what)
    hdr = "".join(r"for\(size_tvoxel_%s_id=start_voxel_%s_id;voxel_%s_id<end_voxel_%s_id;voxel_%s_id\+\+\)\{" % ((a,) * 5) for a in "xyz")
    if not re.match(hdr, norm(loops)):
        raise TranslateError("%s get_neighborhood: loop nest is not x{y{z{ over [start,end)" % what)
    if not norm(loops).endswith("}}}returnneighboring_objects;"):
        raise TranslateError("%s get_neighborhood: code after the loops" % what)
    env = dict(MEMBER_READ)
    env.update({n: (n, "N") for n in names})
    te = TE(env)
    st = X.parse_statements(pre)

    def tail(te):
        v = ["start_voxel_x_id", "start_voxel_y_id", "start_voxel_z_id", "end_voxel_x_id", "end_voxel_y_id", "end_voxel_z_id"]
        for n in v:
            if te.env.get(n, (None, None))[1] != "N":
                raise TranslateError("%s get_neighborhood: %s missing" % (what, n))
        return "((%s, %s, %s), (%s, %s, %s))" % tuple(v)
    lean += "/-- `uspg_%sd::get_neighborhood(unsigned, unsigned, unsigned)`: first and one-past-last voxel per axis -/\n" % suffix
    lean += "def nbhRange%s (g : Dims R) (object_voxel_x_id object_voxel_y_id object_voxel_z_id : Nat) : (Nat × Nat × Nat) × (Nat × Nat × Nat) :=\n" % suffix
    lean += te.block(st, tail) + "\n"
    return lean, loops


def loop_flatten_exprs(text, what):
    r = re.findall(r"const\s+size_t\s+voxel_id\s*=\s*([^;]*);", text)
    if not r:
        raise TranslateError("%s: voxel_id computation not found in a loop" % what)
    return r


def gen_content_loops(src, what):
    params, body = X.find_function(src, "get_grid_content")
    hdr = "".join(r"for\(size_tvoxel_%s_id=0;voxel_%s_id<nb_voxels_%s_;voxel_%s_id\+\+\)\{" % ((a,) * 4) for a in "xyz")
    m = re.search(r"\bfor\s*\(", body)
    k = m.start() if m else 0
    if not m or not re.match(hdr, norm(body[k:])):
        raise TranslateError("%s get_grid_content: loop nest is not x{y{z{ over [0,nb)" % what)
    if not norm(body).endswith("}}}returngrid_content;"):
        raise TranslateError("%s get_grid_content: code after the loops" % what)
    return body[k:]


@T.generator("Grid")
def gen_grid():
    a, s3, s4 = T.src(ABS), T.src(G3), T.src(G4)
    parts = []
    info = {}
    # ---- uspg_abstract
    params, body = find_overload(a, "get_voxel_index", r"const unsigned voxel_x_id")
    if param_names(params) != ["voxel_x_id", "voxel_y_id", "voxel_z_id"]:
        raise TranslateError("get_voxel_index(unsigned…) parameters")
    env = dict(MEMBER_READ)
    env.update({n: (n, "N") for n in ("voxel_x_id", "voxel_y_id", "voxel_z_id")})
    st = X.parse_statements(body)
    flat_ast = [s for s in st if s[0] == "let" and s[1] == "voxel_id"]
    if len(flat_ast) != 1:
        raise TranslateError("get_voxel_index: voxel_id")
    flat_ast = flat_ast[0][2]
    parts.append("/-- `uspg_abstract::get_voxel_index(unsigned, unsigned, unsigned)`: position in the flattened `voxel_lst_` -/\n"
                 "def flatten (g : Dims R) (voxel_x_id voxel_y_id voxel_z_id : Nat) : Nat :=\n" + TE(env).block(st) + "\n")
    params, body = find_overload(a, "get_3d_voxel_index", r"const double pos_x")
    if param_names(params) != ["pos_x", "pos_y", "pos_z"]:
        raise TranslateError("get_3d_voxel_index(double…) parameters")
    check_casts(body, "get_3d_voxel_index")
    env = dict(MEMBER_READ)
    env.update({n: (n, "R") for n in ("pos_x", "pos_y", "pos_z")})
    st = X.parse_statements(body)
    parts.append("/-- `uspg_abstract::get_3d_voxel_index(double, double, double)` -/\n"
                 "def voxelIndex (fn : Fn R) (g : Dims R) (pos_x pos_y pos_z : R) : Nat × Nat × Nat :=\n" + TE(env).block(st) + "\n")
    info["voxel_index_statements"] = len(st)
    params, body = find_overload(a, "get_voxel_index", r"const double pos_x")
    st = X.parse_statements(body)
    parts.append("/-- `uspg_abstract::get_voxel_index(double, double, double)` -/\n"
                 "def voxelId (fn : Fn R) (g : Dims R) (pos_x pos_y pos_z : R) : Nat :=\n" + TE(env).block(st) + "\n")
    # ---- uspg_3d / uspg_4d
    for suffix, s, cls in (("3", s3, "uspg_3d"), ("4", s4, "uspg_4d")):
        what = cls
        gen_ctor(s, cls, what)
        lean, n, dtext = gen_update(s, suffix, what)
        parts.append(lean)
        info["update_dimensions_%s_statements" % suffix] = n
        info["delta_%s" % suffix] = dtext
        lean, loops = gen_nbh(s, suffix, what)
        parts.append(lean)
        cl = gen_content_loops(s, what)
        for txt, where in ((loops, "get_neighborhood"), (cl, "get_grid_content")):
            for ex in loop_flatten_exprs(txt, what + "::" + where):
                if X.parse_expr(ex) != flat_ast:
                    raise TranslateError("%s::%s flattens with a different expression: %s" % (what, where, norm(ex)))
        # get_voxel_content / place_object go through get_voxel_index
        p, b = X.find_function(s, "get_voxel_content")
        if "get_voxel_index(voxel_x_id,voxel_y_id,voxel_z_id)" not in norm(b) or "returnvoxel_lst_[voxel_id];" not in norm(b):
            raise TranslateError("%s::get_voxel_content changed" % what)
    p, b = find_overload(s3, "place_object", r"const T& object, const double pos_x")
    if norm(b) != "constsize_tvoxel_id=get_voxel_index(pos_x,pos_y,pos_z);voxel_lst_[voxel_id]=object;":
        raise TranslateError("uspg_3d::place_object changed: %s" % norm(b))
    p, b = find_overload(s4, "place_object", r"const T& object, const double pos_x")
    if norm(b) != "place_object(object,get_voxel_index(pos_x,pos_y,pos_z));":
        raise TranslateError("uspg_4d::place_object(double…) changed: %s" % norm(b))
    p, b = find_overload(s4, "place_object", r"const T& object, const size_t voxel_id")
    if norm(b).replace("assert(voxel_id<voxel_lst_.size());", "") != "voxel_lst_[voxel_id].push_front(object);":
        raise TranslateError("uspg_4d::place_object(size_t) changed: %s" % norm(b))
    origin = "%s, %s, %s" % (ABS, G3, G4)
    header = ("-- GENERATED by tools/gen/c20_grid.py (tools/translate.py) from %s — do not edit.\n"
              "import SimuVerif.Model.GridBase\nset_option linter.unusedVariables false\nnamespace Simu.Gen\nopen Simu\n"
              "variable {R : Type} [Add R] [Sub R] [Mul R] [Div R] [Neg R] [Lit R]\n\n") % origin
    text = header + "\n".join(parts) + "\nend Simu.Gen\n"
    changed = T.write_if_changed(os.path.join(T.GEN, "Grid.lean"), text)
    info.update({"file": "Gen/Grid.lean", "origin": origin, "rewritten": changed,
                 "sha256": hashlib.sha256(text.encode()).hexdigest()[:16],
                 "functions": ["flatten", "voxelIndex", "voxelId", "updateDims3", "nbhIndex3", "nbhRange3",
                               "updateDims4", "nbhIndex4", "nbhRange4"]})
    return info
