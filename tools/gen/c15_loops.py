"""Generator for C15: what the parallel phases of the code look like — extracted from the C++ text on every run.
  * the `#pragma omp parallel for` loops of solver::run_iteration: which method each calls on `cell_lst_[i]`,
    that the body is exactly that one call (footprint = the cell itself), whether the whole list is passed as argument;
  * cell_divider::run: whether the cell list is resized inside the parallel loop, whether ids are only taken inside
    the critical section, whether the daughters are appended after the loop;
  * parallel_exception_handler: catch-all, store inside a critical section, rethrow after the loop;
  * poisson_sampling::uniform_sampling(cell): whether a random engine declared outside a parallel loop is used inside it.
"""
import re, os, hashlib
import translate as T
import cxx2lean as X


def omp_for_loops(body):
    """[(loop header, loop body text)] for every `#pragma omp parallel for` followed by a for loop"""
    out = []
    for m in re.finditer(r"#pragma\s+omp\s+parallel\s+for[^\n]*\n\s*for\s*\(", body):
        p0 = m.end() - 1
        p1 = X.match_brace(body, p0, "(", ")")
        rest = body[p1 + 1:]
        mm = re.match(r"\s*\{", rest)
        if not mm:
            continue
        b0 = p1 + 1 + mm.end() - 1
        b1 = X.match_brace(body, b0)
        out.append((body[p0 + 1:p1], body[b0 + 1:b1]))
    return out


def bool_(b):
    return "true" if b else "false"


@T.generator("ParLoops")
def gen_parloops():
    solver = T.src("src/solver.cpp")
    _, it = X.find_function(solver, "solver::run_iteration")
    loops = []
    for hdr, body in omp_for_loops(it):
        m = re.fullmatch(r"\s*cell_lst_\s*\[\s*i\s*\]\s*->\s*(\w+)\s*\((.*)\)\s*;\s*", body, re.S)
        if m:
            loops.append((m.group(1), True, "cell_lst_" in m.group(2)))
        else:
            loops.append(("?", False, True))
    if not loops:
        raise X.TranslateError("no parallel loop found in solver::run_iteration")
    div = T.src("src/triangulation_modules/cell_divider.cpp")
    _, run = X.find_function(div, "cell_divider::run")
    dl = omp_for_loops(run)
    if len(dl) != 1:
        raise X.TranslateError("cell_divider::run: expected one parallel loop")
    dbody = dl[0][1]
    resize_in_loop = bool(re.search(r"\bcell_lst\s*\.\s*(push_back|emplace_back|insert|erase|resize|clear|pop_back)\s*\(", dbody))
    crit = re.search(r"#pragma\s+omp\s+critical\s*\n\s*\{", dbody)
    ids_in_critical = False
    if crit:
        c0 = crit.end() - 1
        c1 = X.match_brace(dbody, c0)
        outside = dbody[:crit.start()] + dbody[c1 + 1:]
        ids_in_critical = ("max_cell_id_" in dbody[c0:c1]) and ("max_cell_id_" not in outside)
    after_loop = run[run.index(dbody) + len(dbody):]
    appended_after = bool(re.search(r"\bcell_lst\s*\.\s*insert\s*\(\s*cell_lst\s*\.\s*end\s*\(\s*\)", after_loop))
    utils = T.src("include/utils.hpp")
    _, h = X.find_function(utils, "parallel_exception_handler")
    hl = omp_for_loops(h)
    catches_all = bool(hl) and bool(re.search(r"catch\s*\(\s*\.\.\.\s*\)", hl[0][1]))
    stores_in_critical = bool(hl) and bool(re.search(r"#pragma\s+omp\s+critical\s*\n\s*\{[^}]*e_ptr\s*=\s*std::current_exception\s*\(\s*\)", hl[0][1]))
    rethrow_after = bool(hl) and bool(re.search(r"if\s*\(\s*e_ptr\s*\)\s*std::rethrow_exception\s*\(\s*e_ptr\s*\)", h[h.index(hl[0][1]) + len(hl[0][1]):]))
    ps = T.src("src/triangulation_modules/poisson_sampling.cpp")
    _, us = X.find_function(ps, "poisson_sampling::uniform_sampling", 0)
    shared_rng = False
    for hdr, body in omp_for_loops(us):
        before = us[:us.index(body)]
        for m in re.finditer(r"std::(minstd_rand0?|mt19937(?:_64)?|default_random_engine)\s+(\w+)\s*[\(\{;]", before):
            # declared before the loop: is the declaration itself inside an enclosing `#pragma omp parallel` block?
            decl_pos = m.start()
            enclosing = [mm.start() for mm in re.finditer(r"#pragma\s+omp\s+parallel(?!\s+for)", before)]
            private = any(e < decl_pos for e in enclosing)
            if re.search(r"\b" + re.escape(m.group(2)) + r"\b", body) and not private:
                shared_rng = True
    lean = "/-- the `#pragma omp parallel for` loops of solver::run_iteration: (method called on cell_lst_[i], the body is exactly that call, the whole list is passed as argument) -/\n"
    lean += "def parLoops : List (String × Bool × Bool) := [%s]\n" % ", ".join('("%s", %s, %s)' % (n, bool_(a), bool_(b)) for (n, a, b) in loops)
    lean += "def dividerResizesListInLoop : Bool := %s\n" % bool_(resize_in_loop)
    lean += "def dividerIdsOnlyInCritical : Bool := %s\n" % bool_(ids_in_critical)
    lean += "def dividerAppendsAfterLoop : Bool := %s\n" % bool_(appended_after)
    lean += "def handlerCatchesAll : Bool := %s\ndef handlerStoresInCritical : Bool := %s\ndef handlerRethrowsAfterLoop : Bool := %s\n" % (
        bool_(catches_all), bool_(stores_in_critical), bool_(rethrow_after))
    lean += "def samplingSharesRngAcrossThreads : Bool := %s\n" % bool_(shared_rng)
    text = "-- GENERATED by tools/gen/c15_loops.py from /repo — do not edit.\nnamespace Simu.Gen\n" + lean + "end Simu.Gen\n"
    changed = T.write_if_changed(os.path.join(T.GEN, "ParLoops.lean"), text)
    return {"file": "Gen/ParLoops.lean", "rewritten": changed, "loops": loops, "divider": {"resizes_in_loop": resize_in_loop,
            "ids_only_in_critical": ids_in_critical, "appends_after_loop": appended_after},
            "handler": {"catch_all": catches_all, "store_in_critical": stores_in_critical, "rethrow_after_loop": rethrow_after},
            "sampling_shared_rng": shared_rng, "sha256": hashlib.sha256(text.encode()).hexdigest()[:16]}
