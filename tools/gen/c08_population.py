"""C08 generator: the SHAPE of the population code, extracted from the C++ text on every run.

  lean/SimuVerif/Gen/Population.lean :=
     phases     calls of solver::run_iteration in source order (preprocessor evaluated with the
                defaults of include/global_configuration.hpp)
     crit/post  statements of the critical section of cell_divider::run / of the block after its loop
     period     the `iteration_ % N == 0` of the divider call
     cellKey / nodeKey   what contact_node_node_via_coupling::resolve_contact stores in a coupling
  plus checks (translation fails, i.e. the Gen file does not compile, when one does not hold):
     solver constructor assigns `set_id(max_cell_id_++)` / `set_local_id(get_id())`,
     both renumbering loops run from 0 to size() and set local id = loop index,
     the removal is `cell_lst_.erase(std::remove_if(cell_lst_.begin(), cell_lst_.end(), …), cell_lst_.end())`,
     time integration and polarisation index `cell_lst[...]` with the stored first component.
The theorems of Properties/C08.lean are stated about `Gen.Population.code`, so a moved, dropped or
re-ordered statement re-opens the proof."""
import os, re, hashlib
import translate
import cxx2lean as X
from cxx2lean import TranslateError

NAME = "Population"


def _macros():
    s = translate.src("include/global_configuration.hpp")
    m = {}
    for k, v in re.findall(r"^\s*#\s*define\s+(\w+)\s+(\w+)\s*$", s, flags=re.M):
        if k in m:
            continue            # the first (unconditional) definition is the shipped default; H1 overrides come later
        m[k] = {"true": 1, "false": 0}.get(v, v)
    return m


def _preprocess(body, macros):
    """evaluate #if NAME == k / #elif / #else / #endif, drop #pragma lines"""
    out, stack = [], []      # stack of [taken_before, active_now, parent_active]
    for line in body.split("\n"):
        st = line.strip()
        active = all(f[1] for f in stack)
        if st.startswith("#"):
            d = st[1:].strip()
            if d.startswith("pragma"):
                continue
            m = re.match(r"(if|elif)\s+(\w+)\s*(==|!=)\s*(\w+)\s*$", d)
            if m:
                if m.group(2) not in macros:
                    raise TranslateError("unknown macro %s" % m.group(2))
                val = (str(macros[m.group(2)]) == m.group(4)) == (m.group(3) == "==")
                if m.group(1) == "if":
                    stack.append([val, val])
                else:
                    if not stack:
                        raise TranslateError("#elif without #if")
                    f = stack[-1]
                    f[1] = (not f[0]) and val
                    f[0] = f[0] or val
                continue
            if d.startswith("else"):
                f = stack[-1]
                f[1] = not f[0]
                f[0] = True
                continue
            if d.startswith("endif"):
                stack.pop()
                continue
            raise TranslateError("unsupported preprocessor line: %s" % st)
        if active:
            out.append(line)
    if stack:
        raise TranslateError("unbalanced #if")
    return "\n".join(out)


def _statements(body):
    """top-level statements of a block (text without comments / preprocessor lines)"""
    out, cur, par, br = [], "", 0, 0
    for ch in body:
        cur += ch
        if ch == "(":
            par += 1
        elif ch == ")":
            par -= 1
        elif ch == "{":
            br += 1
        elif ch == "}":
            br -= 1
            if br == 0 and par == 0 and re.match(r"\s*(for|if|while|else)\b", cur):
                out.append(cur.strip()); cur = ""
        elif ch == ";" and par == 0 and br == 0:
            out.append(cur.strip()); cur = ""
    if cur.strip():
        raise TranslateError("trailing text %r" % cur.strip()[:60])
    return [re.sub(r"\s+", " ", s) for s in out if s.strip() not in ("", ";")]


def _norm(s):
    return re.sub(r"\s+", "", s)


RENUM = re.compile(r"^for\(size_t(\w+)=0;\1<(cell_lst_?)\.size\(\);\1\+\+\)\{\2\[\1\]->set_local_id\(\1\);\}$")


def _phases(macros):
    s = translate.src("src/solver.cpp")
    _, body = X.find_function(s, "solver::run_iteration")
    body = _preprocess(body, macros)
    phases, period = [], None
    bump = False
    for st in _statements(body):
        n = _norm(st)
        if bump:
            raise TranslateError("statement after iteration_++: %s" % st[:60])
        if re.match(r"^if\(!time_integrator_ptr_->is_step_tmp\(\)\)save_mesh\(\);$", n):
            phases.append("saveMesh")
        elif re.match(r"^if\(!time_integrator_ptr_->is_step_tmp\(\)&&iteration_%(\d+)==0\)cell_divider::run\(cell_lst_,[^;]*,max_cell_id_,[^;]*\);$", n):
            period = int(re.search(r"iteration_%(\d+)==0", n).group(1))
            phases.append("divide")
        elif re.match(r"^for\(size_ti=0;i<cell_lst_\.size\(\);i\+\+\)\{cell_lst_\[i\]->update_face_types\(\);\}$", n):
            phases.append("faceTypes")
        elif n == "lmr_ptr_->refine_meshes(cell_lst_);":
            phases.append("refine")
        elif n == "contact_model_ptr_->run(cell_lst_);":
            phases.append("contact")
        elif re.match(r"^for\(size_ti=0;i<cell_lst_\.size\(\);i\+\+\)\{cell_lst_\[i\]->special_polarization_update\(cell_lst_\);\}$", n):
            phases.append("polarise")
        elif re.match(r"^for\(size_ti=0;i<cell_lst_\.size\(\);i\+\+\)\{cell_lst_\[i\]->apply_internal_forces\([^;]*\);\}$", n):
            phases.append("forces")
        elif n == "time_integrator_ptr_->update_nodes_positions(cell_lst_);":
            phases.append("integrate")
        elif re.match(r"^if\(iteration_%\d+==0\)statistic_writer_ptr_->write_data\([^;]*\);$", n):
            phases.append("stats")
        elif n.startswith("cell_lst_.erase("):
            if not re.match(r"^cell_lst_\.erase\(std::remove_if\(cell_lst_\.begin\(\),cell_lst_\.end\(\),\[\]\(constcell_ptr&c\)\{"
                            r"if\(c->is_below_min_vol\(\)\)c->clear_data\(\);returnc->is_below_min_vol\(\);\}\),cell_lst_\.end\(\)\);$", n):
                raise TranslateError("removal statement has an unexpected form: %s" % st[:120])
            phases.append("remove")
        elif RENUM.match(n):
            phases.append("renumber")
        elif n.startswith("if(verbose_") and "printf(" in n and "cell_lst_[" not in n and "set_" not in n:
            pass
        elif n == "iteration_++;":
            bump = True
        else:
            raise TranslateError("run_iteration: unrecognised statement: %s" % st[:120])
    if not bump:
        raise TranslateError("run_iteration does not end with iteration_++")
    if period is None:
        raise TranslateError("divider call not found")
    return phases, period


def _divider():
    s = translate.src("src/triangulation_modules/cell_divider.cpp")
    _, body = X.find_function(s, "cell_divider::run")
    # the loop over the cells
    m = re.search(r"for\s*\(\s*size_t\s+i\s*=\s*0\s*;\s*i\s*<\s*cell_lst\.size\(\)\s*;\s*i\+\+\s*\)\s*\{", body)
    if not m:
        raise TranslateError("cell_divider::run: loop over the cells not found")
    l0 = m.end() - 1
    l1 = X.match_brace(body, l0)
    loop = body[l0 + 1:l1]
    if not re.search(r"if\s*\(\s*cell_lst\[i\]->is_ready_to_divide\(\)\s*\)", loop) or \
       not re.search(r"division_result\s*=\s*divide_cell\(\s*cell_lst\[i\]", loop) or \
       not re.search(r"if\s*\(\s*division_result\.has_value\(\)\s*\)", loop):
        raise TranslateError("cell_divider::run: ready / divide_cell / has_value structure changed")
    c = re.search(r"#\s*pragma\s+omp\s+critical\s*\{", loop)
    if not c:
        raise TranslateError("critical section not found")
    c0 = c.end() - 1
    c1 = X.match_brace(loop, c0)
    crit = []
    bound = False
    for st in _statements(loop[c0 + 1:c1]):
        n = _norm(st)
        if n == "auto[daughter_1,daughter_2]=division_result.value();":
            bound = True
        elif n == "cell_lst[i]->clear_data();":
            crit.append("clearMother")
        elif n == "cells_to_delete_lst.push_back(i);":
            crit.append("markDelete")
        elif n == "daughter_1->cell_id_=max_cell_id_++;":
            crit.append("freshId1")
        elif n == "daughter_2->cell_id_=max_cell_id_++;":
            crit.append("freshId2")
        elif n == "cell_lst.push_back(daughter_1);":
            crit.append("push1")
        elif n == "cell_lst.push_back(daughter_2);":
            crit.append("push2")
        elif n == "daughter_cell_lst.push_back(daughter_1);":
            crit.append("collect1")
        elif n == "daughter_cell_lst.push_back(daughter_2);":
            crit.append("collect2")
        else:
            raise TranslateError("critical section: unrecognised statement: %s" % st[:100])
    if not bound:
        raise TranslateError("critical section does not bind the daughters")
    # nothing but the critical section may touch the list inside the loop
    rest_loop = loop[:c.start()] + loop[c1 + 1:]
    if re.search(r"push_back|insert|erase|max_cell_id_|clear_data|set_local_id|cell_id_", rest_loop):
        raise TranslateError("the loop modifies the list outside the critical section")
    after = _preprocess(body[l1 + 1:], {})
    after_loop, post = [], []
    sts = _statements(after)
    if not sts or not re.match(r"^if\(cells_to_delete_lst\.size\(\)>0\)\{", _norm(sts[-1])):
        raise TranslateError("statements after the loop changed: %r" % [x[:60] for x in sts])
    for st in sts[:-1]:
        if _norm(st) == "cell_lst.insert(cell_lst.end(),daughter_cell_lst.begin(),daughter_cell_lst.end());":
            after_loop.append("appendDaughters")
        else:
            raise TranslateError("after the loop: unrecognised statement: %s" % st[:100])
    collects = ("collect1" in crit) or ("collect2" in crit)
    if collects != (after_loop == ["appendDaughters"]):
        raise TranslateError("daughters are collected in daughter_cell_lst but not appended exactly once after the loop (or vice versa)")
    if collects and not re.search(r"std::vector<cell_ptr>\s+daughter_cell_lst\s*;", body[:m.start()]):
        raise TranslateError("daughter_cell_lst is not a fresh local vector")
    blk = sts[-1]
    b0 = blk.index("{")
    b1 = X.match_brace(blk, b0)
    for st in _statements(blk[b0 + 1:b1]):
        n = _norm(st)
        if n == "std::sort(cells_to_delete_lst.begin(),cells_to_delete_lst.end(),std::less<unsigned>());":
            post.append("sortDelete")
        elif n == "remove_index(cell_lst,cells_to_delete_lst);":
            post.append("removeIndex")
        elif RENUM.match(n):
            post.append("renumber")
        else:
            raise TranslateError("after the loop: unrecognised statement: %s" % st[:100])
    return crit, after_loop, post


def _ctor():
    s = translate.src("src/solver.cpp")
    n = _norm(s)
    if "for(size_ti=0;i<cell_lst_.size();i++){cell_lst_[i]->set_id(max_cell_id_++);cell_lst_[i]->set_local_id(cell_lst_[i]->get_id());}" not in n:
        raise TranslateError("solver constructor: id assignment loop changed")
    h = _norm(translate.src("include/solver.hpp"))
    if "unsignedmax_cell_id_=0;" not in h:
        raise TranslateError("solver.hpp: max_cell_id_ does not start at 0")


def _keys():
    s = translate.src("src/contact_models/contact_node_node_via_coupling.cpp")
    _, body = X.find_function(s, "contact_node_node_via_coupling::resolve_contact")
    n = _norm(body)
    m1 = re.search(r"n1\.set_coupled_node_and_min_distance\(std::make_pair\(c2->(\w+)\(\),n2->(\w+)\(\)\),", n)
    m2 = re.search(r"n2->set_coupled_node_and_min_distance\(std::make_pair\(c1->(\w+)\(\),n1\.(\w+)\(\)\),", n)
    if not m1 or not m2:
        raise TranslateError("resolve_contact: the two set_coupled_node_and_min_distance calls were not found")
    if m1.group(1) != m2.group(1) or m1.group(2) != m2.group(2):
        raise TranslateError("resolve_contact stores different keys in the two directions")
    ck = {"get_local_id": "c.localId", "get_id": "c.cellId"}.get(m1.group(1))
    nk = {"get_local_id": "n.nid"}.get(m1.group(2))
    if ck is None or nk is None:
        raise TranslateError("resolve_contact stores %s / %s" % (m1.group(1), m1.group(2)))
    if "cell_ptrc2=f->get_owner_cell();" not in _norm(X.find_function(s, "contact_node_node_via_coupling::resolve_all_contacts")[1]):
        raise TranslateError("resolve_all_contacts no longer takes c2 from the owner pointer of the face")
    # the dereferences use the first component as an index into cell_lst
    t = _norm(translate.src("src/time_integration/time_integration.cpp"))
    if "constauto[c2_id,n2_id]=n1.coupled_node_.value();if(c1->get_local_id()>c2_id){" not in t or "cell_ptrc2=cell_lst[c2_id];" not in t:
        raise TranslateError("time integration no longer dereferences cell_lst[c2_id] under c1->get_local_id() > c2_id")
    e = _norm(translate.src("include/mesh/cell_types/epithelial_cell.hpp"))
    if "cell_ptrc2=cell_lst[n1_c2_id];" not in e:
        raise TranslateError("special_polarization_update no longer dereferences cell_lst[n1_c2_id]")
    return ck, nk, m1.group(1)


def _gate(macros):
    """the admissibility test of simulation_initializer::run on the number of face types"""
    s = translate.src("src/io/simulation_initializer.cpp")
    _, body = X.find_function(s, "simulation_initializer::run")
    n = _norm(_preprocess(body, macros))
    if "[](cell_type_param_ptrctp){returnctp->face_types_.size()>0;}" not in n:
        raise TranslateError("simulation_initializer::run no longer requires one face type per cell type")
    m = re.search(r"\[\]\(cell_type_param_ptrctp\)\{returnctp->global_type_id_!=0\|\|ctp->face_types_\.size\(\)>=(\d+);\}\)\)\{throw", n)
    return 1, (int(m.group(1)) if m else 1)


def _epi_types(macros):
    """face-type indices an epithelial cell writes in the shipped configuration"""
    s = translate.src("include/mesh/cell_types/epithelial_cell.hpp")
    out = set()
    for fn in ("special_polarization_update", "update_face_types"):
        _, body = X.find_function(s, fn)
        body = _preprocess(body, macros)
        ks = re.findall(r"set_face_type_id\(\s*(\w+)\s*\)", body)
        if not ks:
            raise TranslateError("%s writes no face type" % fn)
        for k in ks:
            if not k.isdigit():
                raise TranslateError("%s writes a non-literal face type %s" % (fn, k))
            out.add(int(k))
    return sorted(out)


@translate.generator(NAME)
def gen_population():
    origin = "src/solver.cpp, src/triangulation_modules/cell_divider.cpp, src/contact_models/contact_node_node_via_coupling.cpp"
    macros = _macros()
    phases, period = _phases(macros)
    crit, after_loop, post = _divider()
    _ctor()
    ck, nk, ckname = _keys()
    epi = _epi_types(macros)
    min_all, min_epi = _gate(macros)
    body = """-- GENERATED by tools/gen/c08_population.py from %s — do not edit.
import SimuVerif.Model.Population
namespace Simu.Gen.Population
open Simu.Pop

/-- `solver::run_iteration`, `cell_divider::run`, `resolve_contact` as they stand in the source
(POLARIZATION_MODE_INDEX = %s, CONTACT_MODEL_INDEX = %s) -/
def code : Code :=
  { phases := [%s],
    crit := [%s],
    afterLoop := [%s],
    post := [%s],
    period := %d,
    cellKey := fun c => %s,
    nodeKey := fun n => %s }

/-- the face-type indices `epithelial_cell` writes (`update_face_types`, `special_polarization_update`) -/
def epiTypesWritten : List Nat := [%s]

/-- number of face types `simulation_initializer::run` demands of every cell type / of an epithelial cell type -/
def minTypesAll : Nat := %d
def minTypesEpithelial : Nat := %d

end Simu.Gen.Population
""" % (origin, macros.get("POLARIZATION_MODE_INDEX"), macros.get("CONTACT_MODEL_INDEX"),
       ", ".join("." + p for p in phases), ", ".join("." + p for p in crit), ", ".join("." + p for p in after_loop), ", ".join("." + p for p in post),
       period, ck, nk, ", ".join(map(str, epi)), min_all, max(min_all, min_epi))
    if str(macros.get("CONTACT_MODEL_INDEX")) != "1" or str(macros.get("POLARIZATION_MODE_INDEX")) != "1":
        raise TranslateError("the population model describes CONTACT_MODEL_INDEX = 1, POLARIZATION_MODE_INDEX = 1")
    changed = translate.write_if_changed(os.path.join(translate.GEN, NAME + ".lean"), body)
    return {"file": "Gen/%s.lean" % NAME, "origin": origin, "rewritten": changed,
            "sha256": hashlib.sha256(body.encode()).hexdigest()[:16],
            "phases": phases, "crit": crit, "after_loop": after_loop, "post": post, "period": period, "cell_key": ckname, "epi_types_written": epi, "min_face_types": [min_all, max(min_all, min_epi)]}
