"""Generator for C10: reference-invalidation traces, the owned-through-base class table, the
initialiser table of `node`, and the formatting table of `format_number` — extracted from the C++ text.

Trace extraction (per function of FUNCS): the body is scanned in token order;
  * `T& x = <expr>` / `T& x : <container>` / `auto it = std::find(<container>.begin() …)` where <expr> reaches into a
    growable container (std::vector members node_lst_, face_lst_, and — in ball_pivoting_algorithm — edge_lst_,
    plus the cell list handed to cell_divider::run) emits `bind x c`;
  * calls that may reallocate a container emit `grow c` (direct push_back/emplace_back, add_node, create_face, …,
    and — through a fixpoint over the analysed functions — calls of functions that grow);
  * every later occurrence of `x` emits `use x`;
  * loop bodies are emitted twice (a use in the next iteration after a growth in this one is a use-after-growth).
Control flow other than loops is ignored (both branches of an `if` are laid out in sequence): conservative.
"""
import re, os, hashlib
import translate as T
import cxx2lean as X

NODES, FACES, EDGES, CELLS = 0, 1, 2, 3
CNAME = {0: "node_lst_", 1: "face_lst_", 2: "edge_lst_(bpa)", 3: "cell_lst"}

FUNCS = [
    ("src/triangulation_modules/local_mesh_refiner.cpp", "local_mesh_refiner::split_edge", "lmr"),
    ("src/triangulation_modules/local_mesh_refiner.cpp", "local_mesh_refiner::merge_edge", "lmr"),
    ("src/triangulation_modules/local_mesh_refiner.cpp", "local_mesh_refiner::swap_edge", "lmr"),
    ("src/triangulation_modules/local_mesh_refiner.cpp", "local_mesh_refiner::remove_elongated_triangles", "lmr"),
    ("src/triangulation_modules/local_mesh_refiner.cpp", "local_mesh_refiner::get_triangle_score", "lmr"),
    ("src/triangulation_modules/local_mesh_refiner.cpp", "local_mesh_refiner::can_be_merged", "lmr"),
    ("src/triangulation_modules/local_mesh_refiner.cpp", "local_mesh_refiner::refine_mesh", "lmr"),
    ("src/mesh/cell.cpp", "cell::add_node", "cell"),
    ("src/mesh/cell.cpp", "cell::add_face", "cell"),
    ("src/mesh/cell.cpp", "cell::create_face", "cell"),
    ("src/mesh/cell.cpp", "cell::delete_face", "cell"),
    ("src/mesh/cell.cpp", "cell::replace_node", "cell"),
    ("src/mesh/cell.cpp", "cell::update_face_normal_and_area", "cell"),
    ("src/mesh/cell.cpp", "cell::check_face_normal_orientation", "cell"),
    ("src/mesh/cell.cpp", "cell::get_connected_nodes", "cell"),
    ("src/triangulation_modules/ball_pivoting_algorithm.cpp", "ball_pivoting_algorithm::fill_surface_holes", "bpa"),
    ("src/triangulation_modules/ball_pivoting_algorithm.cpp", "ball_pivoting_algorithm::get_edge", "bpa"),
    ("src/triangulation_modules/ball_pivoting_algorithm.cpp", "ball_pivoting_algorithm::expand_triangulation", "bpa"),
    ("src/triangulation_modules/ball_pivoting_algorithm.cpp", "ball_pivoting_algorithm::find_seed_triangle", "bpa"),
    ("src/triangulation_modules/cell_divider.cpp", "cell_divider::run", "div"),
]


CELL_METHODS = {"add_node", "add_face", "create_face", "delete_face", "replace_node", "update_face_normal_and_area",
                "check_face_normal_orientation", "get_connected_nodes"}


BPA_METHODS = {"fill_surface_holes", "get_edge", "expand_triangulation", "find_seed_triangle"}


def short(q):
    return q.split("::")[-1]


_MEMBER_VECTORS = None


def member_vectors():
    """names declared as `std::vector<…> name;` in any header of /repo/include (data members): the only containers whose
    element references are invalidated by growth.  std::list / std::deque / maps are deliberately not tracked."""
    global _MEMBER_VECTORS
    if _MEMBER_VECTORS is None:
        names = set()
        inc = os.path.join(T.REPO, "include")
        for d, _, fs in os.walk(inc):
            for f in fs:
                if f.endswith(".hpp"):
                    txt = X.strip_comments(open(os.path.join(d, f), errors="replace").read()) if hasattr(X, "strip_comments") else open(os.path.join(d, f), errors="replace").read()
                    for m in re.finditer(r"std\s*::\s*vector\s*<[^;{}()]*>\s*(\w+)\s*(?:;|=|\{)", txt):
                        names.add(m.group(1))
        _MEMBER_VECTORS = names - {"node_lst_", "face_lst_", "edge_lst_"}
    return _MEMBER_VECTORS


GROW_METHODS = r"(?:push_back|emplace_back|insert|resize|reserve|clear|erase|pop_back|assign|shrink_to_fit)"


def local_vectors(text):
    """std::vector locals / parameters / members that this function text may reallocate (or shrink): name -> id >= 4"""
    cands = set(re.findall(r"std::vector\s*<[^;{}]*?>\s*&?\s*(\w+)\s*(?:[;=,){(]|$)", text)) | member_vectors()
    cands -= {"node_lst_", "face_lst_", "edge_lst_", "cell_lst"}
    grown = sorted(n for n in cands if re.search(r"(?<![\w.>])" + re.escape(n) + r"\s*(?:\.|->)\s*" + GROW_METHODS + r"\s*\(", text))
    return {n: 4 + i for i, n in enumerate(grown)}


def container_of_expr(expr, ctx):
    """which growable container does this initialiser reach into"""
    e = expr
    if re.search(r"get_node\s*\(|node_lst_\s*\[|node_lst_\s*\.\s*(back|front|at)\s*\(|get_const_ref_node\s*\(|node_lst_\s*\.\s*emplace_back", e):
        return NODES
    if re.search(r"get_face\s*\(|face_lst_\s*\[|face_lst_\s*\.\s*(back|front|at)\s*\(|get_const_ref_face\s*\(|face_lst_\s*\.\s*emplace_back|get_face_lst\s*\(\s*\)\s*\[", e):
        return FACES
    if ctx == "bpa" and re.search(r"edge_lst_\s*\[|edge_lst_\s*\.\s*(back|front|at|begin|end)\s*\(|edge_lst_\s*\.\s*emplace_back", e):
        return EDGES
    if ctx == "div" and re.search(r"\bcell_lst\s*\[|\bcell_lst\s*\.\s*(back|front|at|begin|end)\s*\(", e):
        return CELLS
    return None


def direct_grows(stmt, ctx):
    g = set()
    if re.search(r"(?<![\w.])add_node\s*\(|->\s*add_node\s*\(|create_node\s*\(|node_lst_\s*\.\s*(push_back|emplace_back|resize|insert)\s*\(", stmt):
        g.add(NODES)
    if re.search(r"create_face\s*\(|face_lst_\s*\.\s*(push_back|emplace_back|resize|insert)\s*\(", stmt):
        g.add(FACES)
    # cell::add_face (not edge::add_face, which is always called on an edge object with '.' or ')')
    if ctx != "bpa" and (re.search(r"(?:->|(?<![\w.\)]))\s*add_face\s*\(\s*f\s*\)", stmt) or re.search(r"\bc\s*->\s*add_face\s*\(", stmt)):
        g.add(FACES)
    if ctx == "bpa" and re.search(r"(?<![\w.>])get_edge\s*\(|edge_lst_\s*\.\s*(push_back|emplace_back|resize|insert)\s*\(", stmt):
        g.add(EDGES)
    if ctx == "div" and re.search(r"\bcell_lst\s*\.\s*(push_back|emplace_back|insert|resize)\s*\(", stmt):
        g.add(CELLS)
    return g


REF_DECL = re.compile(r"^(?:const\s+)?(?:[A-Za-z_][\w:]*(?:\s*<[^;=]*>)?)\s*(?:&|\*)\s*(\w+)\s*(?:=|\()(.*)$", re.S)
IT_DECL = re.compile(r"^(?:const\s+)?auto\s+(\w+)\s*=\s*(.*)$", re.S)
RANGE_FOR = re.compile(r"^\s*(?:const\s+)?(?:\w+(?:::\w+)*)\s*&\s*(\w+)\s*:\s*(.+)$", re.S)


def split_statements(body):
    """returns a tree: list of ('stmt', text) | ('loop', header_text, [tree]) | ('block', [tree])"""
    # preprocessor lines: every branch of an #if is kept (conservative), the directives themselves dropped
    body = re.sub(r"^[ \t]*#[^\n]*$", "", body, flags=re.M)
    toks = X.tokenize(body)
    pos = 0

    def text(ts):
        # member access without spaces, so that look-behinds can tell `x.add_face(` from a bare `add_face(`
        return re.sub(r"\s*(\.|->|::)\s*", r"\1", " ".join(t[1] for t in ts))

    def parse_block(end_tok):
        nonlocal pos
        items = []
        cur = []
        while pos < len(toks):
            k, v = toks[pos]
            if v == end_tok:
                pos += 1
                break
            if v in ("for", "while") and toks[pos + 1][1] == "(":
                if cur:
                    items.append(("stmt", text(cur))); cur = []
                pos += 1
                depth = 0
                hdr = []
                while True:
                    k2, v2 = toks[pos]
                    pos += 1
                    if v2 == "(":
                        depth += 1
                        if depth == 1:
                            continue
                    if v2 == ")":
                        depth -= 1
                        if depth == 0:
                            break
                    hdr.append((k2, v2))
                if pos < len(toks) and toks[pos][1] == "{":
                    pos += 1
                    inner = parse_block("}")
                elif pos < len(toks) and toks[pos][1] == ";":
                    pos += 1
                    inner = []
                else:
                    inner = [parse_single()]
                items.append(("loop", text(hdr), inner))
                continue
            if v == "do" and toks[pos + 1][1] == "{":
                if cur:
                    items.append(("stmt", text(cur))); cur = []
                pos += 2
                inner = parse_block("}")
                # the trailing while(cond);
                hdr = []
                while pos < len(toks) and toks[pos][1] != ";":
                    hdr.append(toks[pos]); pos += 1
                pos += 1
                items.append(("loop", text(hdr), inner))
                continue
            if v == "{":
                # a block (if/else body, lambda body, scope): flatten into the sequence
                if cur:
                    items.append(("stmt", text(cur))); cur = []
                pos += 1
                items.append(("block", parse_block("}")))
                continue
            if v == ";":
                pos += 1
                if cur:
                    items.append(("stmt", text(cur))); cur = []
                continue
            cur.append((k, v)); pos += 1
        if cur:
            items.append(("stmt", text(cur)))
        return items

    def parse_single():
        nonlocal pos
        cur = []
        while pos < len(toks) and toks[pos][1] != ";":
            if toks[pos][1] == "{":
                pos += 1
                return ("block", parse_block("}"))
            cur.append(toks[pos]); pos += 1
        pos += 1
        return ("stmt", text(cur))

    return parse_block("\0")


def diverges(items):
    """the block always leaves the function: its last statement is a return or a throw"""
    if not items:
        return False
    last = items[-1]
    if last[0] == "stmt":
        return bool(re.match(r"\s*(return\b|throw\b)", last[1]))
    if last[0] == "block":
        return diverges(last[1])
    return False


def flat_text(items):
    out = []
    for it in items:
        if it[0] == "stmt":
            out.append(it[1])
        elif it[0] == "block":
            out.append(flat_text(it[1]))
        else:
            out.append(it[1]); out.append(flat_text(it[2]))
    return " ; ".join(out)


class FnAnalysis:
    def __init__(self, ctx, grows_of, locals_=None):
        self.ctx = ctx
        self.locals = locals_ or {}    # other std::vector containers this function may reallocate: name -> id >= 4
        self.grows_of = grows_of       # name -> set of containers (summaries of analysed functions)
        self.refs = {}                 # var -> id
        self.events = []
        self.alternatives = []         # traces of the paths that leave the function early (return / throw inside a block)
        self.direct = set()

    def rid(self, v):
        if v not in self.refs:
            self.refs[v] = len(self.refs)
        return self.refs[v]

    def container(self, expr):
        c = container_of_expr(expr, self.ctx)
        if c is not None:
            return c
        for n, i in self.locals.items():
            if re.search(r"(?<![\w.>])" + re.escape(n) + r"\s*(?:\[|(?:\.|->)\s*(?:back|front|at|begin|end|data|rbegin|rend|cbegin|cend)\s*\()", expr):
                return i
        return None

    def grows(self, stmt):
        g = set(direct_grows(stmt, self.ctx))
        for n, i in self.locals.items():
            if re.search(r"(?<![\w.>])" + re.escape(n) + r"\s*(?:\.|->)\s*" + GROW_METHODS + r"\s*\(", stmt):
                g.add(i)
        return g

    def cname(self, c):
        if c in CNAME:
            return CNAME[c]
        return next((n for n, i in self.locals.items() if i == c), "container%d" % c)

    def stmt(self, s, bound):
        """bound: dict var -> container currently tracked (for use detection)"""
        s = s.strip()
        # strip leading control keywords so that declarations inside `if(...) T& x = …` are still seen
        decl = None
        m = REF_DECL.match(re.sub(r"^(?:else\s+)?", "", s))
        it = None
        if m:
            c = self.container(m.group(2))
            if c is not None:
                decl = (m.group(1), c, m.group(2))
        else:
            mi = IT_DECL.match(s)
            if mi and re.search(r"std\s*::\s*find\s*\(|\.begin\s*\(|\.end\s*\(", mi.group(2)):
                c = self.container(mi.group(2))
                if c is not None:
                    decl = (mi.group(1), c, mi.group(2))
        if decl is None:
            # a pointer (re)assigned to the address of an element: `p = &ref;` / `p = &container[i];` / `T* p = &ref;`
            ma = re.match(r"^(?:(?:const\s+)?[A-Za-z_][\w:]*(?:\s*<[^;=]*>)?\s*\*\s*)?(\w+)\s*=\s*&\s*(.+)$", s, re.S)
            if ma:
                tgt = ma.group(2).strip()
                c = self.container(tgt)
                if c is None:
                    mv = re.match(r"^\(?\s*(\w+)\s*\)?$", tgt)
                    if mv and mv.group(1) in bound:
                        c = bound[mv.group(1)]
                if c is not None:
                    decl = (ma.group(1), c, ma.group(2))
        rhs = decl[2] if decl else s
        # uses of tracked references in this statement (before a binding of the same name takes effect)
        words = re.findall(r"[A-Za-z_]\w*", rhs)
        for w in words:
            if w in bound and not (decl and w == decl[0]):
                self.events.append(("use", self.rid(w), w))
        # growths
        g = self.grows(rhs)
        self.direct |= {c for c in g if c < 4}
        for name, gs in self.grows_of.items():
            # a call of an analysed function: bare (`split_edge(…)`) or through a cell pointer (`c->create_face(…)`);
            # never a method called on an object with '.' (edge::add_face, edge::delete_face) and, inside the ball
            # pivoting class, never a cell method
            if (self.ctx == "bpa") != (name in BPA_METHODS):
                continue
            if re.search(r"(?:(?<![\w.>])|\bc\s*->\s*|\bthis\s*->\s*)" + re.escape(name) + r"\s*\(", rhs):
                g |= gs
        for c in sorted(g):
            self.events.append(("grow", c, self.cname(c)))
        if decl:
            # `face& f = face_lst_.emplace_back(...)`: the growth (above) precedes the binding
            bound[decl[0]] = decl[1]
            self.events.append(("bind", self.rid(decl[0]), decl[1], decl[0]))

    def tree(self, items, bound):
        for it in items:
            if it[0] == "stmt":
                self.stmt(it[1], bound)
            elif it[0] == "block":
                if diverges(it[1]):
                    # the path through this block ends the function: record it as an alternative trace and do not let
                    # its events flow into the code that follows the block
                    saved_events, saved_bound = list(self.events), dict(bound)
                    self.tree(it[1], bound)
                    self.alternatives.append(list(self.events))
                    self.events, bound_restored = saved_events, saved_bound
                    bound.clear(); bound.update(bound_restored)
                else:
                    self.tree(it[1], bound)
            elif it[0] == "loop":
                hdr, inner = it[1], it[2]
                m = RANGE_FOR.match(hdr)
                rng = None
                if m:
                    c = self.container(m.group(2) + "[") if re.fullmatch(r"\s*\w+\s*", m.group(2)) else self.container(m.group(2))
                    if c is None and re.fullmatch(r"\s*(node_lst_|face_lst_|edge_lst_|cell_lst)\s*", m.group(2)):
                        c = {"node_lst_": NODES, "face_lst_": FACES, "edge_lst_": EDGES if self.ctx == "bpa" else None,
                             "cell_lst": CELLS if self.ctx == "div" else None}[m.group(2).strip()]
                    if c is not None:
                        rng = (m.group(1), c)
                for rep in range(2):
                    if rng:
                        itv = "__it_" + rng[0]
                        if rep == 0:
                            bound[itv] = rng[1]
                            self.events.append(("bind", self.rid(itv), rng[1], itv))
                        else:
                            self.events.append(("use", self.rid(itv), itv))     # ++it / *it of the next iteration
                        bound[rng[0]] = rng[1]
                        self.events.append(("bind", self.rid(rng[0]), rng[1], rng[0]))
                    else:
                        self.stmt(hdr, bound)
                    self.tree(inner, bound)
                if rng:
                    self.events.append(("use", self.rid("__it_" + rng[0]), "__it_" + rng[0]))


ALL_FILES = [
    ("src/triangulation_modules/local_mesh_refiner.cpp", "local_mesh_refiner", "lmr"),
    ("src/mesh/cell.cpp", "cell", "cell"),
    ("src/triangulation_modules/ball_pivoting_algorithm.cpp", "ball_pivoting_algorithm", "bpa"),
    ("src/triangulation_modules/cell_divider.cpp", "cell_divider", "div"),
    ("src/triangulation_modules/poisson_sampling.cpp", "poisson_sampling", "div"),
    ("src/triangulation_modules/initial_triangulation.cpp", "initial_triangulation", "div"),
    ("src/contact_models/contact_model_abstract.cpp", "contact_model_abstract", "cell"),
    ("src/contact_models/contact_node_node_via_coupling.cpp", "contact_node_node_via_coupling", "cell"),
    ("src/time_integration/time_integration.cpp", "time_integration_scheme", "cell"),
    ("src/solver.cpp", "solver", "div"),
    ("src/contact_models/contact_node_face_via_spring.cpp", "contact_node_face_via_spring", "cell"),
    ("src/contact_models/contact_face_face_via_coupling.cpp", "contact_face_face_via_coupling", "cell"),
    ("src/io/mesh_reader.cpp", "mesh_reader", "cell"),
    ("src/io/mesh_writer.cpp", "mesh_writer", "cell"),
    ("src/io/parameter_reader.cpp", "parameter_reader", "cell"),
    ("src/io/simulation_initializer.cpp", "simulation_initializer", "div"),
    ("src/io/statistics_writer.cpp", "csv_file_statistics_writer", "cell"),
    ("src/io/statistics_writer.cpp", "string_statistics_writer", "cell"),
    ("src/automatic_polarization/automatic_polarizer.cpp", "automatic_polarizer", "cell"),
    ("src/automatic_polarization/automatic_polarization_writer.cpp", "automatic_polarization_writer", "cell"),
    ("src/mesh/edge.cpp", "edge", "cell"),
    ("src/mesh/face.cpp", "face", "cell"),
    ("src/mesh/node.cpp", "node", "cell"),
]


def all_definitions(src, cls):
    """[(qualified name, occurrence index)] of every member function definition `cls::name(...) {`"""
    out = []
    seen = {}
    for m in re.finditer(r"(?<![\w:])" + re.escape(cls) + r"::(~?\w+)\s*\(", src):
        q = cls + "::" + m.group(1)
        p0 = m.end() - 1
        try:
            p1 = X.match_brace(src, p0, "(", ")")
        except X.TranslateError:
            continue
        rest = src[p1 + 1:p1 + 300]
        if re.match(r"\s*(const)?\s*(noexcept(\s*\([^)]*\))?)?\s*(override)?\s*(:[^{;]*)?\{", rest):
            k = seen.get(q, 0)
            seen[q] = k + 1
            out.append((q, k))
    return out


def find_definition(src, qualname, occurrence=0):
    """like cxx2lean.find_function, but also accepts constructors with a member-initialiser list"""
    pat = re.compile(r"(?<![\w:])" + re.escape(qualname) + r"\s*\(")
    k = 0
    for m in pat.finditer(src):
        p0 = m.end() - 1
        try:
            p1 = X.match_brace(src, p0, "(", ")")
        except X.TranslateError:
            continue
        rest = src[p1 + 1:p1 + 300]
        mm = re.match(r"\s*(const)?\s*(noexcept(\s*\([^)]*\))?)?\s*(override)?\s*(:[^{;]*)?\{", rest)
        if not mm:
            continue
        if k < occurrence:
            k += 1
            continue
        b0 = p1 + 1 + mm.end() - 1
        b1 = X.match_brace(src, b0)
        # the initialiser list is evaluated before the body: keep it as a leading statement
        init = (mm.group(5) or "")[1:].strip()
        return src[p0 + 1:p1], ((init + " ; ") if init else "") + src[b0 + 1:b1]
    raise X.TranslateError("function %s not found" % qualname)


def analyse_all():
    srcs = {}
    bodies = {}
    skipped = []
    listed = {(rel, q) for rel, q, _ in FUNCS}
    work = [(rel, q, ctx, 0) for rel, q, ctx in FUNCS]
    for rel, cls, ctx in ALL_FILES:
        if rel not in srcs:
            srcs[rel] = T.src(rel)
        for q, k in all_definitions(srcs[rel], cls):
            if (rel, q) in listed and k == 0:
                continue
            work.append((rel, q, ctx, k))
    for rel, q, ctx, k in work:
        if rel not in srcs:
            srcs[rel] = T.src(rel)
        try:
            _, body = find_definition(srcs[rel], q, k)
            tree = split_statements(body)
        except X.TranslateError as e:
            if (rel, q) in listed:
                raise
            skipped.append("%s#%d: %s" % (q, k, e))
            continue
        bodies[q if k == 0 else "%s#%d" % (q, k)] = (ctx, tree)
    analyse_all.skipped = skipped
    # fixpoint of growth summaries
    grows = {short(q): set() for q in bodies}
    for _ in range(6):
        changed = False
        for q, (ctx, tree) in bodies.items():
            a = FnAnalysis(ctx, {k: v for k, v in grows.items() if k != short(q)}, local_vectors(flat_text(tree)))
            a.tree(tree, {})
            g = set(a.direct)
            for evs in [a.events] + a.alternatives:
                for ev in evs:
                    if ev[0] == "grow" and ev[1] < 4:
                        g.add(ev[1])
            if g != grows[short(q)]:
                grows[short(q)] = g; changed = True
        if not changed:
            break
    out = {}
    for q, (ctx, tree) in bodies.items():
        a = FnAnalysis(ctx, {k: v for k, v in grows.items() if k != short(q)}, local_vectors(flat_text(tree)))
        a.tree(tree, {})
        out[q] = a
    return out, grows


def lean_ev(ev):
    if ev[0] == "bind":
        return ".bind %d %d" % (ev[1], ev[2])
    if ev[0] == "grow":
        return ".grow %d" % ev[1]
    return ".use %d" % ev[1]


# ------------------------------------------------------------------------------------------
def class_table():
    """(member, base, derived list, base has a virtual destructor) for every std::unique_ptr<Base> member of solver
    that is assigned std::make_unique<Derived>"""
    hdr = T.src("include/solver.hpp")
    cpp = T.src("src/solver.cpp")
    rows = []
    for m in re.finditer(r"std::unique_ptr\s*<\s*(\w+)\s*>\s*(\w+)\s*;", hdr):
        base, member = m.group(1), m.group(2)
        derived = sorted(set(re.findall(re.escape(member) + r"\s*=\s*std::make_unique\s*<\s*(\w+)\s*>", cpp)))
        if not derived:
            continue
        # find the class definition of base
        has_virtual_dtor = False
        found = False
        for root, _, fs in os.walk(os.path.join(T.REPO, "include")):
            for f in fs:
                if not f.endswith(".hpp"):
                    continue
                s = X.read_source(os.path.join(root, f))
                mm = re.search(r"class\s+" + re.escape(base) + r"\b[^;{]*\{", s)
                if mm:
                    found = True
                    b0 = mm.end() - 1
                    b1 = X.match_brace(s, b0)
                    body = s[b0:b1]
                    if re.search(r"virtual\s+~\s*" + re.escape(base) + r"\s*\(", body):
                        has_virtual_dtor = True
        if not found:
            raise X.TranslateError("class %s not found" % base)
        rows.append((member, base, derived, has_virtual_dtor))
    return rows


def node_init_table():
    """scalar members of class node with whether they carry a default member initialiser"""
    s = T.src("include/mesh/node.hpp")
    mm = re.search(r"class\s+node\b[^;{]*\{", s)
    b0 = mm.end() - 1
    body = s[b0:X.match_brace(s, b0)]
    rows = []
    for m in re.finditer(r"^\s*(double|bool|unsigned|int|short|size_t|float)\s+(\w+_)\s*(=\s*[^;]+)?;", body, re.M):
        rows.append((m.group(2), m.group(1), m.group(3) is not None))
    return rows


def format_table():
    """buffer size of format_number and every format string it is called with"""
    u = T.src("include/utils.hpp")
    _, body = X.find_function(u, "format_number")
    m = re.search(r"char\s+\w+\s*\[\s*(\d+)\s*\]", body)
    if not m:
        raise X.TranslateError("format_number buffer")
    size = int(m.group(1))
    uses_snprintf = "snprintf" in body
    fmts = []
    for root in ("src", "include"):
        for d, _, fs in os.walk(os.path.join(T.REPO, root)):
            for f in fs:
                if f.endswith((".cpp", ".hpp")):
                    s = X.read_source(os.path.join(d, f))
                    for mm in re.finditer(r"format_number\s*\(.*?,\s*\"([^\"]*)\"\s*\)", s):
                        fmts.append((os.path.relpath(os.path.join(d, f), T.REPO), mm.group(1)))
    return size, uses_snprintf, sorted(set(fmts))


def fmt_bound(fmt):
    """an upper bound of the number of characters printf writes for a finite double / an int with this format
    (excluding the terminating NUL); None when the format is not one of the recognised shapes"""
    m = re.fullmatch(r"%\.(\d+)e", fmt)
    if m:
        # sign, digit, point, N digits, 'e', sign, up to 3 exponent digits
        return 1 + 1 + 1 + int(m.group(1)) + 1 + 1 + 3
    if fmt == "%d":
        return 11
    m = re.fullmatch(r"%\.(\d+)f", fmt)
    if m:
        # only used for a fraction documented to lie in [0,1] (contact area / total area): sign, one digit, point, N digits.
        # The range is an assumption of the table (checked at run time by the C10 scenarios), not a theorem.
        return 1 + 1 + 1 + int(m.group(1))
    return None


@T.generator("SafetyTables")
def gen_safety():
    analyses, grows = analyse_all()
    lean = ""
    names = []
    summary = {}
    for q, a in analyses.items():
        nm = "trace_" + q.replace("::", "_").replace("#", "_ov").replace("~", "dtor_")
        names.append(nm)
        refs = ", ".join("%d=%s" % (i, v) for v, i in a.refs.items())
        lean += "/-- `%s`; references: %s; containers: 0=node_lst_ 1=face_lst_ 2=edge_lst_ 3=cell_lst -/\n" % (q, refs or "none")
        lean += "def %s : List RefTrace.Ev := [%s]\n" % (nm, ", ".join(lean_ev(e) for e in a.events))
        for j, alt in enumerate(a.alternatives):
            an = "%s_exit%d" % (nm, j)
            names.append(an)
            lean += "/-- an early-exit path of `%s` -/\ndef %s : List RefTrace.Ev := [%s]\n" % (q, an, ", ".join(lean_ev(e) for e in alt))
        summary[q] = {"events": len(a.events), "refs": len(a.refs), "early_exit_paths": len(a.alternatives)}
    lean += "def allTraces : List (String × List RefTrace.Ev) := [%s]\n" % ", ".join('("%s", %s)' % (n, n) for n in names)
    rows = class_table()
    lean += "/-- (member of solver, base class, base has a virtual destructor, owns an object of a derived class) -/\n"
    lean += "def ownedThroughBase : List (String × String × Bool × Bool) := [%s]\n" % ", ".join(
        '("%s", "%s", %s, %s)' % (m, b, "true" if v else "false", "true" if any(d != b for d in ds) else "false") for (m, b, ds, v) in rows)
    nrows = node_init_table()
    lean += "/-- scalar members of class node: (name, has a default member initialiser) -/\n"
    lean += "def nodeScalarMembers : List (String × Bool) := [%s]\n" % ", ".join('("%s", %s)' % (n, "true" if i else "false") for (n, t, i) in nrows)
    size, snp, fmts = format_table()
    lean += "/-- size of the stack buffer of format_number -/\ndef fmtBufferSize : Nat := %d\n" % size
    lean += "/-- (file, format string, upper bound of the characters written for a finite value; 0 = format not recognised) -/\n"
    lean += "def fmtCallSites : List (String × String × Nat) := [%s]\n" % ", ".join(
        '("%s", "%s", %d)' % (f, fm, fmt_bound(fm) or 0) for (f, fm) in fmts)
    hdr = T.HEADER.replace("import SimuVerif.Model.Vec", "import SimuVerif.Model.RefTrace").replace("%s\n\"\"\"", "")
    text = ("-- GENERATED by tools/gen/c10_traces.py from /repo — do not edit.\nimport SimuVerif.Model.RefTrace\n"
            "namespace Simu.Gen\nopen Simu\n" + lean + "end Simu.Gen\n")
    changed = T.write_if_changed(os.path.join(T.GEN, "SafetyTables.lean"), text)
    return {"file": "Gen/SafetyTables.lean", "rewritten": changed, "functions": summary, "functions_skipped": getattr(analyse_all, "skipped", []),
            "growth_summaries": {k: sorted(CNAME[c] for c in v) for k, v in grows.items()},
            "owned_through_base": [(m, b, ds, v) for (m, b, ds, v) in rows], "node_members": nrows,
            "format_buffer": size, "formats": fmts, "sha256": hashlib.sha256(text.encode()).hexdigest()[:16]}
