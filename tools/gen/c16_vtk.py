"""C16/C17 generator: src/io/mesh_writer.cpp, src/io/mesh_reader.cpp, include/io/mesh_data.hpp, include/utils.hpp,
src/io/simulation_initializer.cpp  ->  lean/SimuVerif/Gen/VtkConsts.lean

The VTK writer and reader are container/regex code, not arithmetic: they are hand-modelled in
Model/Vtk.lean (token level) and Model/VtkText.lean (character level).  What IS text of the source and
is used by the models and by the theorems is extracted here on every run:

  writer   header literal, section keywords, coordinate format string, values-per-line moduli, the literal face
           arity and the `1 + faces * 4` coefficients of the declared integer count, the polyhedron type line,
           the (name, type) list of the CELL_DATA arrays (mesh_data.hpp), the sprintf buffer size (utils.hpp)
  reader   every regular expression (as text), the accepted coordinate types, the polyhedron type, the
           line-length skip rule, the substr start, the token-length guard, the presence of the three repaired
           checks (face index range, empty cell line, bounded reservations) and the messages of all throw sites
  start-up the messages of the throw sites of simulation_initializer::run / triangulate_surface

The models read these constants (so a changed number changes the model), and Properties/C16.lean, C17.lean
pin the texts the hand-written scanners were written for (so a changed keyword, format or regular
expression re-opens the obligations).  A construct that is not found makes the translation fail, which is
reported like a broken proof.
"""
import re
import translate as T
import cxx2lean as X
from cxx2lean import TranslateError

WRITER = "src/io/mesh_writer.cpp"
READER = "src/io/mesh_reader.cpp"
DATA = "include/io/mesh_data.hpp"
UTILS = "include/utils.hpp"
INIT = "src/io/simulation_initializer.cpp"


def c_unescape(s):
    out = []
    i = 0
    while i < len(s):
        c = s[i]
        if c == "\\" and i + 1 < len(s):
            n = s[i + 1]
            m = {"n": "\n", "t": "\t", "\\": "\\", '"': '"', "r": "\r", "0": "\0"}
            if n not in m:
                raise TranslateError("unknown escape \\%s" % n)
            out.append(m[n])
            i += 2
        else:
            out.append(c)
            i += 1
    return "".join(out)


def chars(s):
    """Lean `List Char` literal"""
    def one(c):
        o = ord(c)
        if c == "'":
            return "'\\''"
        if c == "\\":
            return "'\\\\'"
        if c == "\n":
            return "'\\n'"
        if c == "\t":
            return "'\\t'"
        if 32 <= o < 127:
            return "'%s'" % c
        return "(Char.ofNat %d)" % o
    return "[" + ", ".join(one(c) for c in s) + "]"


def need(pat, text, what, flags=0, group=1):
    m = re.search(pat, text, flags)
    if not m:
        raise TranslateError("not found: " + what)
    return m.group(group)


def pick_overload(src, qualname, must_have):
    for k in range(12):
        try:
            params, body = X.find_function(src, qualname, occurrence=k)
        except TranslateError:
            break
        if all(w in params for w in must_have):
            return params, body
    raise TranslateError("overload of %s with %s not found" % (qualname, must_have))


def throw_messages(body, exc):
    """first string literal of every `throw exc(` in source order"""
    out = []
    for m in re.finditer(r"throw\s+" + exc + r"\s*\(\s*(?:std::string\s*\(\s*)?\"((?:[^\"\\]|\\.)*)\"", body):
        out.append(c_unescape(m.group(1)))
    return out


@T.generator("VtkConsts")
def gen_vtk_consts():
    w = T.src(WRITER)
    r = T.src(READER)
    d = T.src(DATA)
    u = T.src(UTILS)
    ini = T.src(INIT)
    L = []
    S = {}

    def put(name, ty, val, doc=None):
        if doc:
            L.append("/-- %s -/" % doc)
        L.append("def %s : %s := %s" % (name, ty, val))
        S[name] = val if len(val) < 80 else val[:77] + "..."

    # ------------------------------------------------------------------ writer (population of cells)
    _, wf = pick_overload(w, "mesh_writer::write_cell_data_file", ["std::ofstream", "cell_ptr"])
    header = c_unescape(need(r'const\s+std::string\s+header\s*=\s*"((?:[^"\\]|\\.)*)"\s*;', wf, "writer header literal"))
    put("wHeader", "List Char", chars(header), "`header` of write_cell_data_file(ofstream&, vector<cell_ptr>&, bool)")
    m = re.search(r'cell_data_file\s*<<\s*"((?:[^"\\]|\\.)*)"\s*\+\s*std::to_string\(total_nb_nodes\)\s*\+\s*"((?:[^"\\]|\\.)*)"\s*;', wf)
    if not m:
        raise TranslateError("POINTS line of the writer not found")
    put("wPointsKw", "List Char", chars(c_unescape(m.group(1))))
    put("wPointsType", "List Char", chars(c_unescape(m.group(2))))
    if not re.search(r"if\s*\(\s*rebase_bool\s*\)\s*std::for_each\([^;]*c->rebase\(\)", wf):
        raise TranslateError("write_cell_data_file no longer rebases the cells on request")
    if not re.search(r"partial_sum_vector\(cell_lst,\s*get_cell_nb_nodes\)", wf) or "get_node_lst().size()" not in wf:
        raise TranslateError("node id offsets are no longer the partial sums of the node list sizes")
    # mesh_writer::write : rebase every cell, then write without rebasing, then the data arrays
    _, ww = X.find_function(w, "mesh_writer::write")
    if not (re.search(r"c->rebase\(\)", ww) and re.search(r"write_cell_data_file\(cell_data_file,\s*cell_lst,\s*false\)", ww)
            and re.search(r"add_cell_data_arrays_to_mesh\(cell_data_file,\s*cell_lst\)", ww)):
        raise TranslateError("mesh_writer::write no longer is rebase + write_cell_data_file + add_cell_data_arrays_to_mesh")

    _, wp = X.find_function(w, "mesh_writer::write_point_data")
    put("wCoordFormat", "List Char", chars(c_unescape(need(r'format_number\(coord,\s*"((?:[^"\\]|\\.)*)"\)', wp, "coordinate format"))),
        "format string of the node coordinates (write_point_data)")
    put("wCoordsPerLine", "Nat", need(r"\(i\s*%\s*(\d+)\s*==\s*0\)\s*\?\s*\"\\n\"\s*:\s*\" \"", wp, "coordinates per line"))
    if not re.search(r"if\s*\(\s*!std::isfinite\(coord\)\s*\)\s*\{\s*throw\s+mesh_writer_exception", wp):
        raise TranslateError("write_point_data no longer refuses non-finite coordinates")

    _, wc = pick_overload(w, "mesh_writer::write_cell_data", ["cell_ptr"])
    m = re.search(r"size_t\s+nb_int_cell\s*=\s*(\d+)\s*\+\s*c->get_face_lst\(\)\.size\(\)\s*\*\s*(\d+)\s*;", wc)
    if not m:
        raise TranslateError("per-cell integer count `1 + faces * 4` not found")
    put("wIntsPerCellBase", "Nat", m.group(1), "`nb_int_cell = BASE + faces * PERFACE` (write_cell_data, cells)")
    put("wIntsPerFace", "Nat", m.group(2))
    if not re.search(r"std::accumulate\(cell_int_size\.begin\(\),\s*cell_int_size\.end\(\),\s*cell_lst\.size\(\),\s*std::plus<size_t>\(\)\)", wc):
        raise TranslateError("declared integer count is no longer sum(cell_int_size) + number of cells")
    m = re.search(r'data_file\s*<<\s*"((?:[^"\\]|\\.)*)"\s*\+\s*std::to_string\(nb_cells\)\s*\+\s*"((?:[^"\\]|\\.)*)"\s*\+\s*std::to_string\(nb_integer_tissue\)\s*\+\s*"((?:[^"\\]|\\.)*)"\s*;', wc)
    if not m:
        raise TranslateError("CELLS line of the writer not found")
    put("wCellsKw", "List Char", chars(c_unescape(m.group(1))))
    if c_unescape(m.group(2)) != " " or c_unescape(m.group(3)) != "\n":
        raise TranslateError("separators of the CELLS line changed")
    if not re.search(r'data_file\s*<<\s*std::to_string\(cell_int_size\[i\]\)\s*\+\s*" "\s*\+\s*std::to_string\(cell_nb_faces\)\s*\+\s*" "\s*;', wc):
        raise TranslateError("cell line no longer starts with `cell_int_size[i] nb_faces`")
    put("wFaceArity", "Nat", need(r'data_file\s*<<\s*std::to_string\((\d+)\)\s*\+\s*" "\s*;', wc, "literal face arity"),
        "the literal written in front of the three node ids of every face")
    if not re.search(r'std::to_string\(node_id\s*\+\s*node_id_offset\)\s*\+\s*" "', wc):
        raise TranslateError("node ids are no longer written as local id + offset")
    m = re.search(r'data_file\s*<<\s*"((?:[^"\\]|\\.)*)"\s*\+\s*std::to_string\(nb_cells\)\s*\+\s*"\\n"\s*;\s*for\s*\(int\s+i\s*=\s*0;\s*i\s*<\s*nb_cells;\s*i\+\+\)\s*\{\s*data_file\s*<<\s*"((?:[^"\\]|\\.)*)"\s*;\s*\}', wc)
    if not m:
        raise TranslateError("CELL_TYPES block of the writer not found")
    put("wCellTypesKw", "List Char", chars(c_unescape(m.group(1))))
    put("wPolyLine", "List Char", chars(c_unescape(m.group(2))), "the line written once per cell in CELL_TYPES")

    _, wa = pick_overload(w, "mesh_writer::add_cell_data_arrays_to_mesh", ["cell_ptr"])
    put("wCellDataKw", "List Char", chars(c_unescape(need(r'data_file\s*<<\s*"((?:[^"\\]|\\.)*)"\s*\+\s*std::to_string\(nb_cells\)\s*\+\s*"\\n"\s*;', wa, "CELL_DATA line"))))
    put("wFieldKw", "List Char", chars(c_unescape(need(r'data_file\s*<<\s*"((?:[^"\\]|\\.)*)"\s*\+\s*std::to_string\(cell_data_mapper_lst\.size\(\)\)\s*;', wa, "FIELD line"))))
    m = re.search(r'data_file\s*<<\s*"\\n"\s*\+\s*data_mapper\.value_name_\s*\+\s*"((?:[^"\\]|\\.)*)"\s*\+\s*std::to_string\(nb_cells\)\s*\+\s*" "\s*\+\s*data_mapper\.value_type_\s*\+\s*"\\n"\s*;', wa)
    if not m:
        raise TranslateError("array header line of the writer not found")
    put("wArrayComps", "List Char", chars(c_unescape(m.group(1))), "text between the array name and the tuple count")
    put("wValuesPerLine", "Nat", need(r"\(\(i\+1\)\s*%\s*(\d+)\s*==\s*0\)\s*\?\s*\"\\n\"\s*:\s*\" \"", wa, "values per line"))

    # CELL_DATA arrays (name, vtk type, how the value is produced) from cell_data_mapper_lst
    blk = need(r"inline\s+std::vector<cell_data_mapper>\s+cell_data_mapper_lst\s*\{(.*?)\n\};", d, "cell_data_mapper_lst", re.S)
    if "#if" in blk:
        raise TranslateError("cell_data_mapper_lst became configuration dependent")
    arrays = re.findall(r'cell_data_mapper\(\s*"(\w+)"\s*,\s*"(\w+)"', blk)
    if not arrays:
        raise TranslateError("no cell data arrays")
    put("cellArrays", "List (List Char × List Char)", "[" + ", ".join("(%s, %s)" % (chars(a), chars(b)) for a, b in arrays) + "]",
        "(name, type) of the arrays written after CELL_DATA, in order (mesh_data.hpp cell_data_mapper_lst)")
    # the two arrays whose values the model knows
    m = re.search(r'cell_data_mapper\("cell_id",\s*"int",\s*\[\]\(cell_ptr c\)\s*->\s*std::string\s*\{\s*return\s+format_number\(c->get_id\(\),\s*"((?:[^"\\]|\\.)*)"\);', blk)
    if not m:
        raise TranslateError("cell_id mapper changed")
    put("wCellIdFormat", "List Char", chars(m.group(1)))
    m = re.search(r'cell_data_mapper\("cell_type_id",\s*"int",.*?int\s+cell_type_id\s*=\s*\(c->get_cell_type\(\)\s*!=\s*nullptr\)\s*\?\s*c->get_cell_type\(\)->global_type_id_\s*:\s*(-?\d+)\s*;\s*return\s+format_number\(cell_type_id,\s*"((?:[^"\\]|\\.)*)"\);', blk, re.S)
    if not m:
        raise TranslateError("cell_type_id mapper changed")
    put("wNoTypeId", "Int", "(%s)" % m.group(1), "what is written for a cell without a type")
    put("wTypeIdFormat", "List Char", chars(m.group(2)))
    put("fmtBuffer", "Nat", need(r"char\s+buffer_char\[(\d+)\]\s*;\s*sprintf\(buffer_char,\s*fmt\.c_str\(\),\s*number\)", u, "format_number buffer"),
        "size of the sprintf buffer of format_number (utils.hpp)")

    # ------------------------------------------------------------------ reader
    _, rc = X.find_function(r, "mesh_reader::mesh_reader")
    _, rn = X.find_function(r, "mesh_reader::get_node_pos")
    _, rf = X.find_function(r, "mesh_reader::read_cell_faces")
    _, rm = X.find_function(r, "mesh_reader::get_cell_mesh")
    _, rt = X.find_function(r, "mesh_reader::get_cell_types")
    _, rr = X.find_function(r, "mesh_reader::read")
    if not re.search(r"get_node_pos\(\)\s*;.*read_cell_faces\(\)\s*;.*get_cell_mesh\(node_pos,\s*face_connectivity\)", rr, re.S):
        raise TranslateError("mesh_reader::read no longer is get_node_pos; read_cell_faces; get_cell_mesh")

    def regexes(body):
        return [(m.group(1), m.group(2)) for m in re.finditer(r'std::regex\s+(rgx_\w+)\s*\(\s*R"\((.*?)\)"\s*\)', body)]

    def put_rx(prefix, body, expect_names):
        rx = regexes(body)
        if [n for n, _ in rx] != expect_names:
            raise TranslateError("%s: regular expressions are %r" % (prefix, [n for n, _ in rx]))
        for n, t in rx:
            put("%s_%s" % (prefix, n), "List Char", chars(t))

    put_rx("rxCtor", rc, ["rgx_1"])
    put_rx("rxNodePos", rn, ["rgx_1", "rgx_2", "rgx_3"])
    put_rx("rxFaces", rf, ["rgx_0", "rgx_1", "rgx_2", "rgx_3", "rgx_4", "rgx_5", "rgx_6"])
    put_rx("rxTypes", rt, ["rgx_1", "rgx_2", "rgx_3"])
    ct = re.findall(r'coord_type\s*!=\s*"(\w+)"', rn)
    if not ct:
        raise TranslateError("accepted coordinate types not found")
    put("rCoordTypes", "List (List Char)", "[" + ", ".join(chars(c) for c in ct) + "]")
    put("rPolyType", "Nat", need(r"if\s*\(\s*cell_type\s*!=\s*(\d+)\s*\)", rf, "polyhedron type"))
    put("rLineSkip", "Nat", need(r"if\s*\(\s*line\.size\(\)\s*<=\s*(\d+)\s*\)\s*continue\s*;", rf, "line skip rule"),
        "`if (line.size() <= N) continue;`")
    put("rCellTextStart", "Nat", need(r"sub_string\.substr\(\s*(\d+)\s*,\s*cell_pos_end\s*\)", rf, "substr of the CELLS text"))
    if not re.search(r"if\s*\(\s*\(int\)\s*node_pos\.size\(\)\s*/\s*3\s*!=\s*nb_nodes\s*\)", rn):
        raise TranslateError("node count check changed")
    if not re.search(r"if\s*\(\s*nb_cell_data\s*!=\s*cell_face_lst\.size\(\)\s*\)", rf):
        raise TranslateError("per-line count check changed")
    if not re.search(r"if\s*\(\s*i\s*!=\s*nb_cells\s*\)", rf):
        raise TranslateError("CELL_TYPES count check changed")
    if not re.search(r"std::distance\(cell_face_lst_1D\.begin\(\),\s*it\s*\+\s*1\s*\+\s*nb_nodes_in_face\)\s*>\s*cell_face_lst_1D\.size\(\)", rm):
        raise TranslateError("face data bound check changed")
    if not re.search(r"if\s*\(\s*m\.face_point_ids\.size\(\)\s*!=\s*nb_faces\s*\)", rm):
        raise TranslateError("face count check changed")
    if not (re.search(r"std::set<unsigned>\s+cell_node_set", rm) and re.search(r"std::map<unsigned,\s*unsigned>\s+global_to_local_node_id_map", rm)
            and re.search(r"f\[i\]\s*=\s*global_to_local_node_id_map\[f\[i\]\]", rm)):
        raise TranslateError("global->local renumbering through the ordered set changed")
    # the repaired checks (fixes/C17-*.diff): the model describes the repaired reader
    mt = re.search(r"constexpr\s+size_t\s+max_token_length\s*=\s*(\d+)\s*;", rc)
    guard = bool(mt) and bool(re.search(r"token_length\s*=\s*std::isspace\(static_cast<unsigned char>\(c\)\)\s*\?\s*0\s*:\s*token_length\s*\+\s*1\s*;\s*if\s*\(\s*token_length\s*>\s*max_token_length\s*\)\s*\{\s*throw\s+mesh_reader_exception", rc))
    put("rMaxToken", "Nat", mt.group(1) if guard else "0", "longest run of non-space characters the repaired constructor accepts (0: guard absent)")
    put("fixTokenGuard", "Bool", "true" if guard else "false")
    put("fixFaceIndexRange", "Bool", "true" if re.search(
        r"for\s*\(\s*unsigned\s+global_node_id\s*:\s*cell_node_set\s*\)\s*\{\s*if\s*\(\s*static_cast<size_t>\(global_node_id\)\s*>=\s*node_pos\.size\(\)\s*/\s*3\s*\)\s*\{\s*throw\s+mesh_reader_exception", rm) else "false",
        "every global node id is checked against the number of points before it is used as an index")
    put("fixEmptyCellLine", "Bool", "true" if re.search(
        r"mesh\s+m\s*;\s*if\s*\(\s*cell_face_lst_1D\.empty\(\)\s*\)\s*\{\s*throw\s+mesh_reader_exception.*?const\s+int\s+nb_faces\s*=\s*cell_face_lst_1D\[0\]", rm, re.S) else "false",
        "an empty connectivity list is rejected before its first element is read")
    bounded = (re.search(r"node_pos\.reserve\(std::min\(static_cast<size_t>\(nb_nodes\)\s*\*\s*3,\s*point_coord_text\.size\(\)\)\)", rn)
               and re.search(r"cell_face_lst\.reserve\(std::min\(static_cast<size_t>\(nb_cell_data\),\s*line\.size\(\)\)\)", rf)
               and re.search(r"m\.face_point_ids\.reserve\(std::min\(static_cast<size_t>\(nb_faces\),\s*cell_face_lst_1D\.size\(\)\)\)", rm))
    put("fixBoundedReserve", "Bool", "true" if bounded else "false",
        "declared counts bound the reservations only up to the size of the text (no int overflow, no huge allocation)")

    sites = []
    for tag, body in (("ctor", rc), ("get_node_pos", rn), ("read_cell_faces", rf), ("get_cell_mesh", rm), ("get_cell_types", rt)):
        for msg in throw_messages(body, "mesh_reader_exception"):
            sites.append((tag, msg))
    put("readerThrows", "List (List Char × List Char)", "[\n  " + ",\n  ".join("(%s, %s)" % (chars(a), chars(b[:48])) for a, b in sites) + "]",
        "(function, first 48 characters of the message) of every `throw mesh_reader_exception` in source order")
    # conversions whose std::out_of_range / std::invalid_argument is NOT caught by the reader
    put("nStoi", "Nat", str(len(re.findall(r"std::stoi\(", rc + rn + rf + rm + rt))), "number of std::stoi calls in the reader")
    put("nStod", "Nat", str(len(re.findall(r"std::stod\(", rc + rn + rf + rm + rt))))
    put("nCatchInvalid", "Nat", str(len(re.findall(r"catch\s*\(\s*const\s+std::invalid_argument\s*&", rc + rn + rf + rm + rt))))
    put("nCatchOther", "Nat", str(len(re.findall(r"catch\s*\(", rc + rn + rf + rm + rt)) - len(re.findall(r"catch\s*\(\s*const\s+std::invalid_argument\s*&", rc + rn + rf + rm + rt))))

    # ------------------------------------------------------------------ start-up cross checks
    _, ir = X.find_function(ini, "simulation_initializer::run")
    _, it = X.find_function(ini, "simulation_initializer::triangulate_surface")
    isites = [("run", m) for m in throw_messages(ir, "intialization_exception")] + [("triangulate_surface", m) for m in throw_messages(it, "intialization_exception")]
    put("initThrows", "List (List Char × List Char)", "[\n  " + ",\n  ".join("(%s, %s)" % (chars(a), chars(b[:48])) for a, b in isites) + "]")
    if not re.search(r"if\s*\(\s*nb_cells\s*!=\s*cell_type_id_lst\.size\(\)\s*\)", ir):
        raise TranslateError("cells vs types check changed")
    if not re.search(r"if\s*\(\s*cell_type_id\s*>=\s*cell_type_param_lst\.size\(\)\s*\)", ir):
        raise TranslateError("type id range check changed")
    put("initTriangleArity", "Nat", need(r"return\s+f\.size\(\)\s*==\s*(\d+)\s*;", it, "triangulated-input check"))
    put("initMaxTries", "Nat", need(r"constexpr\s+short\s+max_nb_tries\s*=\s*(\d+)\s*;", it, "max tries"))

    body = "namespace Vtk\n" + "\n".join(L) + "\nend Vtk\n"
    return T.emit("VtkConsts", "%s, %s, %s, %s, %s" % (WRITER, READER, DATA, UTILS, INIT), body, {"constants": S, "count": len(S)})
