"""Typed single-assignment emitter used by the C06 / C07 generators (c06_contact.py, c07_contact.py).

It turns the straight-line C++ of the contact models (declarations, assignments, compound assignments,
`if` blocks that only assign, calls that add a force to a node) into a chain of Lean `let`s over the structures of
lean/SimuVerif/Model/ContactBase.lean.  Every assignment creates a new version `x_k` of the C++ variable `x`;
an `if` whose branches only assign becomes one `let x_k := if c then … else …` per variable it changes (the branch
bodies are evaluated symbolically, so the right-hand sides refer to the versions that were current before the `if`).

Types: R double, V vec3, N unsigned/size_t/ids, K integer literal, P condition, B bool variable, T result pair of the
kernel, O:<kind> an object (node, cell, face, ftype) whose members map to structure fields.
Anything outside this subset raises TranslateError (reported like a broken proof).
"""
import re
import cxx2lean as X
from cxx2lean import TranslateError

NODE_FIELDS = {"normal_": ("normal", "V"), "curvature_": ("curvature", "R"),
               "squared_distance_to_closest_node_": ("sqd", "R"), "pos_": ("pos", "V")}
FACE_FIELDS = {"normal_": ("normal", "V"), "area_": ("area", "R")}
FTYPE_FIELDS = {"repulsion_strength_": ("rep", "R"), "adherence_strength_": ("adh", "R")}


def preprocess(text, macros):
    """resolve #if / #elif / #else / #endif on the macros given (name -> int); other # lines are dropped"""
    out = []
    stack = []          # [taking, taken_before, parent_taking]

    def ev(cond):
        c = cond.strip()
        c = re.sub(r"\bdefined\s*\(?\s*(\w+)\s*\)?", lambda m: "1" if m.group(1) in macros else "0", c)
        for k, v in macros.items():
            c = re.sub(r"\b%s\b" % re.escape(k), str(int(v)), c)
        c = c.replace("true", "1").replace("false", "0").replace("&&", " and ").replace("||", " or ").replace("!", " not ").replace(" not =", "!=")
        if not re.fullmatch(r"[\d\s()=<>andortn!]+", c):
            raise TranslateError("preprocessor condition not understood: %s" % cond)
        return bool(eval(c))
    for line in text.split("\n"):
        s = line.strip()
        if s.startswith("#"):
            d = s[1:].strip()
            if d.startswith("if ") or d.startswith("if("):
                par = all(t[0] for t in stack)
                v = ev(d[2:]) if par else False
                stack.append([v, v])
            elif d.startswith("ifdef"):
                v = d.split()[1] in macros
                stack.append([v, v])
            elif d.startswith("ifndef"):
                v = d.split()[1] not in macros
                stack.append([v, v])
            elif d.startswith("elif"):
                if not stack:
                    raise TranslateError("#elif without #if")
                par = all(t[0] for t in stack[:-1])
                v = (not stack[-1][1]) and par and ev(d[4:])
                stack[-1][0] = v
                stack[-1][1] = stack[-1][1] or v
            elif d.startswith("else"):
                stack[-1][0] = not stack[-1][1]
                stack[-1][1] = True
            elif d.startswith("endif"):
                stack.pop()
            out.append("")
            continue
        out.append(line if all(t[0] for t in stack) else "")
    if stack:
        raise TranslateError("unbalanced #if")
    return "\n".join(out)


def read_macros(repo_src):
    """values of the configuration macros as the shipped global_configuration.hpp defines them"""
    s = repo_src("include/global_configuration.hpp")
    m = {}
    for name in ("FACE_STORE_CONTACT_ENERGY", "POLARIZATION_MODE_INDEX", "CONTACT_MODEL_INDEX", "DYNAMIC_MODEL_INDEX", "WRITE_NORMALS_IN_OUTPUT_MESH_FILE"):
        mm = re.search(r"^\s*#define\s+%s\s+(\w+)" % name, s, flags=re.M)
        if not mm:
            raise TranslateError("macro %s not found" % name)
        v = mm.group(1)
        m[name] = {"true": 1, "false": 0}.get(v, None)
        if m[name] is None:
            m[name] = int(v)
    return m


class TEmit:
    def __init__(self, env, members=None, forces=None, skip_calls=(), parent=None):
        self.env = dict(env)            # C++ name -> (lean text, type)
        self.members = dict(members or {})   # class member name -> (lean text, type)
        self.ver = parent.ver if parent else {}
        self.lines = parent.lines if parent else []
        self.forces = forces or {}      # object lean text (e.g. 'f_n1') -> accumulator C++ pseudo-variable
        self.skip_calls = set(skip_calls)
        self.skipped = parent.skipped if parent else []
        self.top = parent is None
        # names declared inside the branch being translated (and inside the branches around it): their
        # definitions are hoisted in front of the `if` as plain `let`s (all right-hand sides are pure)
        self.scope = set(parent.scope) if parent else set()

    # ---------------------------------------------------------------- coercions
    def co(self, t, ty, want):
        if ty == want:
            return t
        if ty == "K" and want == "R":
            return "(lit %s : R)" % t
        if ty == "K" and want == "N":
            return "(%s : Nat)" % t
        if ty == "N" and want == "R":
            return "(lit %s : R)" % t
        if ty == "B" and want == "P":
            return "(%s = true)" % t
        if ty == "P" and want == "B":
            return "(decide %s)" % t
        raise TranslateError("cannot use a %s where a %s is needed: %s" % (ty, want, t[:80]))

    def fresh(self, name):
        k = self.ver.get(name, 0) + 1
        self.ver[name] = k
        return "%s_%d" % (X.leanid(name).rstrip("'"), k)

    # ---------------------------------------------------------------- expressions
    def ex(self, e):
        k = e[0]
        if k == "num":
            fr = e[1]
            if fr.denominator == 1:
                return str(fr.numerator), "K"
            return "((lit %d : R) / lit %d)" % (fr.numerator, fr.denominator), "R"
        if k == "bool":
            return ("true" if e[1] else "false"), "B"
        if k == "id":
            n = e[1]
            if n in self.env:
                t = self.env[n]
                if t[0] is None:
                    raise TranslateError("%s is read before it is assigned" % n)
                return t
            if n in self.members:
                return self.members[n]
            raise TranslateError("unknown identifier %s" % n)
        if k == "un":
            a, ta = self.ex(e[2])
            if e[1] == "-":
                if ta == "K":
                    a, ta = self.co(a, ta, "R"), "R"
                if ta in ("R", "V"):
                    return "(-%s)" % a, ta
            if e[1] == "!":
                if ta == "B":
                    return "(!%s)" % a, "B"
                if ta == "P":
                    return "(¬ %s)" % a, "P"
            raise TranslateError("unary %s on %s" % (e[1], ta))
        if k == "bin":
            return self.binop(e[1], self.ex(e[2]), self.ex(e[3]))
        if k == "tern":
            c = self.co(*(self.ex(e[1]) + ("P",)))
            a, ta = self.ex(e[2])
            b, tb = self.ex(e[3])
            a, b, w = self.unify(a, ta, b, tb)
            return "(if %s then %s else %s)" % (c, a, b), w
        if k == "call":
            return self.call(e[1], e[2])
        if k == "mcall":
            return self.mcall(e[1], e[2], e[3])
        if k == "member":
            return self.member(e[1], e[2])
        if k == "index":
            return self.index(e[1], e[2])
        raise TranslateError("expression kind %s" % k)

    def unify(self, a, ta, b, tb):
        if ta == tb and ta in ("R", "V", "N", "B", "P"):
            return a, b, ta
        if "R" in (ta, tb) and {ta, tb} <= {"R", "K", "N"}:
            return self.co(a, ta, "R"), self.co(b, tb, "R"), "R"
        if "N" in (ta, tb) and {ta, tb} <= {"N", "K"}:
            return self.co(a, ta, "N"), self.co(b, tb, "N"), "N"
        if ta == "K" and tb == "K":
            return self.co(a, ta, "R"), self.co(b, tb, "R"), "R"
        if {ta, tb} == {"B", "P"}:
            return self.co(a, ta, "P"), self.co(b, tb, "P"), "P"
        raise TranslateError("operands of types %s and %s" % (ta, tb))

    def binop(self, op, A, Bv):
        a, ta = A
        b, tb = Bv
        if op in ("&&", "||"):
            return "(%s %s %s)" % (self.co(a, ta, "P"), "∧" if op == "&&" else "∨", self.co(b, tb, "P")), "P"
        if op in ("+", "-") and ta == "V" and tb == "V":
            return "(%s %s %s)" % (a, op, b), "V"
        if op in ("*", "/") and ta == "V" and tb in ("R", "K", "N"):
            return "(%s %s %s)" % (a, op, self.co(b, tb, "R")), "V"
        if ta == "V" or tb == "V":
            raise TranslateError("vector operator %s between %s and %s" % (op, ta, tb))
        a, b, w = self.unify(a, ta, b, tb)
        if w not in ("R", "N"):
            raise TranslateError("operator %s on %s" % (op, w))
        if op in ("+", "-", "*", "/"):
            if op == "/" and w == "N":
                raise TranslateError("integer division")
            return "(%s %s %s)" % (a, op, b), w
        rel = {"<": "(%s < %s)", "<=": "(%s ≤ %s)", "==": "(%s = %s)", "!=": "(%s ≠ %s)"}
        if op in rel:
            return rel[op] % (a, b), "P"
        if op == ">":
            return "(%s < %s)" % (b, a), "P"
        if op == ">=":
            return "(%s ≤ %s)" % (b, a), "P"
        raise TranslateError("operator %s" % op)

    def call(self, f, args):
        if f in ("std::floor", "std::ceil"):
            a, ta = self.ex(args[0])
            if ta != "R":
                raise TranslateError("%s of a non-double" % f)
            # the caller has checked textually that the value is converted to unsigned
            return "(Int.toNat (%s %s))" % ("fn.floor" if f == "std::floor" else "cceil fn", a), "N"
        if f in ("std::min", "std::max") and len(args) == 2:
            a, ta = self.ex(args[0])
            b, tb = self.ex(args[1])
            a, b, w = self.unify(a, ta, b, tb)
            if w == "R":
                return "(%s %s %s)" % ("cmin" if f == "std::min" else "cmax", a, b), "R"
            if w == "N":
                return "(%s %s %s)" % ("min" if f == "std::min" else "max", a, b), "N"
            raise TranslateError("%s on %s" % (f, w))
        if f in ("std::sqrt", "sqrt") and len(args) == 1:
            a, ta = self.ex(args[0])
            return "(fn.sqrt %s)" % self.co(a, ta, "R"), "R"
        if f == "vec3" and len(args) == 3:
            xs = [self.co(*(self.ex(a) + ("R",))) for a in args]
            return "(V3.mk %s %s %s)" % tuple(xs), "V"
        if f in ("compute_node_triangle_distance", "contact_model_abstract::compute_node_triangle_distance") and len(args) == 4:
            xs = [self.ex(a) for a in args]
            if [t for _, t in xs] != ["V"] * 4:
                raise TranslateError("kernel arguments")
            return "(closestPt %s %s %s %s)" % tuple(a for a, _ in xs), "T"
        if f == "std::make_pair":
            return "()", "U"
        raise TranslateError("unknown function %s/%d" % (f, len(args)))

    def obj(self, e):
        t, ty = self.ex(e)
        if not ty.startswith("O:"):
            raise TranslateError("member access on a %s" % ty)
        return t, ty[2:]

    def mcall(self, o, name, args):
        # methods of values first
        if name in ("dx", "dy", "dz", "dot", "squared_norm", "norm", "cross"):
            a, ta = self.ex(o)
            if ta != "V":
                raise TranslateError(".%s() on a %s" % (name, ta))
            if name in ("dx", "dy", "dz"):
                return "%s.%s" % (a, name[1]), "R"
            if name == "squared_norm":
                return "(V3.normSq %s)" % a, "R"
            if name == "norm":
                return "(fn.sqrt (V3.normSq %s))" % a, "R"
            b, tb = self.ex(args[0])
            if tb != "V":
                raise TranslateError(".%s(non-vector)" % name)
            return ("(V3.dot %s %s)" if name == "dot" else "(V3.cross %s %s)") % (a, b), ("R" if name == "dot" else "V")
        if name == "has_value" and o[0] == "member" and o[2] == "coupled_node_":
            t, kind = self.obj(o[1])
            if kind != "node":
                raise TranslateError("coupled_node_ of a %s" % kind)
            return "%s.coupled" % t, "B"
        t, kind = self.obj(o)
        if kind == "node" and name == "pos":
            return "%s.pos" % t, "V"
        if kind == "cell" and name == "get_cell_type_id":
            return "%s.type" % t, "N"
        if kind == "cell" and name == "get_id":
            return "%s.id" % t, "N"
        if kind == "cell" and name == "get_cell_type":
            return t, "O:celltype"
        if kind == "face" and name == "get_area":
            return "%s.area" % t, "R"
        if kind == "face" and name == "get_owner_cell":
            if "c2" not in self.env:
                raise TranslateError("owner cell")
            return self.env["c2"]
        if kind == "cell" and name == "get_face_type":
            if len(args) == 1 and args[0][0] == "member" and args[0][2] == "local_face_id_":
                ft, fk = self.obj(args[0][1])
                if fk == "face":
                    return ft, "O:ftype"
            raise TranslateError("get_face_type argument")
        raise TranslateError("unknown method %s.%s()" % (kind, name))

    def member(self, o, name):
        t, kind = self.obj(o)
        if kind == "node" and name in NODE_FIELDS:
            return "%s.%s" % (t, NODE_FIELDS[name][0]), NODE_FIELDS[name][1]
        if kind == "face" and name in FACE_FIELDS:
            return "%s.%s" % (t, FACE_FIELDS[name][0]), FACE_FIELDS[name][1]
        if kind == "ftype" and name in FTYPE_FIELDS:
            return "%s.%s" % (t, FTYPE_FIELDS[name][0]), FTYPE_FIELDS[name][1]
        if kind == "celltype" and name == "surface_coupling_max_curvature_":
            return "%s.maxCurv" % t, "R"
        raise TranslateError("unknown member %s.%s" % (kind, name))

    def index(self, o, ix):
        # c2->node_lst_[f->n1_id_]  ->  the face node objects given as parameters
        if o[0] == "member" and o[2] == "node_lst_" and ix[0] == "member" and ix[2] in ("n1_id_", "n2_id_", "n3_id_"):
            key = "f_" + ix[2][:2]
            if key in self.env:
                return self.env[key]
        raise TranslateError("indexing")

    # ---------------------------------------------------------------- statements
    def assign(self, name, t, ty):
        if ty == "K":
            old = self.env.get(name, (None, "R"))[1]
            t, ty = self.co(t, ty, old if old in ("R", "N") else "R"), (old if old in ("R", "N") else "R")
        if ty.startswith("O:") or ty == "U":
            self.env[name] = (t, ty)
            return
        if self.top or name in self.scope:
            v = self.fresh(name)
            self.lines.append("  let %s := %s" % (v, t))
            self.env[name] = (v, ty)
        else:
            self.env[name] = (t, ty)

    def force_target(self, o):
        t, kind = self.obj(o)
        if kind != "node" or t not in self.forces:
            raise TranslateError("add_force on %s" % t)
        return self.forces[t]

    def stmt(self, s):
        k = s[0]
        if k == "block":
            for x in s[1]:
                self.stmt(x)
            return
        if k == "let":
            if not self.top:
                self.scope.add(s[1])
            if s[2] is None:
                self.env[s[1]] = (None, self.decl_types.get(s[1], "R"))
                return
            t, ty = self.ex(s[2])
            want = self.decl_types.get(s[1])
            if want and ty in ("K", "P", "B") and want != ty:
                t, ty = self.co(t, ty, want), want
            self.assign(s[1], t, ty)
            return
        if k == "letpat":
            t, ty = self.ex(s[2])
            if ty != "T" or len(s[1]) != 2:
                raise TranslateError("structured binding")
            if not self.top:
                self.scope.add("kernel_result")
            self.assign("kernel_result", t, "T")
            v = self.env["kernel_result"][0]
            self.env[s[1][0]] = ("%s.1" % v, "R")
            self.env[s[1][1]] = ("%s.2" % v, "V")
            return
        if k == "assign":
            if s[1][0] != "id":
                raise TranslateError("assignment to a non-local")
            name = s[1][1]
            if name not in self.env:
                if name in self.members:
                    raise TranslateError("assignment to the member %s" % name)
                raise TranslateError("assignment to undeclared %s" % name)
            t, ty = self.ex(s[3])
            if s[2] != "=":
                cur = self.ex(("id", name))
                t, ty = self.binop(s[2][0], cur, (t, ty))
            old_ty = self.env[name][1]
            if ty != old_ty:
                t, ty = self.co(t, ty, old_ty), old_ty
            self.assign(name, t, ty)
            return
        if k == "expr":
            e = s[1]
            if e[0] == "call" and e[1] == "assert":
                return
            if e[0] == "mcall" and e[2] == "add_force" and len(e[3]) == 1:
                acc = self.force_target(e[1])
                t, ty = self.ex(e[3][0])
                if ty != "V":
                    raise TranslateError("add_force of a %s" % ty)
                cur = self.ex(("id", acc))
                self.assign(acc, "(%s + %s)" % (cur[0], t), "V")
                return
            if e[0] == "mcall" and e[2] in self.skip_calls:
                self.skipped.append(e[2])
                return
            raise TranslateError("expression statement %r" % (e[:3],))
        if k == "if":
            self.if_stmt(s)
            return
        if k == "ret":
            raise TranslateError("return inside a translated block")
        raise TranslateError("statement kind %s" % k)

    def branch(self, stmts):
        sub = type(self)(self.env, self.members, self.forces, self.skip_calls, parent=self)
        sub.decl_types = self.decl_types
        for hook in ("member", "mcall", "index", "call"):
            if hook in self.__dict__:
                setattr(sub, hook, self.__dict__[hook])
        for x in stmts:
            sub.stmt(x)
        return sub.env

    def if_stmt(self, s):
        c = self.co(*(self.ex(s[1]) + ("P",)))
        th = s[2][1] if s[2][0] == "block" else [s[2]]
        el = [] if s[3] is None else (s[3][1] if s[3][0] == "block" else [s[3]])
        # `if (c) { b = !b; }` on a bool variable: b := xor b (decide c)
        if not el and len(th) == 1 and th[0][0] == "assign" and th[0][2] == "=" and th[0][1][0] == "id" \
                and th[0][3] == ("un", "!", th[0][1]) and self.env.get(th[0][1][1], (None, None))[1] == "B":
            name = th[0][1][1]
            self.assign(name, "(xor %s (decide %s))" % (self.env[name][0], c), "B")
            return
        e1 = self.branch(th)
        e2 = self.branch(el)
        for name in list(self.env.keys()):
            old = self.env[name]
            a, b = e1.get(name, old), e2.get(name, old)
            if a == old and b == old:
                continue
            if a[0] is None or b[0] is None:
                # assigned on one path only and never initialised before: stays unusable unless both assign
                if a[0] is None and b[0] is None:
                    continue
                raise TranslateError("%s may be used uninitialised after an if" % name)
            ty = a[1]
            if a[1] != b[1]:
                raise TranslateError("type of %s differs between branches" % name)
            if ty.startswith("O:") or ty == "U":
                continue
            self.assign(name, "(if %s then %s else %s)" % (c, a[0], b[0]), ty)

    def run(self, stmts, decl_types=None):
        self.decl_types = decl_types or {}
        for s in stmts:
            self.stmt(s)
        return "\n".join(self.lines)


def declared_types(text):
    """C++ declared types of the locals of a body: name -> R | N | B | V (used to type literals and bools)"""
    out = {}
    for m in re.finditer(r"\b(?:const\s+)?(double|unsigned|size_t|bool|vec3|int)\s*&?\s+(\w+)\s*(?:=|;|\()", text):
        out[m.group(2)] = {"double": "R", "unsigned": "N", "size_t": "N", "bool": "B", "vec3": "V", "int": "N"}[m.group(1)]
    return out


def norm(s):
    return re.sub(r"\s+", "", s)
