"""C18 (shared with C17): the parameter table of `parameter_reader`, extracted from the C++ on every run.

For each of read_numerical_parameters / read_cell_type_parameters / read_face_type_parameters the
body is cut into its `get_string_value(section, "tag"[, true])` blocks; each block must consist of
exactly: the look-up, the missing-tag test, (an optional string alias), ONE assignment to a struct
member with a recognised conversion, and validity tests of a recognised shape.  Anything else is a
TranslateError (the tie to the source is broken and reported like a broken proof).

Also extracted: the loop shape of read_biomechanical_parameters, the declared member types
(custom_structures.hpp), the tags / INF remarks / example values of doc/parameter_file_doc.md and
of the shipped parameters_*.xml, and where each member is consumed (a syntactic trace).
Output: lean/SimuVerif/Gen/ParamTable.lean.
"""
import os, re, glob, json, hashlib
import translate
import cxx2lean as X
from cxx2lean import TranslateError

READER = "src/io/parameter_reader.cpp"
STRUCTS = "include/custom_structures.hpp"
DOC = "doc/parameter_file_doc.md"

FUNCS = [  # (table name, function, struct type)
    ("numerical", "parameter_reader::read_numerical_parameters", "global_simulation_parameters"),
    ("cell", "parameter_reader::read_cell_type_parameters", "cell_type_parameters"),
    ("face", "parameter_reader::read_face_type_parameters", "face_type_parameters"),
]

STR = r'"(?:[^"\\]|\\.)*"'


def _ws(s):
    return re.sub(r"\s+", "", s)


def struct_members(src, name):
    m = re.search(r"\bstruct\s+" + name + r"\s*\{", src)
    if not m:
        raise TranslateError("struct %s not found" % name)
    b0 = m.end() - 1
    body = src[b0 + 1:X.match_brace(src, b0)]
    # drop member function bodies
    out = {}
    depth = 0
    flat = []
    for ch in body:
        if ch == "{":
            depth += 1
        elif ch == "}":
            depth -= 1
        elif depth == 0:
            flat.append(ch)
    for st in "".join(flat).split(";"):
        mm = re.match(r"\s*((?:std::)?[\w:]+(?:\s*<[^;]*>)?)\s+(\w+_)\s*(?:=\s*[^;]+)?\s*$", st, re.S)
        if mm:
            out[mm.group(2)] = _ws(mm.group(1))
    return out


def first_literal(expr):
    m = re.search(STR, expr)
    return bytes(m.group(0)[1:-1], "utf-8").decode("unicode_escape") if m else ""


def parse_cond(cond, var):
    """condition of a validity test → check tuple"""
    c = _ws(cond)
    acc = re.escape(var) + r"(?:\.|->)"
    m = re.fullmatch(acc + r"(\w+)(<=|<)(0|0\.|0\.0+|\.0+)", c)
    if m:
        return ("le0" if m.group(2) == "<=" else "lt0", m.group(1))
    m = re.fullmatch(acc + r"(\w+)<" + acc + r"(\w+)", c)
    if m:
        return ("ltField", m.group(1), m.group(2))
    raise TranslateError("validity test of unrecognised shape: if(%s)" % cond.strip())


def parse_reader_function(src, table, qualname, stype, members):
    params, body = X.find_function(src, qualname)
    # the section pointer and the struct variable
    if table == "numerical":
        m = re.search(r"auto\s+(\w+)\s*=\s*select_section\(\s*(" + STR + r")\s*\)\s*;", body)
        if not m:
            raise TranslateError("%s: select_section not found" % qualname)
        secvar, secname = m.group(1), m.group(2)[1:-1]
    else:
        m = re.search(r"tinyxml2::XMLElement\s*\*\s*(\w+)\s*$", params.strip())
        if not m:
            raise TranslateError("%s: section parameter not found in (%s)" % (qualname, params))
        secvar, secname = m.group(1), None
    m = re.search(r"(?:" + stype + r"\s+(\w+)\s*;)|(?:std::shared_ptr<\s*" + stype + r"\s*>\s+(\w+)\s*=\s*std::make_shared<\s*"
                  + stype + r"\s*>\(\s*\)\s*;)", body)
    if not m:
        raise TranslateError("%s: declaration of the %s variable not found" % (qualname, stype))
    var = m.group(1) or m.group(2)
    mret = re.search(r"\breturn\s+" + re.escape(var) + r"\s*;\s*$", body.strip())
    if not mret:
        raise TranslateError("%s: does not end in `return %s;`" % (qualname, var))
    getre = re.compile(r"auto\s+(\w+)\s*=\s*get_string_value\(\s*([^,()]+?)\s*,\s*(" + STR + r")\s*(?:,\s*(true|false)\s*)?\)\s*;")
    gets = list(getre.finditer(body))
    if not gets:
        raise TranslateError("%s: no get_string_value block" % qualname)
    # nothing but declarations / asserts before the first block
    pre = body[:gets[0].start()]
    pre = re.sub(r"assert\([^;]*\)\s*;", "", pre)
    pre = re.sub(r"auto\s+\w+\s*=\s*select_section\([^;]*\)\s*;", "", pre)
    pre = pre.replace(m.group(0), "")
    if pre.strip():
        raise TranslateError("%s: unrecognised statements before the first block: %r" % (qualname, pre.strip()[:120]))
    if len(re.findall(r"get_string_value\s*\(", body)) != len(gets):
        raise TranslateError("%s: a get_string_value call of unrecognised shape" % qualname)
    entries = []
    body_end = body.rstrip().rfind("return")
    for i, g in enumerate(gets):
        opt, sec, tag, low = g.group(1), g.group(2), g.group(3)[1:-1], g.group(4) == "true"
        if sec != secvar:
            raise TranslateError("%s: tag %s is read from `%s`, not from the section `%s` of this function" % (qualname, tag, sec, secvar))
        blk = body[g.end(): gets[i + 1].start() if i + 1 < len(gets) else body_end]
        # 1. the missing-tag test
        mm = re.search(r"if\s*\(\s*!\s*" + opt + r"\.has_value\(\)\s*\)\s*\{?\s*throw\s+parameter_reader_exception\(", blk)
        if not mm or blk[:mm.start()].strip():
            raise TranslateError("%s: tag %s is not followed by its missing-tag test" % (qualname, tag))
        p0 = mm.end() - 1
        p1 = X.match_brace(blk, p0, "(", ")")
        miss_msg = first_literal(blk[p0:p1])
        rest = re.sub(r"^\s*;\s*\}?", "", blk[p1 + 1:])
        # 2. optional alias of the text
        names = [opt + ".value()"]
        ma = re.match(r"\s*std::string\s+(\w+)\s*=\s*" + re.escape(opt) + r"\.value\(\)\s*;", rest)
        if ma:
            names.append(ma.group(1))
            rest = rest[ma.end():]
        # 3. the assignment
        ms = re.match(r"\s*" + re.escape(var) + r"\s*(?:\.|->)\s*(\w+)\s*=(?!=)", rest)
        if not ms:
            raise TranslateError("%s: tag %s: no assignment to a member of %s after the look-up" % (qualname, tag, var))
        field = ms.group(1)
        semi = rest.find(";", ms.end())
        rhs = _ws(rest[ms.end():semi])
        for nme in names:
            rhs = rhs.replace(_ws(nme), "V")
        rest = rest[semi + 1:]
        inf, infv = None, ""
        if rhs == "V":
            kind = "str"
        elif rhs == "std::stod(V)":
            kind = "dbl"
        elif rhs == "std::stoi(V)":
            kind = "int"
        elif rhs in ("(std::stoi(V)==0)?false:true", "std::stoi(V)!=0", "(std::stoi(V)!=0)"):
            kind = "bool"
        else:
            mi = re.fullmatch(r"\(V==(" + STR + r")\)\?(.+?):std::stod\(V\)", rhs)
            if not mi:
                raise TranslateError("%s: tag %s: conversion of unrecognised shape: %s" % (qualname, tag, rhs))
            kind, inf, infv = "dbl", mi.group(1)[1:-1], mi.group(2)
        if field not in members:
            raise TranslateError("%s: member %s is not declared in struct %s" % (qualname, field, stype))
        # 4. the validity tests
        checks = []
        while True:
            mc = re.match(r"\s*if\s*\(", rest)
            if not mc:
                break
            c0 = mc.end() - 1
            c1 = X.match_brace(rest, c0, "(", ")")
            cond = rest[c0 + 1:c1]
            mt = re.match(r"\s*\{?\s*throw\s+parameter_reader_exception\(", rest[c1 + 1:])
            if not mt:
                raise TranslateError("%s: tag %s: an if that does not throw parameter_reader_exception" % (qualname, tag))
            t0 = c1 + 1 + mt.end() - 1
            t1 = X.match_brace(rest, t0, "(", ")")
            checks.append({"check": parse_cond(cond, var), "msg": first_literal(rest[t0:t1])})
            rest = re.sub(r"^\s*;\s*\}?", "", rest[t1 + 1:])
        if rest.strip():
            raise TranslateError("%s: tag %s: unrecognised statement in its block: %r" % (qualname, tag, rest.strip()[:120]))
        entries.append({"tag": tag, "field": field, "kind": kind, "ctype": members[field], "lower": low,
                        "inf": inf, "infValue": infv, "checks": checks, "missing_msg": miss_msg})
    return {"entries": entries, "section": secname, "var": var}


def parse_loops(src):
    _, body = X.find_function(src, "parameter_reader::read_biomechanical_parameters")
    names = {}
    m = re.search(r"select_section\(\s*(" + STR + r")\s*\)", body)
    if not m:
        raise TranslateError("read_biomechanical_parameters: select_section not found")
    names["cell_root"] = m.group(1)[1:-1]
    loops = []
    for m in re.finditer(r"for\s*\(\s*tinyxml2::XMLElement\s*\*\s*(\w+)\s*=\s*(\w+)->(\w+)\(\s*(" + STR + r")\s*\)\s*;\s*(\w+)\s*!=\s*(?:NULL|nullptr)\s*;\s*(\w+)\s*=\s*(\w+)->(\w+)\(\s*("
                         + STR + r")\s*\)\s*\)", body):
        it, root, first, n1, it2, it3, it4, nxt, n2 = m.groups()
        if not (it == it2 == it3 == it4) or n1 != n2:
            raise TranslateError("read_biomechanical_parameters: loop of unrecognised shape")
        loops.append({"elem": n1[1:-1], "first": first, "next": nxt, "root": root})
    if len(loops) != 2:
        raise TranslateError("read_biomechanical_parameters: expected 2 element loops, found %d" % len(loops))
    m = re.search(r"(\w+)\s*=\s*\w+->FirstChildElement\(\s*(" + STR + r")\s*\)\s*;\s*if\s*\(\s*\1\s*==\s*nullptr\s*\)", body)
    if not m:
        raise TranslateError("read_biomechanical_parameters: face_types look-up not found")
    names["face_root"] = m.group(2)[1:-1]
    if m.group(1) != loops[1]["root"]:
        raise TranslateError("read_biomechanical_parameters: the face-type loop does not run over the face_types element")
    mc = re.search(r"(\w+)\s*=\s*read_cell_type_parameters\(\s*\w+\s*,\s*(\w+)\s*\)", body)
    mf = re.search(r"(\w+)\s*=\s*read_face_type_parameters\(\s*[\w>-]+\s*,\s*\w+\s*,\s*(\w+)\s*\)", body)
    if not mc or not mf:
        raise TranslateError("read_biomechanical_parameters: calls of the two section readers not found")
    cellvar, facevar = mc.group(1), mf.group(1)
    app_face = re.search(re.escape(cellvar) + r"->face_types_\.(\w+)\(\s*(.*?)\s*\)\s*;", body)
    app_cell = re.search(r"(\w+)\.(\w+)\(\s*" + re.escape(cellvar) + r"\s*\)\s*;", body)
    mret = re.search(r"return\s+(\w+)\s*;\s*$", body.strip())
    if not app_face or not app_cell or not mret or app_cell.group(1) != mret.group(1):
        raise TranslateError("read_biomechanical_parameters: how the results are collected was not recognised")

    def forward(loop, app, arg_ok):
        if loop["first"] == "FirstChildElement" and loop["next"] == "NextSiblingElement" and app == "push_back" and arg_ok:
            return True
        if loop["first"] == "LastChildElement" and loop["next"] == "PreviousSiblingElement" and app == "push_back" and arg_ok:
            return False
        raise TranslateError("read_biomechanical_parameters: iteration %s/%s/%s not recognised" % (loop["first"], loop["next"], app))
    cell_fw = forward(loops[0], app_cell.group(2), mc.group(2) == re.search(r"XMLElement\s*\*\s*(\w+)", body[body.find("for"):]).group(1))
    face_fw = forward(loops[1], app_face.group(1), _ws(app_face.group(2)) == facevar)
    names["cell_elem"] = loops[0]["elem"]
    names["face_elem"] = loops[1]["elem"]
    # the two "at least one" tests
    n_empty = len(re.findall(r"FirstChildElement\(\s*" + STR + r"\s*\)\s*==\s*nullptr\s*\)\s*\{\s*throw\s+parameter_reader_exception", body))
    names["empty_tests"] = str(n_empty)
    return names, cell_fw, face_fw


def parse_get_string_value(src):
    """does an element without text (GetText() == nullptr) count as missing (repaired) or reach std::string(nullptr)?"""
    _, body = X.find_function(src, "parameter_reader::get_string_value")
    b = _ws(body)
    m = re.search(r"auto(\w+)=e->FirstChildElement\(XML_markup\.c_str\(\)\);if\(\1==nullptr\)returnstd::nullopt;", b)
    if not m:
        raise TranslateError("get_string_value: look-up / not-found test not recognised")
    el = m.group(1)
    rest = b[m.end():]
    tail = r"return\(to_lower_case\)\?lower_string\(str\):str;"
    if re.fullmatch(r"std::stringstr=" + el + r"->GetText\(\);" + tail, rest):
        return False
    mm = re.fullmatch(r"constchar\*(\w+)=" + el + r"->GetText\(\);if\(\1==nullptr\)returnstd::nullopt;std::stringstr=\1;" + tail, rest)
    if mm:
        return True
    raise TranslateError("get_string_value: body of unrecognised shape")


# ------------------------------------------------------------------------------------------ documentation / shipped files
LEAF = re.compile(r"<(\w+)>([^<>]*)</\1>")


def sign_of_text(t):
    t = t.strip()
    if t.lower() in ("inf", "+inf", "infinity"):
        return 2
    try:
        v = float(t)
    except ValueError:
        return None
    return 1 if v > 0 else (0 if v == 0 else -1)


def doc_facts(repo):
    txt = open(os.path.join(repo, DOC)).read()
    tags, infs = [], []
    lines = txt.splitlines()
    for i, ln in enumerate(lines):
        for m in LEAF.finditer(ln):
            tags.append((m.group(1), m.group(2).strip()))
            ctx = " ".join(lines[max(0, i - 2):i + 1])
            if re.search(r"\bINF\b", ctx.split("<" + m.group(1) + ">")[0]) and re.search(r"Set to INF", ctx):
                infs.append(m.group(1))
    return tags, sorted(set(infs))


def shipped_facts(repo, tables):
    """(file, section kind, tag) missing in a shipped parameters_*.xml ; (tag, sign) seen"""
    missing, seen = [], set()
    for fp in sorted(glob.glob(os.path.join(repo, "parameters_*.xml"))):
        txt = re.sub(r"<!--.*?-->", "", open(fp).read(), flags=re.S)
        name = os.path.basename(fp)
        num = re.search(r"<numerical_parameters>(.*?)</numerical_parameters>", txt, re.S)
        secs = [("numerical", num.group(1) if num else "")]
        for c in re.findall(r"<cell_type>(.*?)</cell_type>", txt, re.S):
            faces = re.findall(r"<face_type>(.*?)</face_type>", c, re.S)
            secs.append(("cell", re.sub(r"<face_types>.*?</face_types>", "", c, flags=re.S)))
            secs += [("face", f) for f in faces]
        for kind, s in secs:
            leafs = LEAF.findall(s)
            have = {t for t, _ in leafs}
            for e in tables[kind]:
                if e["tag"] not in have:
                    missing.append((name, kind, e["tag"]))
            for t, v in leafs:
                sg = sign_of_text(v)
                if sg is not None:
                    seen.add((t, sg))
    return missing, sorted(seen)


# ------------------------------------------------------------------------------------------ where the members are consumed
WIRING = [
    # (struct member, role, file, regex that must match the comment-stripped text)
    ("time_step_", "integrator step dt_", "include/time_integration/time_integration.hpp", r"dt_\s*\(\s*sim_parameters\.time_step_\s*\)"),
    ("time_step_", "simulation clock advances by dt_", "src/time_integration/time_integration.cpp", r"simulation_time_\s*\+=\s*dt_\s*;"),
    ("time_step_", "internal forces see the step", "src/solver.cpp", r"apply_internal_forces\(\s*sim_parameters_\.time_step_\s*\)"),
    ("damping_coefficient_", "integrator damping", "include/time_integration/time_integration.hpp", r"damping_coeff_\s*\(\s*sim_parameters\.damping_coefficient_\s*\)"),
    ("simulation_duration_", "main loop runs while t < duration", "src/solver.cpp",
     r"while\s*\(\s*time_integrator_ptr_->get_simulation_time\(\)\s*<\s*sim_parameters_\.simulation_duration_"),
    ("sampling_period_", "file number = floor(t / period) + 1", "src/solver.cpp",
     r"std::floor\(\s*time_integrator_ptr_->get_simulation_time\(\)\s*/\s*sim_parameters_\.sampling_period_\s*\)\s*\+\s*1"),
    ("min_edge_len_", "mesh refiner l_min, 3 l_min", "src/solver.cpp",
     r"local_mesh_refiner>\(\s*sim_parameters_\.min_edge_len_\s*,\s*sim_parameters_\.min_edge_len_\s*\*\s*3\.?\s*,"),
    ("min_edge_len_", "initial triangulation l_min, 3 l_min", "src/io/simulation_initializer.cpp",
     r"triangulate_surface\(\s*sim_parameters_\.min_edge_len_\s*,\s*3\.?\s*\*\s*sim_parameters_\.min_edge_len_\s*,"),
    ("enable_edge_swap_operation_", "mesh refiner edge swap switch", "src/solver.cpp",
     r"local_mesh_refiner>\([^;]*,\s*sim_parameters_\.enable_edge_swap_operation_\s*\)"),
    ("contact_cutoff_adhesion_", "adhesion cut-off of the contact model", "src/contact_models/contact_model_abstract.cpp",
     r"interaction_cutoff_adhesion_\s*=\s*sim_parameters\.contact_cutoff_adhesion_\s*;"),
    ("contact_cutoff_repulsion_", "repulsion cut-off of the contact model", "src/contact_models/contact_model_abstract.cpp",
     r"interaction_cutoff_repulsion_\s*=\s*sim_parameters\.contact_cutoff_repulsion_\s*;"),
    ("perform_initial_triangulation_", "initial triangulation switch", "src/io/simulation_initializer.cpp",
     r"perform_initial_triangulation_\s*=\s*sim_parameters_\.perform_initial_triangulation_\s*;"),
    ("input_mesh_path_", "mesh file that is read", "src/io/simulation_initializer.cpp", r"mesh_reader\s+\w+\(\s*sim_parameters_\.input_mesh_path_"),
    ("output_folder_path_", "folder that is created and written", "src/solver.cpp", r"create_directories\(\s*sim_parameters_\.output_folder_path_\s*\)"),
    ("mass_density_", "cell mass = density * volume", "include/mesh/cell.hpp", r"cell_type_->mass_density_\s*\*\s*volume_"),
    ("bulk_modulus_", "pressure = -K ln(V/V0)", "src/mesh/cell.cpp", r"pressure_\s*=\s*-\s*cell_type_->bulk_modulus_\s*\*\s*std::log\("),
    ("max_pressure_", "pressure cap", "src/mesh/cell.cpp", r"if\s*\(\s*pressure_\s*>\s*cell_type_->max_pressure_\s*\)\s*pressure_\s*=\s*cell_type_->max_pressure_"),
    ("area_elasticity_modulus_", "membrane elasticity factor", "src/mesh/cell.cpp", r"-\s*\(\s*cell_type_->area_elasticity_modulus_\s*/\s*target_area_\s*\)"),
    ("avg_division_vol_", "division volume", "src/mesh/cell.cpp", r"division_volume_\s*=\s*cell_type_->avg_division_vol_\s*;"),
    ("std_division_vol_", "division volume spread", "src/mesh/cell.cpp", r"normal_distribution<double>\s+\w+\(\s*cell_type_->avg_division_vol_\s*,\s*cell_type_->std_division_vol_\s*\)"),
    ("avg_growth_rate_", "growth rate", "src/mesh/cell.cpp", r"growth_rate_\s*=\s*cell_type_->avg_growth_rate_\s*;"),
    ("std_growth_rate_", "growth rate spread", "src/mesh/cell.cpp", r"normal_distribution<double>\s+\w+\(\s*cell_type_->avg_growth_rate_\s*,\s*cell_type_->std_growth_rate_\s*\)"),
    ("min_vol_", "removal below the minimum volume", "include/mesh/cell.hpp", r"volume_\s*<\s*cell_type_->min_vol_"),
    ("angle_regularization_factor_", "angle regularisation force factor", "src/mesh/cell.cpp", r"\*\s*cell_type_->angle_regularization_factor_\s*;"),
    ("target_isoperimetric_ratio_", "target area = cbrt(ratio V^2)", "src/mesh/cell.cpp",
     r"target_area_\s*=\s*std::cbrt\(\s*cell_type_->target_isoperimetric_ratio_\s*\*\s*volume_\s*\*\s*volume_\s*\)"),
    ("surface_coupling_max_curvature_", "curvature limit of the coupling", "src/contact_models/contact_node_node_via_coupling.cpp",
     r"surface_coupling_max_curvature\s*=\s*c1->get_cell_type\(\)->surface_coupling_max_curvature_"),
    ("global_type_id_", "cell class chosen by the id", "src/io/simulation_initializer.cpp", r"switch\s*\(\s*cell_type->global_type_id_\s*\)"),
    ("global_type_id_", "id written to the output mesh", "include/io/mesh_data.hpp", r"c->get_cell_type\(\)->global_type_id_"),
    ("name_", "cell type name reported", "src/io/simulation_initializer.cpp", r"cell_type->name_"),
    ("face_type_global_id_", "face id written to the output mesh", "include/io/mesh_data.hpp", r"get_face_type\(\s*f\.get_local_id\(\)\s*\)\.face_type_global_id_"),
    ("surface_tension_", "surface tension force factor", "src/mesh/cell.cpp", r"-\s*face_type\.surface_tension_\s*\+\s*membrane_elasticity_factor"),
    ("adherence_strength_", "adhesion force amplitude", "src/contact_models/contact_node_face_via_spring.cpp", r"face_type\.adherence_strength_\s*\*"),
    ("repulsion_strength_", "repulsion force", "src/contact_models/contact_node_face_via_spring.cpp", r"\*\s*face_type\.repulsion_strength_\s*\*\s*integration_region"),
    ("bending_modulus_", "bending stiffness", "src/mesh/cell.cpp", r"\(\s*face_type_1\.bending_modulus_\s*\+\s*face_type_2\.bending_modulus_\s*\)\s*/\s*2"),
]


def consumption(repo, fields):
    cache = {}

    def text(rel):
        if rel not in cache:
            try:
                cache[rel] = X.read_source(os.path.join(repo, rel))
            except OSError:
                cache[rel] = ""
        return cache[rel]
    wiring = [(f, role, rel, bool(re.search(rx, text(rel), re.S))) for f, role, rel, rx in WIRING]
    files = [p for pat in ("src/**/*.cpp", "include/**/*.hpp") for p in glob.glob(os.path.join(repo, pat), recursive=True)]
    files = [p for p in sorted(set(files)) if "python_bindings" not in p and not p.endswith("parameter_reader.cpp")
             and not p.endswith("custom_structures.hpp")]
    counts = {f: 0 for f in fields}
    for p in files:
        t = text(os.path.relpath(p, repo))
        for f in fields:
            counts[f] += len(re.findall(r"(?:\.|->)\s*" + re.escape(f) + r"\b(?!\s*=[^=])", t))
    return wiring, counts


# ------------------------------------------------------------------------------------------ extraction + emission
def extract(repo=None):
    repo = repo or translate.REPO
    src = X.read_source(os.path.join(repo, READER))
    ssrc = X.read_source(os.path.join(repo, STRUCTS))
    out = {"tables": {}, "sections": {}, "members": {}}
    for table, fn, stype in FUNCS:
        members = struct_members(ssrc, stype)
        r = parse_reader_function(src, table, fn, stype, members)
        out["tables"][table] = r["entries"]
        out["sections"][table] = r["section"]
        out["members"][table] = members
    out["emptyIsMissing"] = parse_get_string_value(src)
    names, cfw, ffw = parse_loops(src)
    names["numerical_root"] = out["sections"]["numerical"]
    out["names"] = names
    out["cellLoopForward"], out["faceLoopForward"] = cfw, ffw
    out["unread"] = {t: sorted(set(out["members"][t]) - {e["field"] for e in out["tables"][t]}) for t in out["tables"]}
    out["doc_tags"], out["doc_inf"] = doc_facts(repo)
    out["shipped_missing"], out["shipped_signs"] = shipped_facts(repo, out["tables"])
    fields = sorted({e["field"] for t in out["tables"].values() for e in t})
    out["wiring"], out["consumers"] = consumption(repo, fields)
    return out


def lstr(s):
    return json.dumps(s, ensure_ascii=False)


def lean_check(c):
    if c[0] == "ltField":
        return ".ltField %s %s" % (lstr(c[1]), lstr(c[2]))
    return ".%s %s" % (c[0], lstr(c[1]))


def lean_entry(e):
    return ("{ tag := %s, field := %s, kind := .%s, ctype := %s, lower := %s, inf := %s, infValue := %s,\n      checks := [%s] }"
            % (lstr(e["tag"]), lstr(e["field"]), e["kind"], lstr(e["ctype"]), "true" if e["lower"] else "false",
               "some " + lstr(e["inf"]) if e["inf"] is not None else "none", lstr(e["infValue"]),
               ", ".join(lean_check(c["check"]) for c in e["checks"])))


def lean_text(d):
    L = ["-- GENERATED by tools/gen/c18_params.py from %s, %s, %s, parameters_*.xml and the consuming sources — do not edit."
         % (READER, STRUCTS, DOC),
         "import SimuVerif.Model.Params", "namespace Simu.Gen", "open Simu.Params", ""]
    for t, nm in (("numerical", "numTable"), ("cell", "cellTable"), ("face", "faceTable")):
        L.append("/-- the get_string_value blocks of %s, in source order -/" % dict((a, b) for a, b, _ in FUNCS)[t])
        L.append("def %s : List Entry := [\n  %s ]\n" % (nm, ",\n  ".join(lean_entry(e) for e in d["tables"][t])))
    L.append("def paramTables : Tables :=\n  { numerical := numTable, cell := cellTable, face := faceTable,\n    cellLoopForward := %s, faceLoopForward := %s }\n"
             % ("true" if d["cellLoopForward"] else "false", "true" if d["faceLoopForward"] else "false"))
    L.append("/-- get_string_value returns std::nullopt for an element without text (false: it constructs std::string(nullptr)) -/")
    L.append("def emptyIsMissing : Bool := %s\n" % ("true" if d["emptyIsMissing"] else "false"))
    L.append("/-- element names used by select_section / the loops of read_biomechanical_parameters -/")
    L.append("def structureNames : List (String × String) := [%s]\n" % ", ".join("(%s, %s)" % (lstr(k), lstr(v)) for k, v in sorted(d["names"].items())))
    L.append("/-- members of the three structures that no XML tag is read into -/")
    L.append("def unreadMembers : List (String × List String) := [%s]\n" % ", ".join(
        "(%s, [%s])" % (lstr(t), ", ".join(lstr(x) for x in d["unread"][t])) for t in ("numerical", "cell", "face")))
    L.append("/-- leaf tags shown in doc/parameter_file_doc.md -/")
    L.append("def docTags : List String := [%s]\n" % ", ".join(lstr(t) for t in sorted({t for t, _ in d["doc_tags"]})))
    L.append("/-- tags whose documentation says `Set to INF` -/")
    L.append("def docInfTags : List String := [%s]\n" % ", ".join(lstr(t) for t in d["doc_inf"]))
    ex = sorted({(t, sign_of_text(v)) for t, v in d["doc_tags"] if sign_of_text(v) is not None})
    L.append("/-- (tag, sign of an example value) in the documentation: -1, 0, 1, 2 = INF -/")
    L.append("def docExamples : List (String × Int) := [%s]\n" % ", ".join("(%s, %d)" % (lstr(t), s) for t, s in ex))
    L.append("/-- (file, table, tag): a tag of a table that a shipped parameters_*.xml lacks in such a section -/")
    L.append("def shippedMissing : List (String × String × String) := [%s]\n" % ", ".join(
        "(%s, %s, %s)" % (lstr(a), lstr(b), lstr(c)) for a, b, c in d["shipped_missing"]))
    L.append("/-- (tag, sign of a value) occurring in the shipped parameters_*.xml -/")
    L.append("def shippedExamples : List (String × Int) := [%s]\n" % ", ".join("(%s, %d)" % (lstr(t), s) for t, s in d["shipped_signs"]))
    L.append("/-- syntactic trace: (member, role, file, the expected use is present in the source) -/")
    L.append("def wiring : List (String × String × String × Bool) := [\n  %s ]\n" % ",\n  ".join(
        "(%s, %s, %s, %s)" % (lstr(f), lstr(r), lstr(p), "true" if ok else "false") for f, r, p, ok in d["wiring"]))
    L.append("/-- number of reads of each member outside parameter_reader.cpp / custom_structures.hpp / python_bindings -/")
    L.append("def consumers : List (String × Nat) := [%s]\n" % ", ".join("(%s, %d)" % (lstr(f), n) for f, n in sorted(d["consumers"].items())))
    L.append("end Simu.Gen\n")
    return "\n".join(L)


@translate.generator("ParamTable")
def gen_param_table():
    d = extract()
    text = lean_text(d)
    changed = translate.write_if_changed(os.path.join(translate.GEN, "ParamTable.lean"), text)
    return {"file": "Gen/ParamTable.lean", "origin": READER, "rewritten": changed,
            "sha256": hashlib.sha256(text.encode()).hexdigest()[:16],
            "entries": {t: len(v) for t, v in d["tables"].items()},
            "checks": sum(len(e["checks"]) for v in d["tables"].values() for e in v), "emptyIsMissing": d["emptyIsMissing"],
            "wiring_rows": len(d["wiring"]), "wiring_missing": [w[:3] for w in d["wiring"] if not w[3]]}


if __name__ == "__main__":
    print(json.dumps(extract(), indent=1, default=str))
