"""C19 generator: src/solver.cpp, include/solver.hpp, src/time_integration/time_integration.cpp (+hpp),
src/io/statistics_writer.cpp, include/io/mesh_data.hpp, include/global_configuration.hpp
    ->  lean/SimuVerif/Gen/Schedule.lean

Extracted from the C++ text on every run (a shape that is not recognised makes the Gen file uncompilable,
which the check reports like a broken proof):
  solver::run            loop condition (translated)               -> continueRun
                         order loop / final write_data / rebase    -> runOrder
  solver::run_iteration  order of save_mesh, cell_divider::run, update_nodes_positions, write_data,
                         erase(remove_if(is_below_min_vol)), iteration_++ -> iterationOrder
                         `iteration_ % N == 0` of the divider      -> divisionPeriod
                         `iteration_ % N == 0` of write_data       -> statsPeriod
  solver::save_mesh      file-number formula (translated)          -> fileNumber
                         `if(c){file_number_ = e;` or `while(c){file_number_++;` (condition and update translated)
                                                                    -> saveCond, saveNext, saveRepeats
                         the two path expressions                  -> cellPath, facePath
  solver.hpp             initial iteration_ / file_number_         -> initIteration, initFileNumber
  time_integration.*     `simulation_time_ += dt_` (translated), initial time, tmp_step_ never set
                                                                    -> advance, initTime, stepTmp
  statistics_writer.cpp  fixed header columns / fixed row items of both writers, the mapper loops
                                                                    -> csvHeaderFixed, csvRowFixed, strHeaderFixed, strRowFixed, timeFormat
  mesh_data.hpp          file_data_mapper_lst (preprocessor evaluated with the shipped defaults):
                         column names, printf formats, value expressions -> mapperColumns, valueSources
"""
import re, os, json
import translate as T
import cxx2lean as X
from cxx2lean import TranslateError

SOLVER = "src/solver.cpp"
SOLVER_H = "include/solver.hpp"
TI_CPP = "src/time_integration/time_integration.cpp"
TI_HPP = "include/time_integration/time_integration.hpp"
STATS = "src/io/statistics_writer.cpp"
MAPPERS = "include/io/mesh_data.hpp"
CONFIG = "include/global_configuration.hpp"


# ------------------------------------------------------------------------------------------
# a small typed expression translator: 'R' double, 'N' size/unsigned count, 'Z' integer (file numbers),
# 'K' integer literal, 'B' condition
def key_of(e):
    """canonical text of an access path: a.b / a.f() (-> and . are the same to the parser)"""
    k = e[0]
    if k == "id":
        return e[1]
    if k == "member":
        return key_of(e[1]) + "." + e[2]
    if k == "mcall" and not e[3]:
        return key_of(e[1]) + "." + e[2] + "()"
    raise TranslateError("unsupported access path %r" % (e,))


class TX:
    def __init__(self, env):
        self.env = env        # access path -> (lean text, type)

    def co(self, t, ty, want):
        if ty == want:
            return t
        if ty == "K":
            return {"R": "(lit %s : R)", "N": "(%s : Nat)", "Z": "(%s : Int)"}[want] % t
        raise TranslateError("cannot use a %s where a %s is needed: %s" % (ty, want, t))

    def unify(self, a, ta, b, tb):
        if "B" in (ta, tb):
            raise TranslateError("arithmetic on a condition")
        kinds = {ta, tb} - {"K"}
        if len(kinds) > 1:
            raise TranslateError("mixed operand types %s/%s: %s , %s" % (ta, tb, a, b))
        w = kinds.pop() if kinds else "K"
        if w == "K":
            return a, b, "K"
        return self.co(a, ta, w), self.co(b, tb, w), w

    def ex(self, e):
        k = e[0]
        if k == "num":
            fr = e[1]
            if fr.denominator == 1:
                return str(fr.numerator), "K"
            return "((lit %d : R) / lit %d)" % (fr.numerator, fr.denominator), "R"
        if k in ("id", "member", "mcall"):
            key = key_of(e)
            if key not in self.env:
                raise TranslateError("unknown quantity %s" % key)
            return self.env[key]
        if k == "un":
            a, ta = self.ex(e[2])
            if e[1] == "!" and ta == "B":
                return "(!%s)" % a, "B"
            if e[1] == "-" and ta in ("R", "Z"):
                return "(-%s)" % a, ta
            raise TranslateError("unary %s on %s" % (e[1], ta))
        if k == "call":
            if e[1] == "std::floor" and len(e[2]) == 1:
                a, ta = self.ex(e[2][0])
                if ta != "R":
                    raise TranslateError("std::floor of a non-double")
                return "(fn.floor %s)" % a, "Z"
            raise TranslateError("unknown function %s" % e[1])
        if k == "bin":
            op = e[1]
            a, ta = self.ex(e[2])
            b, tb = self.ex(e[3])
            if op in ("&&", "||"):
                if ta != "B" or tb != "B":
                    raise TranslateError("%s on non-conditions" % op)
                return "(%s %s %s)" % (a, op, b), "B"
            a, b, w = self.unify(a, ta, b, tb)
            if w == "K":
                a, b, w = "(%s : Int)" % a, "(%s : Int)" % b, "Z"
            if op in ("<", "<=", ">", ">=", "==", "!="):
                if op in (">", ">="):
                    a, b, op = b, a, {">": "<", ">=": "<="}[op]
                sym = {"<": "<", "<=": "≤", "==": "=", "!=": "≠"}[op]
                return "(decide (%s %s %s))" % (a, sym, b), "B"
            if op in ("+", "-", "*") or (op == "/" and w == "R"):
                return "(%s %s %s)" % (a, op, b), w
            raise TranslateError("operator %s on %s" % (op, w))
        raise TranslateError("expression kind %s" % k)


# ------------------------------------------------------------------------------------------
def once(pat, text, what, flags=re.S):
    ms = list(re.finditer(pat, text, flags))
    if len(ms) != 1:
        raise TranslateError("%s: expected exactly one match, found %d" % (what, len(ms)))
    return ms[0]


def paren_after(text, i):
    """text[i] == '(' -> (inside, index after the closing parenthesis)"""
    j = X.match_brace(text, i, "(", ")")
    return text[i + 1:j], j + 1


def block_after(text, i):
    k = text.index("{", i)
    j = X.match_brace(text, k)
    return text[k + 1:j], j + 1


def lstr(s):
    return json.dumps(s, ensure_ascii=False)


def llist(items):
    return "[" + ", ".join(items) + "]"


def norm(s):
    return re.sub(r"\s+", "", s)


def macros():
    s = T.src(CONFIG)
    m = {}
    for k, v in re.findall(r"^\s*#\s*define\s+(\w+)\s+(\w+)\s*$", s, flags=re.M):
        if k not in m:                      # the first definition is the shipped default (hook H1 overrides come later)
            m[k] = {"true": 1, "false": 0}.get(v, v)
    return m


def preprocess(body, mac):
    out, stack = [], []
    for line in body.split("\n"):
        st = line.strip()
        if st.startswith("#"):
            d = st[1:].strip()
            m = re.match(r"if\s+(.*)$", d)
            if m and not d.startswith("ifdef") and not d.startswith("ifndef"):
                expr = m.group(1)
                names = set(re.findall(r"[A-Za-z_]\w*", expr))
                for nm in names:
                    if nm not in mac:
                        raise TranslateError("unknown macro %s" % nm)
                ev = re.sub(r"[A-Za-z_]\w*", lambda mm: str(mac[mm.group(0)]), expr)
                if not re.fullmatch(r"[\d\s=!<>&|()]+", ev):
                    raise TranslateError("preprocessor expression %r" % expr)
                val = bool(eval(ev.replace("&&", " and ").replace("||", " or ").replace("!", " not ").replace(" not =", "!=")))
                stack.append([val, val])
                continue
            if d.startswith("else"):
                stack[-1][1] = not stack[-1][0]
                continue
            if d.startswith("endif"):
                stack.pop()
                continue
            raise TranslateError("preprocessor line %r" % st)
        if all(f[1] for f in stack):
            out.append(line)
    if stack:
        raise TranslateError("unbalanced #if")
    return "\n".join(out)


# ------------------------------------------------------------------------------------------
def gen_solver(summary):
    s = T.src(SOLVER)
    out = []
    # ---- solver::run
    _, run = X.find_function(s, "solver::run")
    m = once(r"\bwhile\s*\(", run, "main loop of solver::run")
    cond, after = paren_after(run, m.end() - 1)
    body, after_loop = block_after(run, after)
    if norm(body) != "run_iteration();":
        raise TranslateError("body of the main loop is %r" % body.strip())
    if run[:m.start()].strip():
        raise TranslateError("statements before the main loop: %r" % run[:m.start()].strip())
    tail = run[after_loop:]
    fin = once(r"statistic_writer_ptr_->write_data\s*\(", tail, "final write_data of solver::run")
    args, _ = paren_after(tail, fin.end() - 1)
    if norm(args) != "iteration_,time_integrator_ptr_->get_simulation_time(),cell_lst_":
        raise TranslateError("arguments of the final write_data: %r" % args)
    order = [(m.start(), "loop"), (after_loop + fin.start(), "record")]
    rb = re.search(r"rebase\(\)", tail)
    if rb:
        order.append((after_loop + rb.start(), "rebase"))
    if re.search(r"cell_lst_\s*\.\s*(erase|push_back|clear|insert|pop_back|resize|emplace_back)|iteration_\s*(\+\+|--|[-+*/]?=[^=])", run):
        raise TranslateError("solver::run changes the population or the iteration counter itself")
    env = {"time_integrator_ptr_.get_simulation_time()": ("t", "R"), "sim_parameters_.simulation_duration_": ("T", "R"),
           "cell_lst_.size()": ("n", "N")}
    ctext, cty = TX(env).ex(X.parse_expr(cond))
    if cty != "B":
        raise TranslateError("loop condition is not a condition")
    out.append("/-- condition of the main loop of `solver::run`:  `%s` -/\ndef continueRun (t T : R) (n : Nat) : Bool :=\n  %s"
               % (re.sub(r"\s+", " ", cond.strip()), ctext))
    out.append("/-- statements of `solver::run` in source order -/\ndef runOrder : List String := %s"
               % llist(lstr(n) for _, n in sorted(order)))
    summary["loop_condition"] = re.sub(r"\s+", " ", cond.strip())

    # ---- solver::run_iteration
    _, it = X.find_function(s, "solver::run_iteration")
    marks = []
    m = once(r"if\s*\(\s*!\s*time_integrator_ptr_->is_step_tmp\(\)\s*\)\s*save_mesh\(\)\s*;", it, "save_mesh call")
    marks.append((m.start(), "save_mesh"))
    m = once(r"if\s*\(\s*!\s*time_integrator_ptr_->is_step_tmp\(\)\s*&&\s*iteration_\s*%\s*(\d+)\s*==\s*0\s*\)\s*cell_divider::run\s*\(\s*cell_lst_\s*,",
             it, "cell_divider::run call")
    marks.append((m.start(), "divide"))
    div_period = int(m.group(1))
    m = once(r"time_integrator_ptr_->update_nodes_positions\s*\(\s*cell_lst_\s*\)\s*;", it, "update_nodes_positions call")
    marks.append((m.start(), "advance_time"))
    m = once(r"if\s*\(\s*iteration_\s*%\s*(\d+)\s*==\s*0\s*\)\s*statistic_writer_ptr_->write_data\s*\(\s*iteration_\s*,\s*time_integrator_ptr_->get_simulation_time\(\)\s*,\s*cell_lst_\s*\)\s*;",
             it, "periodic write_data call")
    marks.append((m.start(), "record"))
    stats_period = int(m.group(1))
    m = once(r"cell_lst_\s*\.\s*erase\s*\(\s*std::remove_if\s*\(\s*cell_lst_\.begin\(\)\s*,\s*cell_lst_\.end\(\)\s*,", it, "removal")
    marks.append((m.start(), "remove"))
    lam, _ = block_after(it, m.end())
    once(r"return\s+c->is_below_min_vol\(\)\s*;", lam, "removal predicate")
    if len(re.findall(r"\breturn\b", lam)) != 1:
        raise TranslateError("removal predicate has several returns")
    m = once(r"\biteration_\s*\+\+\s*;", it, "iteration counter update")
    marks.append((m.start(), "count"))
    if len(re.findall(r"cell_lst_\s*\.\s*(erase|push_back|clear|insert|pop_back|resize|emplace_back)", it)) != 1:
        raise TranslateError("solver::run_iteration changes the population at an unexpected place")
    if len(re.findall(r"write_data\s*\(", it)) != 1 or len(re.findall(r"save_mesh\s*\(", it)) != 1 or len(re.findall(r"cell_divider::run", it)) != 1:
        raise TranslateError("write_data / save_mesh / cell_divider::run called more than once per iteration")
    if re.search(r"\biteration_\s*(--|[-+*/]?=[^=])|(\+\+|--)\s*iteration_", it):
        raise TranslateError("iteration counter written at an unexpected place")
    out.append("/-- statements of `solver::run_iteration` that the schedule consists of, in source order -/\ndef iterationOrder : List String := %s"
               % llist(lstr(n) for _, n in sorted(marks)))
    out.append("/-- `iteration_ %% %d == 0` in front of `cell_divider::run` -/\ndef divisionPeriod : Nat := %d" % (div_period, div_period))
    out.append("/-- `iteration_ %% %d == 0` in front of the periodic `write_data` -/\ndef statsPeriod : Nat := %d" % (stats_period, stats_period))
    summary.update({"division_period": div_period, "stats_period": stats_period, "iteration_order": [n for _, n in sorted(marks)]})

    # ---- solver::save_mesh
    _, sm = X.find_function(s, "solver::save_mesh")
    m = once(r"unsigned\s+new_file_nb\s*=\s*(.*?);", sm, "file number formula")
    envf = {"time_integrator_ptr_.get_simulation_time()": ("t", "R"), "sim_parameters_.sampling_period_": ("S", "R")}
    ftext, fty = TX(envf).ex(X.parse_expr(m.group(1)))
    if fty != "Z":
        raise TranslateError("file number formula is not an integer")
    out.append("/-- `%s` -/\ndef fileNumber (fn : Fn R) (t S : R) : Int :=\n  %s" % (re.sub(r"\s+", " ", m.group(1).strip()), ftext))
    summary["file_number"] = re.sub(r"\s+", " ", m.group(1).strip())
    rest = sm[m.end():]
    g = re.match(r"\s*(if|while)\s*\(", rest)
    if not g:
        raise TranslateError("save_mesh: expected `if(` or `while(` after the file number")
    gcond, after = paren_after(rest, g.end() - 1)
    gbody, after_block = block_after(rest, after)
    if re.sub(r"#\s*endif", "", rest[after_block:]).strip():
        raise TranslateError("save_mesh: statements after the guarded block")
    envs = {"new_file_nb": ("new", "Z"), "file_number_": ("old", "Z")}
    gtext, gty = TX(envs).ex(X.parse_expr(gcond))
    if gty != "B":
        raise TranslateError("save_mesh guard is not a condition")
    u = re.match(r"\s*file_number_\s*(\+\+)\s*;|\s*file_number_\s*=\s*(.*?);", gbody)
    if not u:
        raise TranslateError("save_mesh: the guarded block does not start by updating file_number_")
    if u.group(1):
        ntext = "(old + 1)"
    else:
        ntext, nty = TX(envs).ex(X.parse_expr(u.group(2)))
        if nty == "K":
            ntext = "(%s : Int)" % ntext
        elif nty != "Z":
            raise TranslateError("file_number_ update is not an integer")
    wbody = gbody[u.end():]
    if re.search(r"\bfile_number_\s*(\+\+|--|[-+*/]?=[^=])|(\+\+|--)\s*file_number_", wbody):
        raise TranslateError("file_number_ written twice")
    out.append("/-- guard of the writing block of `save_mesh` (`%s(%s)`): `new` is the number computed from the time, `old` is `file_number_` -/\n"
               "def saveCond (new old : Int) : Bool :=\n  %s" % (g.group(1), re.sub(r"\s+", " ", gcond.strip()), gtext))
    out.append("/-- the value `file_number_` takes at the start of the writing block (`%s`) -/\ndef saveNext (new old : Int) : Int :=\n  %s"
               % (re.sub(r"\s+", " ", u.group(0).strip()), ntext))
    out.append("/-- the writing block is a `while` (repeated until its guard fails) rather than an `if` -/\ndef saveRepeats : Bool := %s"
               % ("true" if g.group(1) == "while" else "false"))
    summary["save_guard"] = "%s(%s) %s" % (g.group(1), re.sub(r"\s+", " ", gcond.strip()), re.sub(r"\s+", " ", u.group(0).strip()))
    paths = {}
    for var in ("cell_mesh_path", "face_mesh_path"):
        pm = once(r"const\s+std::string\s+" + var + r"\s*=\s*sim_parameters_\.output_folder_path_\s*\+\s*\"([^\"]*)\"\s*\+\s*std::to_string\(\s*file_number_\s*\)\s*\+\s*\"([^\"]*)\"\s*;",
                  wbody, var)
        paths[var] = (pm.group(1), pm.group(2))
    once(r"mesh_writer::write\s*\(\s*cell_mesh_path\s*,\s*face_mesh_path\s*,\s*cell_lst_\s*\)\s*;", wbody, "mesh_writer::write call")
    out.append("/-- output_folder + prefix + file_number_ + suffix of the two files written by one `mesh_writer::write` call -/\n"
               "def cellPath : String × String := (%s, %s)\ndef facePath : String × String := (%s, %s)"
               % (lstr(paths["cell_mesh_path"][0]), lstr(paths["cell_mesh_path"][1]), lstr(paths["face_mesh_path"][0]), lstr(paths["face_mesh_path"][1])))

    # ---- initial values
    h = T.src(SOLVER_H)
    i0 = once(r"unsigned\s+int\s+iteration_\s*=\s*(\d+)\s*;", h, "initial iteration_")
    f0 = once(r"unsigned\s+int\s+file_number_\s*=\s*(\d+)\s*;", h, "initial file_number_")
    out.append("def initIteration : Nat := %s\ndef initFileNumber : Int := %s" % (i0.group(1), f0.group(1)))
    if not re.search(r"virtual\s+void\s+run_iteration\s*\(", h):
        raise TranslateError("run_iteration is no longer virtual (the harness observes through an override)")
    return out


def gen_time(summary):
    out = []
    c = T.src(TI_CPP)
    h = T.src(TI_HPP)
    ups = re.findall(r"simulation_time_\s*(\+\+|--|[-+*/]?=[^=;]*);", c + h)
    decl = once(r"double\s+simulation_time_\s*=\s*([^;]+);", h, "initial simulation time")
    _, body = X.find_function(c, "time_integration_scheme::update_nodes_positions")
    m = once(r"simulation_time_\s*\+=\s*dt_\s*;", body, "time update")
    if "#" in body[m.end():] or body[m.end():].strip():
        raise TranslateError("the time update is not the last statement of update_nodes_positions")
    last_endif = body.rfind("#endif")
    if last_endif > m.start():
        raise TranslateError("the time update is inside a conditional section")
    if len(re.findall(r"simulation_time_\s*(\+\+|--|[-+*/]?=[^=])", c + h)) != 2:      # the declaration and the update
        raise TranslateError("simulation_time_ is written at an unexpected place")
    st = X.parse_statements(m.group(0))
    if len(st) != 1 or st[0][0] != "assign" or st[0][2] != "+=":
        raise TranslateError("time update shape")
    rhs, ty = TX({"dt_": ("dt", "R")}).ex(st[0][3])
    out.append("/-- `%s` at the end of `time_integration_scheme::update_nodes_positions` -/\ndef advance (t dt : R) : R :=\n  (t + %s)" % (m.group(0).strip(), rhs))
    t0, ty0 = TX({}).ex(X.parse_expr(decl.group(1)))
    t0 = TX({}).co(t0, ty0, "R")
    out.append("/-- `double simulation_time_ = %s` -/\ndef initTime : R := %s" % (decl.group(1).strip(), t0))
    once(r"dt_\s*\(\s*sim_parameters\.time_step_\s*\)", h, "dt_ initialised from time_step_")
    once(r"double\s+get_simulation_time\s*\(\s*\)\s*const\s+noexcept\s*\{\s*return\s+simulation_time_\s*;\s*\}", h, "get_simulation_time")
    once(r"bool\s+is_step_tmp\s*\(\s*\)\s*const\s+noexcept\s*\{\s*return\s+tmp_step_\s*;\s*\}", h, "is_step_tmp")
    d = once(r"bool\s+tmp_step_\s*=\s*(true|false)\s*;", h, "initial tmp_step_")
    # tmp_step_ is never assigned anywhere else in the sources
    n_assign = 0
    for root in ("src", "include"):
        for dp, _, fs in os.walk(os.path.join(T.REPO, root)):
            for f in fs:
                if f.endswith((".cpp", ".hpp", ".h")):
                    txt = X.read_source(os.path.join(dp, f))
                    n_assign += len(re.findall(r"tmp_step_\s*(=[^=]|\()", txt))
    if n_assign != 1:
        raise TranslateError("tmp_step_ is assigned %d times" % n_assign)
    out.append("/-- `is_step_tmp()`: `tmp_step_` is initialised to %s and never assigned -/\ndef stepTmp : Bool := %s" % (d.group(1), d.group(1)))
    summary["time_update"] = m.group(0).strip()
    return out


def split_stream(stmt):
    """`x << a << b << c` -> ['x', 'a', 'b', 'c'] (top level only)"""
    parts, depth, cur, i = [], 0, "", 0
    instr = False
    while i < len(stmt):
        ch = stmt[i]
        if instr:
            cur += ch
            if ch == "\\":
                cur += stmt[i + 1]; i += 1
            elif ch == '"':
                instr = False
        elif ch == '"':
            instr = True; cur += ch
        elif ch in "([{":
            depth += 1; cur += ch
        elif ch in ")]}":
            depth -= 1; cur += ch
        elif stmt.startswith("<<", i) and depth == 0:
            parts.append(cur.strip()); cur = ""; i += 1
        else:
            cur += ch
        i += 1
    parts.append(cur.strip())
    return parts


def fixed_items(stmt, stream, what):
    p = split_stream(stmt)
    if p[0] != stream or len(p) < 3 or len(p) % 2 != 1:
        raise TranslateError("%s: unexpected stream statement %r" % (what, stmt))
    items = p[1::2]
    if any(x != "sep" for x in p[2::2]):
        raise TranslateError("%s: a value is not followed by the separator: %r" % (what, stmt))
    return [re.sub(r"\s+", "", x) for x in items]


def gen_writer(s, cls, stream, prefix, summary):
    out = []
    # constructor (has a member initialiser list, which find_function does not handle)
    m = once(r"(?<![\w:])" + cls + r"::" + cls + r"\s*\(", s, cls + " constructor")
    _, after = paren_after(s, m.end() - 1)
    ctor, _ = block_after(s, after)
    stmts = [x.strip() for x in re.findall(r"\b" + stream + r"\s*<<[^;]*;", ctor)]
    loop = once(r"for\s*\(\s*auto\s*&\s*mapper\s*:\s*(\w+)\s*\)\s*\{\s*" + stream + r"\s*<<\s*mapper\.value_name_\s*<<\s*sep\s*;\s*\}", ctor,
                cls + " header loop")
    if len(stmts) != 3 or norm(stmts[2]) != stream + '<<"\\n";':
        raise TranslateError("%s constructor: unexpected stream statements %r" % (cls, stmts))
    hdr = fixed_items(stmts[0][:-1], stream, cls + " header")
    if not all(re.fullmatch(r'"[^"\\]*"', x) for x in hdr):
        raise TranslateError("%s header: a fixed column is not a string literal" % cls)
    hdr = [x[1:-1] for x in hdr]
    if not (ctor.index(stmts[0]) < loop.start() < ctor.index(stmts[2])):
        raise TranslateError("%s constructor: header parts out of order" % cls)
    # write_data
    _, wd = X.find_function(s, cls + "::write_data")
    cl = once(r"for\s*\(\s*cell_ptr\s+c\s*:\s*cell_lst\s*\)", wd, cls + " cell loop")
    cbody, after_cells = block_after(wd, cl.end())
    if re.search(r"\b" + stream + r"\s*<<", wd[:cl.start()] + wd[after_cells:]):
        raise TranslateError("%s::write_data writes outside the loop over the cells" % cls)
    rs = [x.strip() for x in re.findall(r"\b" + stream + r"\s*<<[^;]*;", cbody)]
    rloop = once(r"for\s*\(\s*auto\s*&\s*mapper\s*:\s*(\w+)\s*\)\s*\{\s*" + stream + r"\s*<<\s*mapper\.value_extractor_\(c\)\s*<<\s*sep\s*;\s*\}", cbody,
                 cls + " row loop")
    if len(rs) != 3 or norm(rs[2]) != stream + '<<"\\n";':
        raise TranslateError("%s::write_data: unexpected stream statements %r" % (cls, rs))
    if not (cbody.index(rs[0]) < rloop.start() < cbody.index(rs[2])):
        raise TranslateError("%s::write_data: row parts out of order" % cls)
    row = fixed_items(rs[0][:-1], stream, cls + " row")
    if loop.group(1) != "file_data_mapper_lst" or rloop.group(1) != "file_data_mapper_lst":
        raise TranslateError("%s: header and rows do not loop over file_data_mapper_lst" % cls)
    if re.search(r"\b(continue|break)\b", cbody):
        raise TranslateError("%s::write_data: a cell or a column can be skipped" % cls)
    out.append("/-- `%s`: fixed leading columns of the header / fixed leading items of every row (each followed by `sep`), then one item per\n"
               "    entry of `file_data_mapper_lst` in both -/\ndef %sHeaderFixed : List String := %s\ndef %sRowFixed : List String := %s"
               % (cls, prefix, llist(lstr(x) for x in hdr), prefix, llist(lstr(x) for x in row)))
    summary[prefix + "_header_fixed"] = hdr
    summary[prefix + "_row_fixed"] = row
    return out, row


def gen_stats(summary):
    s = T.src(STATS)
    out1, row1 = gen_writer(s, "csv_file_statistics_writer", "file_stream", "csv", summary)
    out2, row2 = gen_writer(s, "string_statistics_writer", "str_stream", "str", summary)
    out = out1 + out2
    fm = [re.fullmatch(r'format_number\(simulation_time,"(%[^"]*)"\)', r[-1]) for r in (row1, row2)]
    if not all(fm) or fm[0].group(1) != fm[1].group(1):
        raise TranslateError("format of the simulation time column")
    out.append("/-- printf format of the simulation-time column -/\ndef timeFormat : String := %s" % lstr(fm[0].group(1)))
    h = T.src("include/io/statistics_writer.hpp")
    once(r'std::string\s+sep\s*=\s*","\s*;', h, "separator")
    # ---- the mapper list
    mac = macros()
    md = T.src(MAPPERS)
    m = once(r"inline\s+std::vector\s*<\s*cell_data_mapper\s*>\s+file_data_mapper_lst\s*\{", md, "file_data_mapper_lst")
    j = X.match_brace(md, m.end() - 1)
    block = preprocess(md[m.end():j], mac)
    cols, sources = [], []
    pos = 0
    while True:
        mm = re.search(r"cell_data_mapper\s*\(", block[pos:])
        if not mm:
            break
        inside, nxt = paren_after(block, pos + mm.end() - 1)
        head = re.match(r'\s*"([^"]*)"\s*,\s*"([^"]*)"\s*,\s*\[\s*\]\s*\(\s*cell_ptr\s+c\s*\)\s*->\s*std::string\s*\{', inside)
        if not head:
            raise TranslateError("shape of a cell_data_mapper: %r" % inside[:80])
        lam = inside[head.end() - 1:]
        rets = re.findall(r"return\s+([^;]*);", lam)
        fmts = set(re.findall(r'format_number\s*\((?:[^()"]|\([^()]*\))*,\s*"(%[^"]*)"\s*\)', lam))
        if len(fmts) != 1:
            raise TranslateError("column %s: formats %r" % (head.group(1), sorted(fmts)))
        cols.append((head.group(1), fmts.pop()))
        if len(rets) == 1:
            v = re.fullmatch(r'format_number\s*\((.*),\s*"%[^"]*"\s*\)', rets[0].strip())
            sources.append((head.group(1), norm(v.group(1)) if v else norm(rets[0])))
        pos = nxt
    if len(cols) < 1 or len(set(c[0] for c in cols)) != len(cols):
        raise TranslateError("columns of file_data_mapper_lst: %r" % cols)
    tail = re.sub(r"cell_data_mapper\s*\(", "", block)
    out.append("/-- `file_data_mapper_lst` (POLARIZATION_MODE_INDEX = %s, FACE_STORE_CONTACT_ENERGY = %s): (column name, printf format) -/\n"
               "def mapperColumns : List (String × String) := %s"
               % (mac.get("POLARIZATION_MODE_INDEX"), mac.get("FACE_STORE_CONTACT_ENERGY"), llist("(%s, %s)" % (lstr(a), lstr(b)) for a, b in cols)))
    # the type column prints a local computed from get_cell_type(): keep its defining expression
    ty = re.search(r"int\s+cell_type_id\s*=\s*([^;]*);", block)
    src = dict(sources)
    if ty and src.get("type_id") == "cell_type_id":
        src["type_id"] = norm(ty.group(1))
    wanted = ["cell_id", "type_id", "area", "volume", "target_volume", "pressure"]
    out.append("/-- what the columns named by the property print (the argument of `format_number`) -/\ndef valueSources : List (String × String) := %s"
               % llist("(%s, %s)" % (lstr(k), lstr(src.get(k, "?"))) for k in wanted))
    summary["columns"] = cols
    return out


@T.generator("Schedule")
def gen_schedule():
    summary = {}
    parts = gen_solver(summary) + gen_time(summary) + gen_stats(summary)
    origin = ", ".join([SOLVER, SOLVER_H, TI_CPP, TI_HPP, STATS, MAPPERS, CONFIG])
    return T.emit("Schedule", origin, "\n\n".join(parts) + "\n", summary)
