"""C03 translator: regenerates lean/SimuVerif/Gen/Integrator.lean from
   src/time_integration/time_integration.cpp   (the per-node update arithmetic of every branch of
                                                 update_nodes_positions, in each of the six compile-time
                                                 configurations CONTACT_MODEL_INDEX 0/1/2 x DYNAMIC_MODEL_INDEX 0/1,
                                                 the ownership comparisons and the time update)
   include/mesh/cell.hpp                        (get_mass, get_nb_of_nodes, get_node_mass)
   src/io/simulation_initializer.cpp + include/mesh/cell_types/*.hpp + src/contact_models/*_via_coupling.cpp
                                                 (which type ids are static classes, which type ids may be coupled)

The loop / branch skeleton (which nodes are visited, `continue`s, the look-up of the partner) is NOT translated:
it is hand-written in Model/Integrator.lean and tied by the correspondence harness.  What IS translated is every
arithmetic statement block inside those loops; the binding statements that surround them (partner look-up,
node masses) are matched textually and a change there fails the translation.
"""
import re, os
import translate
import cxx2lean as X
from cxx2lean import TranslateError

REL = "src/time_integration/time_integration.cpp"
FN = "time_integration_scheme::update_nodes_positions"


# ------------------------------------------------------------------------------------------
def preprocess(text, macros):
    """evaluate #if/#elif/#else/#endif on integer macros; other directives are dropped"""
    out = []
    stack = []          # [taken_already, active_now, parent_active]
    active = True

    def ev(e):
        e = re.sub(r"defined\s*\(\s*(\w+)\s*\)", lambda m: "1" if m.group(1) in macros else "0", e)
        e = re.sub(r"[A-Za-z_]\w*", lambda m: str(macros.get(m.group(0), 0)), e)
        if not re.fullmatch(r"[\d\s=!<>|&()+\-]*", e):
            raise TranslateError("preprocessor expression %r" % e)
        e = e.replace("||", " or ").replace("&&", " and ").replace("!", " not ").replace(" not =", "!=")
        try:
            return bool(eval(e, {"__builtins__": {}}, {}))
        except Exception:
            raise TranslateError("preprocessor expression %r" % e)

    for ln in text.split("\n"):
        s = ln.strip()
        if s.startswith("#"):
            d = s[1:].strip()
            if d.startswith("ifdef") or d.startswith("ifndef"):
                name = d.split()[1]
                c = (name in macros) == d.startswith("ifdef")
                stack.append([c, c, active]); active = active and c
            elif d.startswith("if"):
                c = ev(d[2:])
                stack.append([c, c, active]); active = active and c
            elif d.startswith("elif"):
                if not stack:
                    raise TranslateError("#elif without #if")
                t = stack[-1]
                c = (not t[0]) and ev(d[4:])
                t[1] = c; t[0] = t[0] or c; active = t[2] and c
            elif d.startswith("else"):
                if not stack:
                    raise TranslateError("#else without #if")
                t = stack[-1]
                c = not t[0]
                t[1] = c; t[0] = True; active = t[2] and c
            elif d.startswith("endif"):
                if not stack:
                    raise TranslateError("#endif without #if")
                t = stack.pop(); active = t[2]
            out.append("")
            continue
        out.append(ln if active else "")
    if stack:
        raise TranslateError("unterminated #if")
    return "\n".join(out)


def strip_asserts(t):
    while True:
        m = re.search(r"(?<![\w.])assert\s*\(", t)
        if not m:
            return t
        j = X.match_brace(t, m.end() - 1, "(", ")")
        k = j + 1
        while k < len(t) and t[k] in " \t\n":
            k += 1
        if k >= len(t) or t[k] != ";":
            raise TranslateError("assert without ';'")
        t = t[:m.start()] + t[k + 1:]


def block_at(t, regex, start=0, what=""):
    """body of the `{…}` that the match of `regex` (which must end in '{') opens; returns (body, m.start, closing index)"""
    m = re.compile(regex).search(t, start)
    if not m:
        raise TranslateError("structure not found: %s" % (what or regex))
    j = X.match_brace(t, m.end() - 1)
    return t[m.end():j], m.start(), j


def take_bindings(t, pats):
    """every pattern (a binding statement the hand-written skeleton relies on) must occur exactly once; it is removed"""
    for name, p in pats:
        ms = list(re.finditer(p, t))
        if len(ms) != 1:
            raise TranslateError("binding statement changed: %s (found %d times)" % (name, len(ms)))
        t = t[:ms[0].start()] + t[ms[0].end():]
    return t


# ------------------------------------------------------------------------------------------
SUF = {"pos_": "_pos", "momentum_": "_mom", "force_": "_force"}
ZERO = "(V3.mk (lit 0) (lit 0) (lit 0) : V3 R)"


def emitter():
    members = {k: (lambda o, s=s: o + s) for k, s in SUF.items()}
    members["first"] = lambda o: "key"
    methods = {
        "get_node_mass": lambda o, a: o + "_node_mass",
        "get_local_id": lambda o, a: o + "_local_id",
        "get_nb_coupled_nodes": lambda o, a: "(lit nbc : R)",
    }
    ids = {"dt_": "dt", "damping_coeff_": "damping", "simulation_time_": "simulation_time"}
    return X.Emitter(methods=methods, members=members, ids=ids)


def is_ident(s):
    return re.fullmatch(r"[A-Za-z_][\w']*", s) is not None


KNOWN_TYPES = {"avg_force": "V3 R", "avg_momentum": "V3 R", "avg_node_mass": "R", "simulation_time": "R",
               "c1_node_mass": "R", "c2_node_mass": "R"}
for _n in ("n1", "n2"):
    for _s in SUF.values():
        KNOWN_TYPES[_n + _s] = "V3 R"


def decl_types(text):
    """C++ types of the locals declared in a block (the statement parser drops them)"""
    ty = {}
    for m in re.finditer(r"(?<![\w:])(?:const\s+)?(vec3|double)\s+(\w+)\s*[=({]", text):
        ty[X.leanid(m.group(2))] = "V3 R" if m.group(1) == "vec3" else "R"
    return ty


def lets(stmts, em, info, types=None):
    """straight-line statement list -> list of Lean `let` lines (state is threaded by shadowing)"""
    types = dict(KNOWN_TYPES, **(types or {}))

    def ann(n):
        if n not in types:
            raise TranslateError("type of %s unknown" % n)
        return "%s : %s" % (n, types[n])
    out = []
    for s in stmts:
        k = s[0]
        if k == "block":
            out += lets(s[1], em, info, types)
        elif k == "let":
            if s[2] is None:
                raise TranslateError("uninitialised local %s" % s[1])
            out.append("let %s := %s" % (ann(X.leanid(s[1])), em.expr(s[2])))
        elif k == "assign":
            tgt = s[1]
            if tgt[0] == "member" and tgt[2] == "kinetic_energy_":
                info["kinetic_energy_updates_skipped"] = info.get("kinetic_energy_updates_skipped", 0) + 1
                continue
            n = em.expr(tgt)
            if not is_ident(n):
                raise TranslateError("assignment target %r" % n)
            if s[2] == "=":
                out.append("let %s := %s" % (ann(n), em.expr(s[3])))
            else:
                out.append("let %s := (%s %s %s)" % (ann(n), n, s[2][0], em.expr(s[3])))
        elif k == "expr" and s[1][0] == "mcall" and s[1][2] in ("translate", "reset"):
            n = em.expr(s[1][1])
            if not is_ident(n):
                raise TranslateError("update target %r" % n)
            a = s[1][3]
            if s[1][2] == "translate":
                if len(a) != 1:
                    raise TranslateError("translate arity")
                out.append("let %s := (%s + %s)" % (ann(n), n, em.expr(a[0])))
            elif len(a) == 0:
                out.append("let %s := %s" % (ann(n), ZERO))
            elif len(a) == 1:
                out.append("let %s := %s" % (ann(n), em.expr(a[0])))
            else:
                raise TranslateError("reset arity")
        else:
            raise TranslateError("statement not in the straight-line subset: %r" % (s[:2],))
    return out


def fun(name, doc, params, ret, body_lines, result):
    t = "/-- %s -/\ndef %s %s : %s :=\n" % (doc, name, params, ret)
    for l in body_lines:
        t += "  " + l + "\n"
    return t + "  " + result + "\n\n"


N1 = "(n1_pos n1_mom n1_force : V3 R)"
N2 = "(n2_pos n2_mom n2_force : V3 R)"
T3 = "V3 R × V3 R × V3 R"


def parse(text):
    return X.parse_statements(strip_asserts(text))


def tlets(text, em, info, extra=""):
    """`extra`: text of the blocks executed before (their locals are visible)"""
    return lets(parse(text), em, info, decl_types(extra + "\n" + text))


USED_IF = r"if\s*\(\s*n1\s*\.\s*is_used\s*\(\s*\)\s*\)\s*\{"
LOCAL_ID = r"c1\s*->\s*get_local_id\s*\(\s*\)"
CMP = r"(?:<=|>=|==|!=|<|>)"


def config_text(src, cm, dm):
    t = preprocess(src, {"CONTACT_MODEL_INDEX": cm, "DYNAMIC_MODEL_INDEX": dm})
    params, body = X.find_function(t, FN)
    return body


def gen_cm0(body, dm, info):
    em = emitter()
    blk, _, _ = block_at(body, USED_IF, what="if(n1.is_used()){")
    take_bindings(body, [("c1 node mass", r"const\s+double\s+c1_node_mass\s*=\s*c1\s*->\s*get_node_mass\s*\(\s*\)\s*;")])
    ls = tlets(blk, em, info)
    return fun("node0%d" % dm, "CONTACT_MODEL_INDEX 0, DYNAMIC_MODEL_INDEX %d: body of `if(n1.is_used())`" % dm,
               "(dt damping c1_node_mass : R) " + N1, T3, ls, "(n1_pos, n1_mom, n1_force)")


def gen_cm1(body, dm, info):
    em = emitter()
    take_bindings(body, [("c1 node mass", r"const\s+double\s+c1_node_mass\s*=\s*c1\s*->\s*get_node_mass\s*\(\s*\)\s*;")])
    used, _, _ = block_at(body, USED_IF, what="if(n1.is_used()){")
    coupled, c0, c1 = block_at(used, r"if\s*\(\s*n1\s*\.\s*coupled_node_\s*\.\s*has_value\s*\(\s*\)\s*\)\s*\{", what="if(n1.coupled_node_.has_value()){")
    m = re.match(r"\s*else\s*\{", used[c1 + 1:])
    if not m:
        raise TranslateError("else branch of the coupling test not found")
    e0 = c1 + 1 + m.end() - 1
    single = used[e0 + 1:X.match_brace(used, e0)]
    if used[:c0].strip() or used[X.match_brace(used, e0) + 1:].strip():
        raise TranslateError("unexpected statements around the coupling test")
    pre = take_bindings(coupled[:re.search(r"if\s*\(", coupled).start()] if re.search(r"if\s*\(", coupled) else coupled,
                        [("coupled node", r"const\s+auto\s*\[\s*c2_id\s*,\s*n2_id\s*\]\s*=\s*n1\s*\.\s*coupled_node_\s*\.\s*value\s*\(\s*\)\s*;")])
    if pre.strip():
        raise TranslateError("unexpected statements before the ownership test: %r" % pre.strip()[:60])
    mo = re.search(r"if\s*\(\s*(" + LOCAL_ID + r"\s*" + CMP + r"\s*c2_id|c2_id\s*" + CMP + r"\s*" + LOCAL_ID + r")\s*\)\s*\{", coupled)
    if not mo:
        raise TranslateError("ownership test not found")
    j = X.match_brace(coupled, mo.end() - 1)
    if coupled[j + 1:].strip():
        raise TranslateError("unexpected statements after the ownership block")
    owns = em.expr(X.parse_expr(mo.group(1)))
    pair = strip_asserts(coupled[mo.end():j])
    pair = take_bindings(pair, [
        ("c2 = cell_lst[c2_id]", r"cell_ptr\s+c2\s*=\s*cell_lst\s*\[\s*c2_id\s*\]\s*;"),
        ("c2 node mass", r"const\s+double\s+c2_node_mass\s*=\s*c2\s*->\s*get_node_mass\s*\(\s*\)\s*;"),
        ("n2 = c2->node_lst_[n2_id]", r"node\s*&\s*n2\s*=\s*c2\s*->\s*node_lst_\s*\[\s*n2_id\s*\]\s*;"),
    ])
    t = fun("single1%d" % dm, "CONTACT_MODEL_INDEX 1, DYNAMIC_MODEL_INDEX %d: the `else` (uncoupled) branch" % dm,
            "(dt damping c1_node_mass : R) " + N1, T3, tlets(single, em, info), "(n1_pos, n1_mom, n1_force)")
    t += fun("pair1%d" % dm, "CONTACT_MODEL_INDEX 1, DYNAMIC_MODEL_INDEX %d: body of the ownership block (both nodes of the pair)" % dm,
             "(dt damping c1_node_mass c2_node_mass : R) " + N1 + " " + N2, "(" + T3 + ") × (" + T3 + ")",
             tlets(pair, em, info), "((n1_pos, n1_mom, n1_force), (n2_pos, n2_mom, n2_force))")
    return t, owns


LOOP = (r"for\s*\(\s*auto\s+it\s*=\s*n1\s*\.\s*coupled_nodes_map_\s*\.\s*begin\s*\(\s*\)\s*;\s*it\s*!=\s*n1\s*\.\s*coupled_nodes_map_"
        r"\s*\.\s*end\s*\(\s*\)\s*;\s*it\s*\+\+\s*\)\s*\{")
BIND2 = [
    ("c2_local_id = it->first", r"const\s+unsigned\s+c2_local_id\s*=\s*it\s*->\s*first\s*;"),
    ("n2_local_id = it->second.first", r"const\s+unsigned\s+n2_local_id\s*=\s*it\s*->\s*second\s*\.\s*first\s*;"),
    ("c2 = cell_lst[c2_local_id]", r"cell_ptr\s+c2\s*=\s*cell_lst\s*\[\s*c2_local_id\s*\]\s*;"),
    ("n2 = c2->node_lst_[n2_local_id]", r"node\s*&\s*n2\s*=\s*c2\s*->\s*node_lst_\s*\[\s*n2_local_id\s*\]\s*;"),
]


def gen_cm2(body, dm, info):
    em = emitter()
    mo = re.search(r"return\s+(" + LOCAL_ID + r"\s*" + CMP + r"\s*coupled_node_data\s*\.\s*first|coupled_node_data\s*\.\s*first\s*" + CMP + r"\s*" + LOCAL_ID + r")\s*;", body)
    if not mo:
        raise TranslateError("ownership test (all_of lambda) not found")
    owns = em.expr(X.parse_expr(mo.group(1)))
    mg = re.search(r"if\s*\(\s*c1_has_greatest_id\s*==\s*false\s*\)\s*\{\s*continue\s*;\s*\}", body)
    if not mg:
        raise TranslateError("`if(c1_has_greatest_id == false){continue;}` not found")
    B, b0, b1 = block_at(body, LOOP, mg.end(), "first loop over coupled_nodes_map_")
    D, d0, d1 = block_at(body, LOOP, b1, "second loop over coupled_nodes_map_")
    A = body[mg.end():b0]
    C = body[b1 + 1:d0]
    if not re.fullmatch(r"[\s}]*simulation_time_[^;]*;\s*", body[d1 + 1:]):
        raise TranslateError("unexpected statements after the second loop")
    B = take_bindings(strip_asserts(B), BIND2)
    D = take_bindings(strip_asserts(D), BIND2)
    accs = "(avg_force, avg_momentum, avg_node_mass)"
    TA = "V3 R × V3 R × R"
    la, lb, lc = (tlets(x, em, info) for x in (A, B, C))
    ld = tlets(D, em, info, C)
    t = fun("init2%d" % dm, "CONTACT_MODEL_INDEX 2, DYNAMIC_MODEL_INDEX %d: initialisation of the accumulators "
            "(the parameter avg_momentum is a placeholder, shadowed when the source declares it)" % dm,
            "(c1_node_mass : R) " + N1 + " (avg_momentum : V3 R)", TA, la, accs)
    t += fun("acc2%d" % dm, "body of the first loop over the coupled nodes", "(avg_force avg_momentum : V3 R) (avg_node_mass : R) " + N2 + " (c2_node_mass : R)",
             TA, lb, accs)
    common = "(dt damping : R) (nbc : Nat) (avg_force avg_momentum : V3 R) (avg_node_mass : R) " + N1
    t += fun("own2%d" % dm, "statements between the two loops: averages, update of n1", common, T3, lc, "(n1_pos, n1_mom, n1_force)")
    t += fun("partner2%d" % dm, "body of the second loop, executed in the environment left by the statements between the loops",
             common + " " + N2, T3, lc + ld, "(n2_pos, n2_mom, n2_force)")
    return t, owns


def gen_time(bodies):
    em = emitter()
    texts = set()
    for b in bodies:
        ms = re.findall(r"simulation_time_\s*[-+*/]?=[^;]*;", b)
        if len(ms) != 1:
            raise TranslateError("simulation_time_ is assigned %d times" % len(ms))
        if not b.rstrip().endswith(ms[0]):
            raise TranslateError("the time update is not the last statement")
        texts.add(re.sub(r"\s+", " ", ms[0]))
    if len(texts) != 1:
        raise TranslateError("time update differs between configurations")
    ls = lets(X.parse_statements(texts.pop()), em, {})
    return fun("timeStep", "`simulation_time_ += dt_` (last statement, every configuration)", "(simulation_time dt : R)", "R", ls, "simulation_time")


def gen_mass():
    s = translate.src("include/mesh/cell.hpp")
    em = X.Emitter(
        methods={"size": lambda o, a: o + "_size"},
        members={"mass_density_": lambda o: "mass_density"},
        ids={"volume_": "volume", "node_lst_": "node_lst", "free_node_queue_": "free_node_queue"},
        calls={"get_mass": lambda a: "(cellMass mass_density volume)", "get_nb_of_nodes": lambda a: "(lit nb : R)"})

    def ret(fn):
        _, b = X.find_function(s, fn)
        st = X.parse_statements(strip_asserts(b))
        if len(st) != 1 or st[0][0] != "ret":
            raise TranslateError("%s is not a single return" % fn)
        return em.expr(st[0][1])
    t = fun("cellMass", "`cell::get_mass`", "(mass_density volume : R)", "R", [], ret("get_mass"))
    t += fun("nbNodes", "`cell::get_nb_of_nodes` (size_t arithmetic; truncated subtraction only differs when the free queue is longer than the node list)",
             "(node_lst_size free_node_queue_size : Nat)", "Nat", [], ret("get_nb_of_nodes"))
    t += fun("nodeMass", "`cell::get_node_mass`", "(mass_density volume : R) (nb : Nat)", "R", [], ret("get_node_mass"))
    return t


def gen_types():
    """type ids whose class sets is_static_, and the type-id guard in front of every coupling creation"""
    init = translate.src("src/io/simulation_initializer.cpp")
    cases = re.findall(r"case\s+(\d+)\s*:\s*\{\s*c0\s*=\s*std::make_shared<\s*(\w+)\s*>", init)
    if len(cases) < 2:
        raise TranslateError("cell class dispatch not found in simulation_initializer.cpp")
    static_ids = []
    for tid, cls in cases:
        h = translate.src("include/mesh/cell_types/%s.hpp" % cls)
        if re.search(r"is_static_\s*=\s*true", h):
            static_ids.append(int(tid))
    base = translate.src("include/mesh/cell.hpp")
    if not re.search(r"bool\s+is_static_\s*=\s*false\s*;", base):
        raise TranslateError("cell::is_static_ does not default to false")
    guards = {}
    for f in ("contact_node_node_via_coupling", "contact_face_face_via_coupling"):
        s = translate.src("src/contact_models/%s.cpp" % f)
        calls = [m.start() for m in re.finditer(r"\.\s*set_coupled_node_and_min_distance\s*\(|->\s*set_coupled_node_and_min_distance\s*\(", s)]
        if not calls:
            raise TranslateError("no coupling creation in %s" % f)
        gs = [m for m in re.finditer(r"if\s*\(\s*c1\s*->\s*get_cell_type_id\s*\(\s*\)\s*==\s*(\d+)\s*&&\s*c2\s*->\s*get_cell_type_id\s*\(\s*\)\s*==\s*(\d+)\s*\)\s*\{", s)]
        ok = None
        for g in gs:
            j = X.match_brace(s, g.end() - 1)
            if all(g.end() < c < j for c in calls):
                ok = (int(g.group(1)), int(g.group(2)))
        if ok is None:
            raise TranslateError("coupling creation in %s is not enclosed in a type-id guard" % f)
        guards[f] = ok
        # couplings are written nowhere else (apart from being cleared)
    t = "/-- global type ids whose class constructor sets `is_static_ = true` (simulation_initializer.cpp dispatch) -/\n"
    t += "def staticTypeIds : List Nat := %s\n\n" % str(sorted(static_ids))
    t += "/-- all type ids of the dispatch -/\ndef knownTypeIds : List Nat := %s\n\n" % str(sorted(int(a) for a, _ in cases))
    t += "/-- `(t1, t2)` such that couplings are only created under `c1 type == t1 && c2 type == t2`: node-node model, face-face model -/\n"
    t += "def couplingGuards : List (Nat × Nat) := [(%d, %d), (%d, %d)]\n\n" % (guards["contact_node_node_via_coupling"] + guards["contact_face_face_via_coupling"])
    return t, {"static_type_ids": sorted(static_ids), "coupling_guards": guards}


@translate.generator("Integrator")
def gen_integrator():
    src = translate.src(REL)
    info = {}
    body = ""
    bodies = []
    owns1, owns2 = set(), set()
    for dm in (0, 1):
        b = config_text(src, 0, dm); bodies.append(b)
        body += gen_cm0(b, dm, info)
    for dm in (0, 1):
        b = config_text(src, 1, dm); bodies.append(b)
        t, o = gen_cm1(b, dm, info)
        body += t; owns1.add(o)
    for dm in (0, 1):
        b = config_text(src, 2, dm); bodies.append(b)
        t, o = gen_cm2(b, dm, info)
        body += t; owns2.add(o)
    if len(owns1) != 1 or len(owns2) != 1:
        raise TranslateError("ownership test differs between dynamic models")
    body += "/-- CONTACT_MODEL_INDEX 1: `c1->get_local_id() > c2_id` -/\ndef owns1 (c1_local_id c2_id : Nat) : Bool := decide %s\n\n" % owns1.pop()
    body += "/-- CONTACT_MODEL_INDEX 2: the all_of predicate `c1->get_local_id() > coupled_node_data.first` -/\ndef owns2 (c1_local_id key : Nat) : Bool := decide %s\n\n" % owns2.pop()
    body += gen_time(bodies)
    body += gen_mass()
    tt, ti = gen_types()
    body += tt
    info.update(ti)
    info.update({"function": FN, "configurations": 6, "definitions": len(re.findall(r"^def ", body, flags=re.M))})
    return translate.emit("Integrator", REL, body, info)
