"""Generator for C01/C11: the numeric constants of local_mesh_refiner (momentum fractions of
split_edge, midpoint factor, q_min_, triangle_score_min_) as Lean terms."""
import re
import translate as T
import cxx2lean as X


def _expr(em, text):
    return em.expr(X.parse_expr(text))


@T.generator("RemeshConsts")
def gen_remesh_consts():
    rel = "src/triangulation_modules/local_mesh_refiner.cpp"
    s = T.src(rel)
    _, body = X.find_function(s, "local_mesh_refiner::split_edge")
    _, mbody = X.find_function(s, "local_mesh_refiner::merge_edge")
    hdr = T.src("include/triangulation_modules/local_mesh_refiner.hpp")
    em = X.Emitter()
    m_mid = re.search(r"n_e_pos\s*=\s*\(\s*n_b\.pos\(\)\s*\+\s*n_a\.pos\(\)\s*\)\s*\*\s*([^;]+);", body)
    m_keep_a = re.search(r"n_a\.set_momentum\(\s*n_a_momentum\s*\*\s*([^;]+)\)\s*;", body)
    m_keep_b = re.search(r"n_b\.set_momentum\(\s*n_b_momentum\s*\*\s*([^;]+)\)\s*;", body)
    m_give = re.search(r"n_e\.set_momentum\(\s*\(\s*n_a_momentum\s*\+\s*n_b_momentum\s*\)\s*/\s*([^;]+)\)\s*;", body)
    m_mmid = re.search(r"n_i_pos\s*=\s*\(\s*n_b\.pos\(\)\s*\+\s*n_a\.pos\(\)\s*\)\s*\*\s*([^;]+);", mbody)
    m_msum = re.search(r"n_i_momentum\s*=\s*n_a\.momentum\(\)\s*\+\s*n_b\.momentum\(\)\s*;", mbody)
    m_q = re.search(r"q_min_\s*=\s*([^;]+);", hdr)
    m_s = re.search(r"triangle_score_min_\s*=\s*([^;]+);", hdr)
    for nm, m in (("midpoint", m_mid), ("keep_a", m_keep_a), ("keep_b", m_keep_b), ("give", m_give),
                  ("merge midpoint", m_mmid), ("merge momentum sum", m_msum), ("q_min_", m_q), ("triangle_score_min_", m_s)):
        if not m:
            raise X.TranslateError("split/merge statement not recognised: %s" % nm)
    if m_keep_a.group(1).strip() != m_keep_b.group(1).strip():
        raise X.TranslateError("nodes a and b keep different momentum fractions")
    if m_mid.group(1).strip() != m_mmid.group(1).strip():
        raise X.TranslateError("split and merge use different midpoint factors")
    keep = _expr(em, m_keep_a.group(1))
    give = _expr(em, m_give.group(1))
    mid = _expr(em, m_mid.group(1))
    q = _expr(em, m_q.group(1))
    sm = _expr(em, m_s.group(1))
    lean = "/-- the momentum fractions and the midpoint factor of `split_edge` / `merge_edge`, as written in the source -/\n"
    lean += "def splitConsts : Remesh.SplitConsts R := { keep := %s, giveDiv := %s, mid := %s }\n" % (keep, give, mid)
    lean += "/-- `q_min_` and `triangle_score_min_` of local_mesh_refiner.hpp -/\n"
    lean += "def refineConsts (fn : Fn R) : Remesh.RefineConsts R := { split := splitConsts, qmin := %s, scoreMin := %s }\n" % (q, sm)
    text_hdr = T.HEADER.replace("import SimuVerif.Model.Vec", "import SimuVerif.Model.Remesh")
    origin = rel
    text = text_hdr % (origin, X.SCALAR_VARS) + lean + "\nend Simu.Gen\n"
    import os, hashlib
    changed = T.write_if_changed(os.path.join(T.GEN, "RemeshConsts.lean"), text)
    return {"file": "Gen/RemeshConsts.lean", "origin": origin, "rewritten": changed,
            "keep": m_keep_a.group(1).strip(), "give_div": m_give.group(1).strip(), "mid": m_mid.group(1).strip(),
            "q_min": m_q.group(1).strip(), "score_min": m_s.group(1).strip(),
            "sha256": hashlib.sha256(text.encode()).hexdigest()[:16]}
