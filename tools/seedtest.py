#!/usr/bin/env python3
"""Coordinator tool: verify a candidate seeded change and run the checks against it.
  seedtest.py <dir with patch.diff, run.sh, demo.cpp, meta.txt> <seed name> <pid> [<pid> ...]
1. in the scratch worktree /tmp/seedchk (created on first use, incremental cmake build): the patch applies, compiles, all 126 tests pass;
   the demonstration exits 0 on the clean tree and non-zero with the patch;
2. in /repo: apply, run the quick checks of the given properties, undo;
3. store /verif/seeded/<seed name>/ (patch.diff, demonstration, meta.json) when step 1 holds."""
import sys, os, subprocess, json, shutil, time

REPO = "/repo"
WT = os.environ.get("SEEDCHK", "/tmp/seedchk")


def sh(cmd, timeout=None, **kw):
    """like subprocess.run(shell=True, capture_output=True) but a timeout kills the whole process group (checks start harnesses)"""
    import signal
    p = subprocess.Popen(cmd, shell=True, stdout=subprocess.PIPE, stderr=subprocess.PIPE, text=True, start_new_session=True, **kw)
    try:
        out, err = p.communicate(timeout=timeout)
    except subprocess.TimeoutExpired:
        try:
            os.killpg(p.pid, signal.SIGKILL)
        except OSError:
            pass
        out, err = p.communicate()
        return subprocess.CompletedProcess(cmd, -9, out, (err or "") + "\n[seedtest] killed after %s s" % timeout)
    return subprocess.CompletedProcess(cmd, p.returncode, out, err)


def ensure_wt():
    head = sh("git -C %s rev-parse HEAD" % REPO).stdout.strip()
    if os.path.isdir(WT):
        cur = sh("git -C %s rev-parse HEAD" % WT).stdout.strip()
        sh("git -C %s checkout -- ." % WT)
        if cur != head:
            sh("git -C %s checkout -q --detach %s" % (WT, head))
    else:
        sh("git -C %s worktree add --detach -q %s HEAD" % (REPO, WT))
    if not os.path.isdir(WT + "/_b"):
        sh("cmake -S %s -B %s/_b -G Ninja -DCMAKE_BUILD_TYPE=RelWithDebInfo" % (WT, WT))


def build_and_test():
    b = sh("cmake --build %s/_b -j16 2>&1 | tail -3" % WT)
    t = sh("ctest --test-dir %s/_b -j8 --timeout 900 2>&1 | tail -4" % WT)
    ok = "100% tests passed, 0 tests failed out of 126" in t.stdout
    return ok, (b.stdout + t.stdout)[-600:]


def main():
    d, name, pids = sys.argv[1], sys.argv[2], sys.argv[3:]
    patch = os.path.join(d, "patch.diff")
    res = {"seed": name, "dir": d}
    ensure_wt()
    # demonstration on the clean tree
    run = os.path.join(d, "run.sh")
    if os.path.exists(run):
        r0 = sh("bash %s %s" % (run, WT), timeout=1800)
        res["demo_clean_rc"] = r0.returncode
    ap = sh("git -C %s apply %s" % (WT, patch))
    res["applies"] = ap.returncode == 0
    if not res["applies"]:
        res["apply_err"] = ap.stderr[-300:]
        print(json.dumps(res, indent=1)); return
    ok, log = build_and_test()
    res["builds_and_126_pass"] = ok
    if not ok:
        res["build_log"] = log
    if os.path.exists(run):
        r1 = sh("bash %s %s" % (run, WT), timeout=1800)
        res["demo_mutated_rc"] = r1.returncode
        res["demo_mutated_out"] = (r1.stdout + r1.stderr)[-400:]
    CLONE = os.environ.get("SEED_VERIF")       # a private copy of /verif: the checks run there against the patched scratch worktree, /repo and /verif stay untouched
    if not CLONE:
        sh("git -C %s checkout -- ." % WT)
    confirmed = res.get("builds_and_126_pass") and res.get("demo_clean_rc") == 0 and res.get("demo_mutated_rc", 0) != 0
    res["confirmed"] = bool(confirmed)
    if CLONE:
        res["checks"] = {}
        try:
            for pid in pids:
                t = time.time()
                c = sh("cd %s && VERIF_REPO=%s python3 tools/check.py %s --tier quick" % (CLONE, WT, pid), timeout=3600)
                lines = [l[:260] for l in c.stdout.splitlines() if l.startswith(("VIOLATION", "KNOWN-FINDING"))]
                kinds, what = [], []
                for l in lines:
                    if l.startswith("VIOLATION"):
                        kinds.append("no-failing-input-found" if "no-failing-input-found" in l else "failing-input")
                        if "replay=" in l:
                            rp = l.split("replay=")[1].split()[0]
                            try:
                                dd = json.load(open(rp))
                                fi = dd.get("failing_input")
                                what.append(fi["what"][:200] if fi else "; ".join(b["what"][:120] for b in dd.get("no_longer_checks", [])[:2]))
                            except Exception:
                                pass
                res["checks"][pid] = {"rc": c.returncode, "violations": kinds, "what": what[:3], "wall": round(time.time() - t, 1)}
        finally:
            sh("git -C %s checkout -- ." % WT)
        store(d, name, pids, res, confirmed)
        print(json.dumps(res, indent=1))
        return
    # the checks (the evidence files of the clean tree are put back afterwards: evidence is only ever committed from clean runs)
    res["checks"] = {}
    import tempfile
    evbak = tempfile.mkdtemp(prefix="evbak_")
    for pid in pids:
        ef = "/verif/evidence/%s.json" % pid
        if os.path.exists(ef):
            shutil.copy(ef, evbak)
    if sh("git -C %s status --porcelain --untracked-files=no" % REPO).stdout.strip():
        print("REPO is dirty; refusing"); sys.exit(2)
    try:
        a = sh("git -C %s apply %s" % (REPO, patch))
        if a.returncode != 0:
            res["repo_apply_err"] = a.stderr[-300:]
        else:
            for pid in pids:
                t = time.time()
                c = sh("cd /verif && python3 tools/check.py %s --tier quick" % pid, timeout=3600)
                lines = [l[:260] for l in c.stdout.splitlines() if l.startswith(("VIOLATION", "KNOWN-FINDING"))]
                kinds = []
                for l in lines:
                    if l.startswith("VIOLATION"):
                        kinds.append("no-failing-input-found" if "no-failing-input-found" in l else "failing-input")
                what = []
                for l in lines:
                    if l.startswith("VIOLATION") and "replay=" in l:
                        rp = l.split("replay=")[1].split()[0]
                        try:
                            dd = json.load(open(rp))
                            fi = dd.get("failing_input")
                            what.append(fi["what"][:200] if fi else "; ".join(b["what"][:120] for b in dd.get("no_longer_checks", [])[:2]))
                        except Exception:
                            pass
                res["checks"][pid] = {"rc": c.returncode, "violations": kinds, "what": what[:3], "wall": round(time.time() - t, 1)}
    finally:
        sh("git -C %s checkout -- ." % REPO)
        for f in os.listdir(evbak):
            shutil.copy(os.path.join(evbak, f), "/verif/evidence/" + f)
        shutil.rmtree(evbak, ignore_errors=True)
        sh("cd /verif && python3 tools/translate.py > /dev/null")
    store(d, name, pids, res, confirmed)
    print(json.dumps(res, indent=1))


def store(d, name, pids, res, confirmed):
    out = os.path.join("/verif/seeded", name)
    if confirmed:
        os.makedirs(out, exist_ok=True)
        for f in os.listdir(d):
            if os.path.isfile(os.path.join(d, f)):
                shutil.copy(os.path.join(d, f), os.path.join(out, f))
        meta = {"property": pids[0] if pids else None, "origin": "independent sub-agent given only the property text and a scratch worktree",
                "description": open(os.path.join(d, "meta.txt")).read()[:3000] if os.path.exists(os.path.join(d, "meta.txt")) else "",
                "confirmed": {"applies": True, "compiles_and_126_tests_pass": True, "demo_clean_rc": res["demo_clean_rc"], "demo_mutated_rc": res["demo_mutated_rc"]},
                "checks_run": res["checks"],
                "detected_by": [p for p, v in res["checks"].items() if v["rc"] != 0]}
        json.dump(meta, open(os.path.join(out, "meta.json"), "w"), indent=1)


if __name__ == "__main__":
    main()
