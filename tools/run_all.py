#!/usr/bin/env python3
"""run every claimed quick (or thorough) check on the current tree and summarise"""
import json, subprocess, sys, time, os
tier = sys.argv[1] if len(sys.argv) > 1 else "quick"
m = json.load(open("/verif/MANIFEST.json"))
bad = 0
for c in m["checks"]:
    cmd = c["quick_cmd"] if tier == "quick" else c.get("thorough_cmd", c["quick_cmd"])
    t = time.time()
    p = subprocess.run(cmd, shell=True, cwd="/verif", capture_output=True, text=True)
    v = [l[:120] for l in p.stdout.splitlines() if l.startswith(("VIOLATION", "KNOWN-FINDING"))]
    try:
        e = json.load(open(os.path.join("/verif", c["evidence_file"])))
        cov = e["coverage"]
        ev = "%s/%s" % (cov.get("discharged"), cov.get("obligations"))
    except Exception as ex:
        ev = "evidence? %s" % ex
    print("%s rc=%d %5.1fs theorems %s %s" % (c["property_id"], p.returncode, time.time() - t, ev, v), flush=True)
    bad += p.returncode != 0
sys.exit(1 if bad else 0)
