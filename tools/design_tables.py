#!/usr/bin/env python3
"""(re)generate the machine-derived tables of DESIGN.md: repaired defects / known findings, seeded changes and which
checks catch them, and the per-property status."""
import json, os, glob, re, subprocess
V = "/verif"
kf = json.load(open(V + "/known_findings.json"))
out = []
out.append("### 7.1 Genuine defects repaired in /repo (one `fix:` commit each; `known_findings.json` → `fixed`)\n")
out.append("| # | property | commit | what failed |\n|---|---|---|---|")
for i, l in enumerate(kf["fixed"], 1):
    m = re.match(r"fixed: property=(C\d+) (\w+) (.*)", l)
    out.append("| %d | %s | `%s` | %s |" % (i, m.group(1), m.group(2), m.group(3).replace("|", "\\|")))
out.append("\n### 7.2 Known findings recorded, not repaired (`known_findings.json` → `findings`; the check prints KNOWN-FINDING and exits 0)\n")
out.append("| property | key | what fails | why not repaired |\n|---|---|---|---|")
for f in kf["findings"]:
    w = f["what"]
    out.append("| %s | `%s` | %s | by design / policy decision, see text |" % (f["property"], f["key"], w.replace("|", "\\|")[:400]))
out.append("\n### 7.3 Seeded changes (`seeded/<name>/`: patch.diff, demonstration, meta.json) and the checks that catch them\n")
out.append("`reverse of fix` = the original defective code; `agent-*` = written by an independent sub-agent that saw only the property text and a scratch worktree. "
           "`input` = VIOLATION with a concrete failing input; `tie` = VIOLATION … no-failing-input-found (a theorem or the correspondence no longer checks).\n")
out.append("| seed | property | what it breaks / what it needs | caught by |\n|---|---|---|---|")
for d in sorted(glob.glob(V + "/seeded/*")):
    name = os.path.basename(d)
    mp = os.path.join(d, "meta.json")
    if not os.path.exists(mp):
        continue
    m = json.load(open(mp))
    desc = m.get("breaks") or m.get("description", "")
    desc = re.sub(r"\s+", " ", desc)[:260].replace("|", "\\|")
    caught = []
    if "checks_run" in m:
        for p, v in m["checks_run"].items():
            if v["rc"] != 0:
                kinds = set(v["violations"])
                caught.append("%s (%s)" % (p, "input" if "failing-input" in kinds else "tie"))
            else:
                caught.append("%s (not caught)" % p)
    else:
        caught = m.get("detected_by", [])
    out.append("| %s | %s | %s | %s |" % (name, m.get("property"), desc, ", ".join(caught)))
open(V + "/notes/DESIGN_tables.md", "w").write("\n".join(out) + "\n")
print("\n".join(out)[:3000])
