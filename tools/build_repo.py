#!/usr/bin/env python3
"""Compile /repo's translation units straight from the current working tree (no CMake) into an
object cache keyed by the SHA-256 of the preprocessed source + flags, and link harness drivers.

Every check calls this, so a check always reflects what /repo says *now*; an unchanged
translation unit is never recompiled.
"""
import hashlib, os, subprocess, sys, glob, json, time
from concurrent.futures import ThreadPoolExecutor

REPO = os.environ.get("VERIF_REPO", "/repo")
VERIF = os.path.dirname(os.path.dirname(os.path.abspath(__file__)))
CACHE = os.path.join(VERIF, ".cache", "obj")
GUARD = "SIMUCELL3D_VERIF"

INC_DIRS = [
    "include", "include/math_modules", "include/mesh", "include/io", "include/uspg",
    "include/time_integration", "include/mesh/cell_types", "include/triangulation_modules",
    "include/contact_models", "include/automatic_polarization", "lib/tinyxml2",
    "lib/delaunator/include",
]

SAN_FLAGS = {
    # _GLIBCXX_ASSERTIONS: every precondition of the standard containers the code relies on (operator[] within size(), front()/back() on a
    # non-empty container, valid iterator ranges) is checked and aborts; _GLIBCXX_SANITIZE_VECTOR: ASan also poisons the part of a vector
    # between size() and capacity() — an index that is stale by one after a compaction stays inside the allocation and is invisible otherwise
    "asan": ["-fsanitize=address,undefined", "-fno-sanitize-recover=all", "-fno-omit-frame-pointer", "-D_GLIBCXX_ASSERTIONS", "-D_GLIBCXX_SANITIZE_VECTOR"],
    "tsan": ["-fsanitize=thread", "-fno-omit-frame-pointer"],
    "none": [],
}


def sources():
    srcs = sorted(glob.glob(os.path.join(REPO, "src", "*", "*.cpp")))
    srcs = [s for s in srcs if "python_bindings" not in s]
    srcs.append(os.path.join(REPO, "src", "solver.cpp"))
    srcs.append(os.path.join(REPO, "lib", "tinyxml2", "tinyxml2.cpp"))
    return srcs


def base_flags(defines=None, san="asan", ndebug=True, opt="-O1", hooks=True, extra=None):
    fl = ["-std=gnu++17", opt, "-g", "-fopenmp", "-ffp-contract=off", "-w",
          '-DPROJECT_SOURCE_DIR="%s"' % REPO]
    if ndebug:
        fl.append("-DNDEBUG")
    if hooks:
        fl.append("-D" + GUARD)
    for k, v in sorted((defines or {}).items()):
        fl.append("-D%s=%s" % (k, v) if v is not None else "-D%s" % k)
    fl += SAN_FLAGS[san]
    fl += ["-I" + os.path.join(REPO, d) for d in INC_DIRS]
    fl += list(extra or [])
    return fl


def _compile_one(src, flags, extra_inc=()):
    """returns (object path, was_cached)"""
    cmd_pp = ["g++", "-E", "-P"] + flags + list(extra_inc) + [src]
    pp = subprocess.run(cmd_pp, capture_output=True)
    if pp.returncode != 0:
        raise RuntimeError("preprocess failed: %s\n%s" % (src, pp.stderr.decode()[-4000:]))
    h = hashlib.sha256()
    h.update(pp.stdout)
    h.update("\0".join(f for f in flags if not f.startswith("-I")).encode())
    key = h.hexdigest()[:32]
    os.makedirs(CACHE, exist_ok=True)
    obj = os.path.join(CACHE, key + ".o")
    if os.path.exists(obj):
        return obj, True
    tmp = obj + ".%d.tmp" % os.getpid()
    cc = subprocess.run(["g++", "-c"] + flags + list(extra_inc) + [src, "-o", tmp], capture_output=True)
    if cc.returncode != 0:
        raise RuntimeError("compile failed: %s\n%s" % (src, cc.stderr.decode()[-6000:]))
    os.replace(tmp, obj)
    return obj, False


def build_objects(defines=None, san="asan", ndebug=True, opt="-O1", hooks=True, jobs=16):
    flags = base_flags(defines, san, ndebug, opt, hooks)
    srcs = sources()
    with ThreadPoolExecutor(max_workers=jobs) as ex:
        res = list(ex.map(lambda s: _compile_one(s, flags), srcs))
    return [r[0] for r in res], sum(1 for r in res if not r[1])


def build_harness(harness_cpp, out_name, defines=None, san="asan", ndebug=True, opt="-O1",
                  hooks=True, link_repo=True, extra_srcs=()):
    """compile a harness driver (under /verif/harness) against /repo and link it with the repo
    objects; returns path of the executable.  Everything is cached by content."""
    flags = base_flags(defines, san, ndebug, opt, hooks)
    inc = ["-I" + os.path.join(VERIF, "harness")]
    objs = []
    rebuilt = 0
    if link_repo:
        o, rebuilt = build_objects(defines, san, ndebug, opt, hooks)
        objs += o
    hobjs = []
    for s in [harness_cpp] + list(extra_srcs):
        ho, c = _compile_one(s, flags, inc)
        hobjs.append(ho)
    h = hashlib.sha256("\0".join(sorted(objs) + hobjs + [san]).encode()).hexdigest()[:24]
    bindir = os.path.join(VERIF, ".cache", "bin")
    os.makedirs(bindir, exist_ok=True)
    exe = os.path.join(bindir, "%s-%s" % (out_name, h))
    if not os.path.exists(exe):
        tmp = exe + ".%d.tmp" % os.getpid()
        cmd = ["g++", "-fopenmp"] + SAN_FLAGS[san] + hobjs + objs + ["-o", tmp]
        ln = subprocess.run(cmd, capture_output=True)
        if ln.returncode != 0:
            raise RuntimeError("link failed: %s\n%s" % (harness_cpp, ln.stderr.decode()[-6000:]))
        os.replace(tmp, exe)
    return exe, rebuilt


def prune_cache(max_bytes=6 << 30):
    """keep the cache bounded: drop least-recently-used files above max_bytes"""
    files = []
    for d in ("obj", "bin"):
        p = os.path.join(VERIF, ".cache", d)
        if os.path.isdir(p):
            for f in os.listdir(p):
                fp = os.path.join(p, f)
                try:
                    st = os.stat(fp)
                    files.append((st.st_atime, st.st_size, fp))
                except OSError:
                    pass
    tot = sum(f[1] for f in files)
    for at, sz, fp in sorted(files):
        if tot <= max_bytes:
            break
        try:
            os.remove(fp)
            tot -= sz
        except OSError:
            pass


if __name__ == "__main__":
    import argparse
    ap = argparse.ArgumentParser()
    ap.add_argument("--san", default="asan")
    ap.add_argument("--cm", type=int, default=None)
    ap.add_argument("--dm", type=int, default=None)
    ap.add_argument("--no-ndebug", action="store_true")
    a = ap.parse_args()
    d = {}
    if a.cm is not None:
        d["SIMUCELL3D_VERIF_CM"] = a.cm
    if a.dm is not None:
        d["SIMUCELL3D_VERIF_DM"] = a.dm
    t = time.time()
    objs, n = build_objects(d, a.san, not a.no_ndebug)
    print("objects=%d rebuilt=%d wall=%.1fs" % (len(objs), n, time.time() - t))
