"""C09 — cell division yields two valid daughters or leaves the mother untouched.
Model: Model/Division.lean (stage-by-stage mirror of cell_divider) over Gen/Division.lean (the straight-line arithmetic,
index tables, windings, id assignment and target volumes regenerated from the C++ text on every run).
Theorems: Properties/C09.lean.  Tie: (a) stage-wise differential run of the real public static stages against the model
(bit patterns), with the opaque stage (Poisson sampling + Delaunay) recorded and fed to both sides; (b) the real
cell_divider::divide_cell / run end to end on relaxed rounded cells, judged by an independent oracle on the result;
the bookkeeping of run is replayed on the model from the observed outcome of every attempt."""
import os, sys, time, json, math
import vlib
from vlib import Rng, fhex, unhex
import c09_util as U

PID = "C09"
NAMESPACE = "Simu.C09"
THEOREMS = [
    "daughters_closed", "daughters_closed_of_glue", "daughters_inv", "daughters_volume", "computed_volume_is_signed_volume",
    "daughters_volume_computed", "daughters_shape",
    "add_point_he", "add_point_pair_closed", "add_point_nodes", "divide5_he", "divide_faces_preserves_surface",
    "divide_faces_nodes", "cut_volume_caseA", "cut_volume_caseB", "side_partition", "target_halved", "type_preserved",
    "ids_fresh", "ids_fresh_round", "counter_advance", "quat_matrix_orthogonal", "quat_matrix_orthogonal_cols",
    "plane_normal_nonneg", "plane_normal_same_plane", "quat_never_singular", "quat_maps_normal", "rotation_maps_plane", "rotation_sign_independent",
    "quat_maps_normal_raw", "quat_norm_zero_iff", "quat_degenerate", "map_roundtrip", "identity_case_sound",
    "rank_injOn", "rebase_inv", "failure_leaves_population", "round_survivors", "run_events_as_modelled",
    "stage_order_as_modelled", "face_side_spec", "edge_plane_on_plane", "edge_plane_on_segment", "nonvacuous",
]
GEN = ["Division", "RemeshConsts"]

KNOWN_KEYS = {"delaunator": "delaunator-degenerate-input", "hang": "division-does-not-return"}


def hexv(v):
    return " ".join(fhex(x) for x in v)


def is_hex16(t):
    return len(t) == 16 and all(c in "0123456789abcdef" for c in t)


def close_tokens(a, b, abs_tol):
    """token-wise comparison: identical, or both doubles within 16 ulps + abs_tol"""
    wa, wb = a.split(), b.split()
    if len(wa) != len(wb):
        return False, False
    ident = True
    for x, y in zip(wa, wb):
        if x == y:
            continue
        ident = False
        if is_hex16(x) and is_hex16(y) and vlib.close(unhex(x), unhex(y), 16, abs_tol):
            continue
        return False, False
    return True, ident


# ---------------------------------------------------------------------------------------------------------
class Runner:
    """sends request lines, keeps the context needed by the oracles, collects failures / disagreements"""

    def __init__(self, S):
        self.S = S
        self.failures = []        # dict(what, replay, key)
        self.disagree = []        # dict(line, where, replay)
        self.hyp_bad = []         # hypotheses of theorems violated on an executed instance although the code went on
        self.stats = {}
        self.bit_identical = 0
        self.compared = 0
        self.devs = []
        self.minus_z = {}         # what the real divide_cell does with the axis exactly -z / next to -z (corpus c, d): recorded, both outcomes allowed
        self.reset()

    def reset(self):
        self.S.new_history()
        self.state = None; self.p = None; self.n = None; self.thr = None; self.fthr = None
        self.nodes_hi = None; self.faces = None; self.scale = 1.0; self.dkind = None; self.lmin = None
        self.iface_pts = None
        self.akind = None

    def count(self, k, n=1):
        self.stats[k] = self.stats.get(k, 0) + n

    def fail(self, what, key=None):
        self.failures.append({"what": what, "replay": list(self.S.trace), "key": key})

    def crash(self):
        c = self.S.crashed
        key = None
        if c.get("hang"):
            key = KNOWN_KEYS["hang"]
        elif "delaunator" in c["stderr"]:
            key = KNOWN_KEYS["delaunator"]
        self.failures.append({"what": "real code ended abnormally on '%s' (rc=%s): %s" % (c["line"][:80], c["rc"], c["stderr"][-700:]),
                              "replay": c["replay"], "key": key, "crash": True})
        self.S.restart_impl()

    # ---- one request
    def do(self, line):
        w = line.split()
        op = w[0]
        if op in U.OPAQUE:
            a = self.S.impl(line)
            if a is None:
                self.crash(); return None
            self.after_impl(op, w, a)
            return a
        a, b = self.S.both(line)
        if a is None:
            self.crash(); return None
        bb = b
        extra = ""
        if op == "divfaces" and " wf " in b:
            bb, extra = b.split(" wf ")
        if op == "daughters":
            parts = b.split(" || ")
            if parts[-1].startswith("iface"):
                extra = parts[-1]; bb = " || ".join(parts[:-1])
        if op == "note":
            self.note(w)
            return a
        if op == "plane":
            self.p = [unhex(z) for z in w[1:4]]; self.n = [unhex(z) for z in w[4:7]]
        if op in ("n", "t", "cell", "plane", "mesh", "setD", "init"):
            if a != bb:
                self.disagree.append({"line": line[:200], "where": "impl=%s model=%s" % (a[:80], bb[:80]), "replay": list(self.S.trace)})
            return a
        self.compare(op, line, a, bb)
        self.after_both(op, w, a, bb, extra)
        return a

    def note(self, w):
        """annotations travel inside the request list so that a replay re-creates the context of the oracles"""
        if w[1] == "scale":
            self.scale = unhex(w[2])
        elif w[1] == "dkind":
            self.dkind = w[2]
        elif w[1] == "plane":
            self.p = [unhex(z) for z in w[2:5]]; self.n = [unhex(z) for z in w[5:8]]
        elif w[1] == "popinfo":
            self.round_info = [{"id": int(x.split(":")[0]), "ready": x.split(":")[1] == "1", "tv": unhex(x.split(":")[2])} for x in w[2:]]

    def compare(self, op, line, a, bb):
        self.compared += 1
        if op == "daughters":
            ok = self.compare_daughters(a, bb)
            if ok is not True:
                self.disagree.append({"line": line, "where": ok, "replay": list(self.S.trace)})
            return
        ok, ident = close_tokens(a, bb, 1e-13 * self.scale)
        if ident:
            self.bit_identical += 1
        if not ok:
            self.disagree.append({"line": line[:200], "where": U.first_diff(a, bb), "replay": list(self.S.trace)})

    def compare_daughters(self, a, bb):
        if a.startswith("err") or bb.startswith("err"):
            if a.split()[:2] == bb.split()[:2]:
                self.bit_identical += 1
                return True
            return "impl=%s model=%s" % (a[:60], bb[:60])
        try:
            ia = [U.parse_daughter(s.split(" ", 2)[2] if k == 0 else s.split(" ", 1)[1]) for k, s in enumerate(a.split(" || "))]
            ib = [U.parse_daughter(s.split(" ", 2)[2] if k == 0 else s.split(" ", 1)[1]) for k, s in enumerate(bb.split(" || "))]
        except Exception as e:
            return "unparseable daughters answer (%s)" % e
        for k in range(2):
            x, y = ia[k], ib[k]
            if x["used"] != y["used"] or x["fn"] != y["fn"] or x["ff"] != y["ff"]:
                return "daughter %d: used flags / free queues differ" % (k + 1)
            if y["kv"].get("reoriented") == "true":
                self.count("daughters_reoriented_by_code")
                if sorted(tuple(sorted(t)) for t in x["faces"]) != sorted(tuple(sorted(t)) for t in y["faces"]):
                    return "daughter %d: face sets differ" % (k + 1)
            elif abs(unhex(x["kv"]["vol"])) < 1e-9 * self.scale ** 3:
                # the sign of a volume that is zero up to rounding decides nothing: compare up to winding
                self.count("daughters_zero_volume")
                if sorted(tuple(sorted(t)) for t in x["faces"]) != sorted(tuple(sorted(t)) for t in y["faces"]):
                    return "daughter %d: face sets differ" % (k + 1)
                continue
            elif x["faces"] != y["faces"]:
                d = [i for i in range(min(len(x["faces"]), len(y["faces"]))) if x["faces"][i] != y["faces"][i]][:1]
                return "daughter %d: face lists differ at %s: impl=%s model=%s" % (k + 1, d, [x["faces"][i] for i in d], [y["faces"][i] for i in d])
            v = unhex(x["kv"]["vol"]); v6 = unhex(y["kv"]["vol6"])
            if y["kv"].get("reoriented") != "true" and v != 0:
                self.stats["volume_model_vs_impl_worst_rel"] = max(self.stats.get("volume_model_vs_impl_worst_rel", 0.0), abs(v - v6 / 6.0) / abs(v))
            if y["kv"].get("reoriented") != "true" and not vlib.close(v, v6 / 6.0, 64, 1e-12 * abs(v)):   # measured 4.5e-16 (different order of the six products); was 1e-9 while the sums were un-centred
                return "daughter %d: volume impl=%r model=%r" % (k + 1, v, v6 / 6.0)
        self.bit_identical += 1
        return True

    # ---- context + oracles
    def after_impl(self, op, w, a):
        if op == "tri":
            self.lmin = unhex(w[1])
            if self.iface_pts is not None:
                pts = self.iface_pts
                degenerate = len(pts) < 3 or all(q[0] == pts[0][0] and q[1] == pts[0][1] for q in pts) or \
                    any(math.isnan(x) or math.isinf(x) for q in pts for x in q[:2])
                if degenerate:
                    self.count("tri_degenerate_input")
                    if not a.startswith("err division"):
                        self.fail("triangulate_division_interface did not reject a degenerate interface (%d points, all equal or not finite): %s" % (len(pts), a[:60]),
                                  key=KNOWN_KEYS["delaunator"])
            self.count("tri_" + a.split()[0] + ("_" + a.split()[1] if a.startswith("err") else ""))
        elif op == "divide":
            self.lmin = unhex(w[1])
            self.oracle_divide(a)
        elif op == "round":
            self.lmin = unhex(w[1])
            self.oracle_round(w, a)

    def after_both(self, op, w, a, bb, extra):
        if op == "state":
            secs = [s.strip() for s in a.split("|")]
            it = [x.strip() for x in secs[0].split(";")]
            nodes = [(x.split()[0] == "1", [unhex(z) for z in x.split()[1:4]]) for x in it[1:]]
            it = [x.strip() for x in secs[1].split(";")]
            faces = [tuple(int(z) for z in x.split()[1:4]) for x in it[1:] if x.split()[0] == "1"]
            self.state = {"nodes": nodes, "faces": faces}
        elif op == "addpts":
            self.count("addpts_" + ("ok" if a.startswith("ok") else a.replace(" ", "_")))
            if a.startswith("ok"):
                secs = a.split(" | ")
                self.thr = int(secs[0].split()[2])
                pts = U.parse_nodes(secs[1])
                for q in pts:
                    d = abs(U.dot(U.sub(q, self.p), self.n))
                    if not d <= 1e-9 * self.scale * max(1.0, U.norm(self.n)):
                        self.fail("add_intersection_points created a node %g away from the plane" % d)
                        break
        elif op == "divfaces":
            if a.startswith("ok"):
                self.faces = U.parse_faces(a[3:])
                self.wf = extra.strip() == "true"
                self.count("divfaces_wf_" + extra.strip())
                if self.wf and self.state is not None:
                    # the cut mother is still a closed genus-0 surface made of triangles only (divide_faces_preserves_surface)
                    bad = [] if all(len(f) == 3 for f in self.faces) else ["a face is not a triangle after divide_faces"]
                    bad = bad or U.topo_oracle([tuple(f) for f in self.faces], "surface after divide_faces")
                    self.count("divfaces_oracle_checked")
                    for b in bad[:1]:
                        self.fail("divide_faces (two intersection points at cyclic distance 2 in every cut face): " + b)
        elif op == "mapxy":
            if a.startswith("ok"):
                self.iface_pts = U.parse_nodes(a.split(" | ")[1])
        elif op == "coarse":
            if a.startswith("ok"):
                secs = a.split(" | ")
                self.fthr = int(secs[0].split()[2])
        elif op == "mapback":
            if a.startswith("ok"):
                self.nodes_hi = U.parse_nodes(a[3:])
                if self.p is not None and self.akind is not None:
                    # how far from the division plane the interface nodes come back (accuracy of rotation + inverse), per kind of axis
                    ds = [abs(U.dot(U.sub(q, self.p), self.n)) / (self.scale * max(U.norm(self.n), 1e-300)) for q in self.nodes_hi]
                    if any(math.isnan(x) or math.isinf(x) for x in ds):
                        self.count("mapback_not_finite_axis_" + self.akind)
                    elif ds:
                        k = "mapback_worst_distance_from_plane_over_size_axis_" + self.akind
                        self.stats[k] = max(self.stats.get(k, 0.0), max(ds))
        elif op == "daughters":
            self.count("daughters_" + ("ok" if a.startswith("ok") else a.split(" ||")[0].replace(" ", "_")))
            hyp = dict(zip(extra.split()[0::2], extra.split()[1::2])) if extra else {}
            self.count("iface_" + hyp.get("iface", "?"))
            if a.startswith("ok"):
                self.oracle_stage_daughters(a, hyp)

    def oracle_stage_daughters(self, a, hyp):
        if self.state is None or self.nodes_hi is None or self.thr is None:
            return
        pos = [q for (_, q) in self.state["nodes"]][:self.thr] + self.nodes_hi
        mother = [((x, y, z), [pos[x], pos[y], pos[z]]) for (x, y, z) in self.state["faces"]]
        ds = []
        for k, s in enumerate(a.split(" || ")):
            d = U.parse_daughter(s.split(" ", 2)[2] if k == 0 else s.split(" ", 1)[1])
            try:
                geo = [(t, [pos[t[0]], pos[t[1]], pos[t[2]]]) for t in d["faces"]]
            except IndexError:
                self.fail("create_daughter_cells: a face refers to a node beyond the node list"); return
            ds.append({"id": 0, "type": d["kv"].get("type"), "tv": unhex(d["kv"]["tv"]), "geo": geo, "vol": unhex(d["kv"]["vol"])})
        V = abs(U.vol6_geo(mother)) / 6.0
        # create_daughter_cells sets target = own volume (initialize_cell_properties); halving happens in divide_cell
        for d in ds:
            d["tv"] = V
        bad, dev = U.daughters_oracle(mother, self.p, self.n, self.scale, 2 * V, ds[0]["type"], ds[0], ds[1], exact_volume=True)
        bad = [b for b in bad if "target volume" not in b]
        if self.dkind == "fan" and hyp.get("iface") != "true":
            # the fan over a polygon that does not bound the cut (plane through nodes) is not what divide_cell would hand over
            self.count("stage_oracle_skipped_fan_without_interface_condition")
            return
        if self.dkind == "fan" and min(abs(d["vol"]) for d in ds) < 1e-9 * self.scale ** 3:
            # a fan over coinciding intersection points (plane touching the cell at a node): the real pipeline rejects this
            # interface (division_exception in triangulate_division_interface), only the synthetic fan lets it through
            self.count("stage_oracle_skipped_fan_degenerate")
            return
        self.count("stage_oracle_checked")
        for b in bad[:2]:
            self.fail("create_daughter_cells (%s interface): %s" % (self.dkind, b))
        # hypotheses of daughters_closed hold => conclusion must be observed (sanity of the link theorem <-> run)
        if hyp.get("iface") == "true" and hyp.get("closedM") == "true" and not (hyp.get("closed1") == "true" and hyp.get("closed2") == "true"):
            self.hyp_bad.append({"what": "daughters_closed: hypotheses hold on the executed instance but a daughter is not closed", "replay": list(self.S.trace)})

    def oracle_divide(self, a):
        try:
            d = U.parse_divide(a)
        except Exception as e:
            self.fail("unparseable answer of divide (%s): %s" % (e, a[:100])); return
        self.count("divide_" + ("some" if d["some"] else "none"))
        if d["axis"][2] < -0.99:
            exact = d["axis"][0] == 0.0 and d["axis"][1] == 0.0 and d["axis"][2] == -1.0
            self.count("divide_axis_%s_minus_z_%s" % ("exactly" if exact else "near", "some" if d["some"] else "none"))
        # "a plane through the mother's centroid": the point the code used is the area-weighted centroid of the surface
        P2 = {}
        for ids, tri in d["before"]:
            for i in range(3):
                P2[ids[i]] = tri[i]
        ctrue = U.centroid_of(P2, [ids for ids, _ in d["before"]])
        size = math.sqrt(U.area_geo(d["before"]))
        if U.norm(U.sub(ctrue, d["ctr"])) > 1e-6 * size + 1e-9 * U.norm(ctrue):
            self.fail("divide_cell: the division plane passes through %r, the centroid of the mother's surface is %r" % (d["ctr"], ctrue))
        if U.canon_geo(d["before"]) != U.canon_geo(d["after"]):
            self.fail("divide_cell changed the mother's surface (%s): %d triangles before, %d after" % ("success" if d["some"] else "failed division", len(d["before"]), len(d["after"])),
                      key=None)
        if d["some"]:
            A = U.area_geo(d["before"]); V = abs(U.vol6_geo(d["before"])) / 6.0
            tol = 3.0 * self.lmin * self.lmin * math.sqrt(A) / V
            bad, dev = U.daughters_oracle(d["before"], d["ctr"], d["axis"], self.lmin, d["mtv"], d["mtype"], d["d1"], d["d2"], vol_rel_tol=tol)
            self.devs.append(abs(dev) / tol)
            for b in bad[:3]:
                self.fail("divide_cell: " + b)
        return d

    def oracle_round(self, w, a):
        try:
            r = U.parse_round(a)
        except Exception as e:
            self.fail("unparseable answer of round (%s): %s" % (e, a[:100])); return
        ctr0 = int(w[2]); threads = int(w[3])
        K = len(r["mothers"])
        info = self.round_info           # list of dict(id, ready, tv) as requested
        succ = [False] * K
        for c in r["cells"]:
            if c["tag"].startswith("d"):
                succ[int(c["tag"][1:])] = True
        nsucc = sum(succ)
        self.count("round_cells", K); self.count("round_ready", sum(1 for x in info if x["ready"])); self.count("round_success", nsucc)
        bad = []
        if r["ctr"] != ctr0 + 2 * nsucc:
            bad.append("counter is %d after %d successful divisions from %d" % (r["ctr"], nsucc, ctr0))
        if r["n"] != K + nsucc or len(r["cells"]) != r["n"]:
            bad.append("population has %d cells after %d divisions of %d cells" % (r["n"], nsucc, K))
        ids = [c["id"] for c in r["cells"]]
        if len(set(ids)) != len(ids):
            bad.append("two cells share an id: %r" % ids)
        old_ids = {x["id"] for x in info}
        fresh = [c["id"] for c in r["cells"] if c["tag"].startswith("d")]
        if any(i in old_ids or i < ctr0 or i >= r["ctr"] for i in fresh):
            bad.append("daughter ids %r are not fresh (counter %d -> %d, existing %r)" % (fresh, ctr0, r["ctr"], sorted(old_ids)))
        if nsucc and [c["lid"] for c in r["cells"]] != list(range(r["n"])):
            bad.append("local ids %r are not the list positions" % [c["lid"] for c in r["cells"]])
        # survivors: same objects, same order, untouched
        surv = [c for c in r["cells"] if c["tag"].startswith("m")]
        want = ["m%d" % i for i in range(K) if not succ[i]]
        if [c["tag"] for c in surv] != want or [c["tag"] for c in r["cells"][:len(want)]] != want:
            bad.append("surviving cells are %r, expected %r in front of the daughters" % ([c["tag"] for c in r["cells"]], want))
        for c in surv:
            i = int(c["tag"][1:]); mo = r["mothers"][i]
            if c["id"] != info[i]["id"] or c["tv"] != info[i]["tv"]:
                bad.append("cell %s: id / target volume changed although it did not divide" % c["tag"])
            if U.canon_geo(c["geo"]) != U.canon_geo(mo["before"]):
                bad.append("cell %s (%s) does not have its surface from before the round" % (c["tag"], "failed division" if info[i]["ready"] else "not dividing"))
            if not info[i]["ready"] and c["tag"] and False:
                pass
        for i in range(K):
            if succ[i] and not info[i]["ready"]:
                bad.append("cell %d divided although it was not ready" % i)
            if succ[i]:
                mo = r["mothers"][i]
                ds = [c for c in r["cells"] if c["tag"] == "d%d" % i]
                if len(ds) != 2:
                    bad.append("mother %d is replaced by %d cells" % (i, len(ds))); continue
                A = U.area_geo(mo["before"]); V = abs(U.vol6_geo(mo["before"])) / 6.0
                tol = 3.0 * self.lmin * self.lmin * math.sqrt(A) / V
                b2, dev = U.daughters_oracle(mo["before"], mo["ctr"], mo["axis"], self.lmin, mo["tv"], "0", ds[0], ds[1], vol_rel_tol=tol)
                self.devs.append(abs(dev) / tol)
                bad += ["mother %d: %s" % (i, x) for x in b2]
        for b in bad[:3]:
            self.fail("cell_divider::run: " + b)
        # replay of the bookkeeping on the model (sequential order = one thread)
        if threads == 1:
            items = []
            for i in range(K):
                items += [str(info[i]["id"]), "0", "1" if info[i]["ready"] else "0", "1" if succ[i] else "0", fhex(info[i]["tv"])]
            ml = "roundm %d %d %s" % (ctr0, K, " ".join(items))
            mb = self.S.model(ml)
            want = "ctr %d n %d" % (r["ctr"], r["n"]) + "".join(" || %s id %d lid %d type %s tv %s" % (c["tag"], c["id"], c["lid"], c["type"], fhex(c["tv"])) for c in r["cells"])
            self.compared += 1
            if mb != want:
                self.disagree.append({"line": ml[:200], "where": U.first_diff(want, mb), "replay": list(self.S.trace) + [ml]})
            else:
                self.bit_identical += 1
        return r


# ---------------------------------------------------------------------------------------------------------
# generators of histories
def h_kernel(R, r, n):
    """edge–plane intersection and side test on random and degenerate inputs"""
    R.reset()
    for _ in range(n):
        sc = 10.0 ** r.uniform(-6, 0)
        p = [sc * r.normal() for _ in range(3)]
        nrm = U.unit([r.normal() for _ in range(3)]) if r.randint(0, 3) else [float(x) for x in r.choice(U.AXES)]
        R.do("note scale " + fhex(sc))
        R.do("plane %s %s" % (hexv(p), hexv(nrm)))
        for _ in range(6):
            mode = r.randint(0, 5)
            e1 = [p[i] + sc * r.normal() for i in range(3)]
            e2 = [p[i] + sc * r.normal() for i in range(3)]
            if mode == 0:
                e1 = list(p)                                   # t == 0 exactly
            elif mode == 1:
                e2 = list(p)                                   # t == 1 exactly
            elif mode == 2:                                    # edge inside a plane parallel to the division plane
                d = U.cross(nrm, [r.normal() for _ in range(3)])
                e2 = [e1[i] + sc * d[i] for i in range(3)]
            R.do("epi %s %s" % (hexv(e1), hexv(e2)))
            e3 = [p[i] + sc * r.normal() for i in range(3)]
            R.do("side %s %s %s" % (hexv(e1), hexv(e2), hexv(e3)))
            R.count("kernel_cases", 2)


def setup_cell(R, r, P, T, scale, relax, allow_unused=True):
    """mesh lines + init (+ real refine pass + rebase); returns False when the real code rejects the mesh"""
    R.reset()
    R.do("note scale " + fhex(scale))
    for l in U.mesh_lines(P, T):
        R.do(l)
    a = R.do("init")
    if a != "ok":
        R.count("init_" + str(a)); return False
    if relax is not None:
        a = R.do("refine %s %s" % (fhex(relax), fhex(3 * relax)))
        if a != "returned":
            R.count("refine_" + str(a).replace(" ", "_")); return False
        if R.do("rebase") != "ok":
            return False
    return True


def h_stage(R, r, tier):
    """one mesh, one plane, the whole pipeline stage by stage"""
    kind = r.choice(["icosa", "icosa", "octa", "tetra"])
    level = r.randint(0, 2) if kind != "icosa" else r.randint(0, 2 if tier == "quick" else 3)
    P, T, scale = U.rounded_mesh(r, level=level, kind=kind, noise=r.choice([0, 0, 0.02, 0.05]))
    if r.randint(0, 5) == 0:
        P = P + [[0.0, 0.0, 0.0]]          # an unused node slot (rebase removes it)
    me = U.RC.mean_edge(P, T)
    relax = None
    if r.randint(0, 2) == 0:
        relax = me / r.choice([0.8, 1.2, 1.7, 2.2])
    if not setup_cell(R, r, P, T, scale, relax):
        return
    if len(P) > max(x for t in T for x in t) + 1 and relax is None:
        R.do("rebase")
    a = R.do("state")
    if a is None or R.state is None:
        return
    if len(R.state["faces"]) < 4 or U.topo_oracle(R.state["faces"], "mother"):
        # the real refine_mesh collapsed the coarse solid to a two-triangle pillow: not a cell (cell.cpp asserts >= 4 faces)
        R.count("stage_skipped_degenerate_mother")
        return
    a = R.do("edges")
    nodes = [q for (u, q) in R.state["nodes"]]
    faces = R.state["faces"]
    ctr = U.centroid_of(nodes, faces)
    pk = r.choice(["centroid", "centroid", "centroid", "node", "node", "offset", "miss"])
    ax, ak = U.pick_axis(r)
    if pk == "node":
        p = list(nodes[r.choice(sorted({x for t in faces for x in t}))])
    elif pk == "offset":
        p = [ctr[i] + 0.3 * scale * r.normal() for i in range(3)]
    elif pk == "miss":
        p = [ctr[i] + 5 * scale * ax[i] for i in range(3)]
    else:
        c = R.do("centroid")
        if c is None:
            return
        p = [unhex(z) for z in c.split()]
    R.akind = ak
    R.count("stage_plane_%s_axis_%s" % (pk, ak)); R.count("stage_mesh_%s_%d%s" % (kind, level, "_relaxed" if relax else ""))
    R.do("plane %s %s" % (hexv(p), hexv(ax)))
    a = R.do("addpts")
    if a is None or not a.startswith("ok"):
        return
    a = R.do("divfaces")
    if a is None or not a.startswith("ok"):
        return
    if R.do("coarse") is None:
        return
    if R.do("mapxy") is None:
        return
    dk = r.choice(["fan", "real", "real"])
    R.do("note dkind " + dk)
    if dk == "real":
        lmin = (relax if relax else me / r.choice([1.0, 1.5, 2.0]))
        R.do("seed %d" % r.randint(1, 1 << 30))
        a = R.do("tri %s" % fhex(lmin))
        if a is None or not a.startswith("ok"):
            return
        secs = a[3:].split(" | ")
        pts = U.parse_nodes(secs[0]); tris = U.parse_faces(secs[1])
        R.do("setD %d %s %d %s" % (len(pts), " ".join(hexv(q) for q in pts), len(tris), " ".join("%d %d %d" % tuple(t) for t in tris)))
    if R.do("mapback") is None:
        return
    R.do("daughters")


def h_polygons(R, r):
    """divide_faces / add_point_to_face / coarse_triangulation on polygon meshes given directly"""
    R.reset()
    nn = r.randint(6, 14); thr = r.randint(3, nn - 2)
    sc = 10.0 ** r.uniform(-6, 0)
    lines = ["note scale " + fhex(sc), "cell"] + ["n " + hexv([sc * r.normal() for _ in range(3)]) for _ in range(nn)]
    polys = []
    for _ in range(r.randint(1, 6)):
        m = r.randint(0, 5)
        lo = list(range(thr)); hi = list(range(thr, nn))
        r.shuffle(lo); r.shuffle(hi)
        if m <= 1 and len(lo) >= 3 and len(hi) >= 2:
            # size 5 with the two intersection points at cyclic distance 2 (what add_intersection_points produces), any rotation
            f = [hi[0], lo[0], hi[1], lo[1], lo[2]]
            k = r.randint(0, 4); f = f[k:] + f[:k]
        elif m == 2 and len(lo) >= 3 and len(hi) >= 2:
            # size 5, the two points next to each other (never produced by the walk; the code takes its else branch)
            f = [hi[0], hi[1], lo[0], lo[1], lo[2]]
            k = r.randint(0, 4); f = f[k:] + f[:k]
        elif m == 3:
            f = lo[:3]
        elif m == 4 and len(lo) >= 3:
            f = (lo + hi)[:r.choice([4, 6, 7])]
        else:
            f = lo[:2] + hi[:1] if len(lo) >= 2 else lo[:3]
        if len(f) >= 3:
            polys.append(f)
    if not polys:
        return
    for l in lines + ["t " + " ".join(map(str, f)) for f in polys]:
        R.do(l)
    R.do("mesh %d" % thr)
    R.count("polygon_meshes")
    # insertion of a point between two nodes of a face (present edge, either direction; absent edge)
    for _ in range(3):
        fi = r.randint(0, len(polys) - 1); f = polys[fi]
        j = r.randint(0, len(f) - 1)
        a, b = f[j - 1], f[j]
        if r.randint(0, 1):
            a, b = b, a
        if r.randint(0, 4) == 0:
            b = nn + 7                                        # not an edge of the face: division_exception
        ans = R.do("apf %d %d %d %d" % (fi, a, b, nn + 20))
        R.do("mesh %d" % thr)                               # back to the request mesh
    R.do("divfaces")
    R.do("coarseonly")


def h_divide(R, r, tier, corpus=None):
    """real divide_cell on a relaxed rounded cell"""
    level = r.choice([1, 2, 2, 2, 3] if tier == "thorough" else [1, 2, 2, 2])
    P, T, scale = U.rounded_mesh(r, level=level, kind="icosa", noise=r.choice([0, 0.01, 0.03]))
    me = U.RC.mean_edge(P, T)
    lmin = me / r.choice([1.0, 1.5, 2.0, 2.5])
    if not setup_cell(R, r, P, T, scale, lmin):
        return
    ax, ak = U.pick_axis(r)
    if ak == "axis" and r.randint(0, 1):
        # plane through nodes: an axis orthogonal to (node - centroid) for a node of the mesh
        pass
    R.count("divide_axis_" + ak); R.count("divide_level_%d" % level)
    R.do("axis " + hexv(ax))
    R.do("seed %d" % r.randint(1, 1 << 30))
    R.do("divide %s %s" % (fhex(lmin), fhex(scale ** 3 * r.uniform(0.5, 8.0))))


def h_round(R, r, tier):
    """cell_divider::run on a population of copies of one relaxed cell"""
    level = r.choice([1, 2, 2])
    P, T, scale = U.rounded_mesh(r, level=level, kind="icosa", noise=r.choice([0, 0.01]), offset=False)
    me = U.RC.mean_edge(P, T)
    lmin = me / r.choice([1.5, 2.0, 2.5])
    R.reset(); R.do("note scale " + fhex(scale))
    for l in U.mesh_lines(P, T):
        R.do(l)
    K = r.randint(2, 6)
    ax, ak = U.pick_axis(r, r.choice(["random", "random", "axis", "mz", "nearz", "nearmz"]))
    R.do("axis " + hexv(ax))
    R.do("popclear")
    info = []
    ids = list(range(100, 100 + 3 * K)); r.shuffle(ids)
    for i in range(K):
        ready = r.randint(0, 3) != 0
        tv = scale ** 3 * r.uniform(0.5, 8.0)
        info.append({"id": ids[i], "ready": ready, "tv": tv})
        a = R.do("popadd %s %s %s %d %d %s" % (fhex(4 * scale * i), fhex(0.0), fhex(0.0), 1 if ready else 0, ids[i], fhex(tv)))
        if a != "ok":
            return
    R.do("note popinfo " + " ".join("%d:%d:%s" % (x["id"], 1 if x["ready"] else 0, fhex(x["tv"])) for x in info))
    ctr0 = 100 + 3 * K + r.randint(0, 5)
    threads = 1 if (tier == "quick" or r.randint(0, 3)) else r.randint(2, 4)
    R.count("round_axis_" + ak); R.count("round_threads_%d" % threads)
    R.do("seed %d" % r.randint(1, 1 << 30))
    R.do("round %s %d %d" % (fhex(lmin), ctr0, threads))


# degenerate inputs kept from past failures
def corpus(R):
    # (a) plane touching the octahedron at one node: all intersection points coincide
    P, T = U.RC.base_solid("octa")
    P = [[float(x) for x in p] for p in P]
    R.reset(); R.do("note scale " + fhex(1.0))
    for l in U.mesh_lines(P, T) + ["init", "state"]:
        R.do(l)
    R.do("plane %s %s" % (hexv([1.0, 0.0, 0.0]), hexv([1.0, 0.0, 0.0])))
    ok = True
    for st in ("addpts", "divfaces", "coarse", "mapxy"):
        a = R.do(st)
        if a is None or not a.startswith("ok"):
            ok = False; break
    if ok:
        R.do("tri " + fhex(0.3))
    # (b) bipyramid whose apex lies on the plane through the (exactly zero) centroid: the real divide_cell
    P = [[0, 1, 0], [1, 0, 1], [-1, 0, 1], [-1, 0, -1], [1, 0, -1], [0, -1, 0]]
    P = [[float(x) for x in p] for p in P]
    T = [(0, 2, 1), (5, 1, 2), (0, 3, 2), (5, 2, 3), (0, 4, 3), (5, 3, 4), (0, 1, 4), (5, 4, 1)]
    R.reset(); R.do("note scale " + fhex(1.0))
    for l in U.mesh_lines(P, T) + ["init"]:
        R.do(l)
    R.do("axis " + hexv([1.0, 0.0, 0.0]))
    R.do("divide %s %s" % (fhex(1.0), fhex(1.0)))
    # (c) division axis exactly -z on a centred icosphere: fails cleanly (without the orientation step of
    # map_points_to_xy_plane because the quaternion is 0; with it because the plane z = 0 passes through nodes of this mesh,
    # exactly as for +z)
    P, T = U.RC.base_solid("icosa")
    for _ in range(2):
        P, T = U.RC.subdivide(P, T)
    P = [[x * 2.5e-6 for x in p] for p in P]
    R.reset(); R.do("note scale " + fhex(2.5e-6))
    for l in U.mesh_lines(P, T) + ["init"]:
        R.do(l)
    R.do("axis " + hexv([0.0, 0.0, -1.0]))
    R.do("divide %s %s" % (fhex(4e-7), fhex(1e-17)))
    # (d) an ellipsoid in general position (no node on the plane) with the axes +z, -z, and next to -z.  With the orientation
    # step (plane_normal = the orientation with dz >= 0) -z DIVIDES like +z (judged like every division: two closed outward
    # daughters on opposite sides, volumes adding up).  Without it the quaternion is 0 and divide_cell returns nullopt cleanly:
    # C09 allows a failed division, so BOTH outcomes pass here; which one happened is recorded (`minus_z_axis_divides`).
    # That the outcome must not depend on the sign of the axis is C14's subject
    # (finding C14:division-depends-on-the-sign-of-the-eigenvector).
    P, T, sc = U.rounded_mesh(Rng(909), level=2, kind="icosa", scale=2.5e-6, noise=0.0, offset=False)
    for name, ax in (("plus_z_axis_divides", [0.0, 0.0, 1.0]), ("minus_z_axis_divides", [0.0, 0.0, -1.0]),
                     ("near_minus_z_1e-8_axis_divides", U.unit([6e-9, -8e-9, -1.0])), ("near_minus_z_1e-3_axis_divides", U.unit([6e-4, -8e-4, -1.0]))):
        R.reset(); R.do("note scale " + fhex(sc))
        for l in U.mesh_lines(P, T) + ["init"]:
            R.do(l)
        R.do("axis " + hexv(ax))
        R.do("seed 1")
        a = R.do("divide %s %s" % (fhex(4e-7), fhex(1e-17)))
        R.minus_z[name] = (a.split()[0] == "some") if a else None
    R.count("corpus_cases", 4)


def run(ctx):
    tier, seed = ctx["tier"], ctx["seed"]
    t0 = time.time()
    V = vlib.Verdict(PID)
    gen = vlib.translate.run(GEN)
    proof = vlib.prove(PID, THEOREMS, NAMESPACE, extra_targets=("drv_c09",))
    for f in proof["failures"]:
        V.fail_tie("proof", "%s: %s" % (f["theorem"], f["reason"]), errors=proof["errors"][:5])
    if tier == "thorough" and proof["ok"]:
        ok, log = vlib.leanchecker("SimuVerif.Properties.C09")
        if not ok:
            V.fail_tie("proof", "leanchecker rejected SimuVerif.Properties.C09", log=log)
    exe, drv, rebuilt = U.build()
    widen = 1 if proof["ok"] else 3
    n_stage, n_poly, n_div, n_round, n_kern = (60, 30, 50, 8, 25) if tier == "quick" else (500, 300, 500, 70, 300)
    S = U.Session(exe, drv)
    R = Runner(S)
    r = Rng(seed)
    corpus(R)
    h_kernel(R, r.fork("kernel"), n_kern * widen)
    rs = r.fork("stage")
    for _ in range(n_stage * widen):
        h_stage(R, rs, tier)
    rp = r.fork("poly")
    for _ in range(n_poly * widen):
        h_polygons(R, rp)
    rd = r.fork("divide")
    for _ in range(n_div * widen):
        h_divide(R, rd, tier)
    rr = r.fork("round")
    for _ in range(n_round * widen):
        h_round(R, rr, tier)
    S.close()
    # verdict
    seen = set()
    import re as _re
    for f in sorted(R.failures, key=lambda f: len(f["replay"])):      # smallest replay of each kind first
        k = (_re.sub(r"\b[0-9a-fx]{6,}\b|[-+]?[0-9][0-9.e+-]*", "#", f["what"])[:60], f.get("key"))
        if k in seen:
            continue
        seen.add(k)
        if len(seen) > 3:
            break
        V.fail_input(f["what"], {"requests": f["replay"]}, key=f.get("key"))
    for d in R.disagree[:3]:
        V.fail_tie("correspondence", "model and implementation differ after '%s': %s" % (d["line"][:120], d["where"]), requests=d["replay"])
    for d in R.hyp_bad[:2]:
        V.fail_tie("correspondence", d["what"], requests=d["replay"])
    rcode, nviol = V.finish()
    devs = sorted(R.devs)
    cov = {
        "obligations": proof["obligations"], "discharged": proof["discharged"],
        "checker_cmd": "lake build SimuVerif.Properties.C09 SimuVerif.Audit.C09 drv_c09 (+ leanchecker in the thorough tier)",
        "trusted_base": vlib.TRUSTED_COMMON + [
            "Poisson sampling and the Delaunay triangulation are opaque: the interface triangulation D they return is recorded and fed to model and code; that D satisfies the interface condition of daughters_closed is checked on every executed instance (driver, `iface`), not proved",
            "hypothesis of divide_faces_preserves_surface (two intersection points at cyclic distance 2 in every cut face) is checked on every executed instance (driver, `wf`), not derived from the walk of add_intersection_points",
            "local_mesh_refiner::refine_mesh of the daughters is not modelled here (C01/C11): after it only the oracle speaks (volume within 3*l_min^2*sqrt(area))",
            "check_face_normal_orientation is modelled as the identity on consistently oriented input (flip of all faces when the signed volume is negative); inconsistent input is flagged and compared up to winding"],
        "theorems": proof["axioms"], "proof_failures": proof["failures"], "translator": gen,
        "evaluations": S.n_lines, "distinct_nontrivial": sum(v for k, v in R.stats.items() if k.startswith(("stage_mesh", "divide_level", "round_axis", "polygon_meshes", "kernel_cases", "corpus"))),
        "rule": "seeded: (kernel) edge-plane / side test on random and exactly-degenerate inputs; (stage) subdivided tetra/octa/icosahedra on noisy ellipsoids, scales 1e-6..1e-4, optionally relaxed by the real refine_mesh, planes through the centroid / through a node / offset / missing the cell, axes random, +-x +-y +-z, near +z, near -z, exactly -z (stage, divide and round histories), interface = fan or the real Poisson+Delaunay result; (polygons) divide_faces / add_point_to_face / coarse_triangulation on polygon meshes given directly; (divide) real divide_cell on relaxed icospheres, several l_min; (round) real cell_divider::run on 2..6 cells; corpus of degenerate inputs; distinct = number of generated meshes / populations / kernel cases",
        "statistics": R.stats, "model_vs_impl_compared": R.compared, "model_vs_impl_bit_identical": R.bit_identical,
        "model_vs_impl_disagreements": len(R.disagree), "oracle_failures": len(R.failures),
        "volume_deviation_over_tolerance": {"n": len(devs), "max": devs[-1] if devs else None, "median": devs[len(devs) // 2] if devs else None},
        "minus_z_axis_divides": R.minus_z.get("minus_z_axis_divides"), "corpus_axis_outcomes": R.minus_z,
        "minus_z_axis": {k: v for k, v in R.stats.items() if "minus_z" in k or k.startswith("mapback_")},
        "repo_objects_rebuilt": rebuilt,
        "samples": [{"first_requests_of_corpus_case": ["cell", "n 3ff0… (octahedron)", "plane (1,0,0) (1,0,0)", "addpts", "divfaces", "coarse", "mapxy", "tri"]}],
    }
    vlib.write_evidence(PID, tier, "proof", cov, [
        "mother cells of the end-to-end runs are relaxed by the real refine_mesh first (edge lengths in [l_min, 3 l_min], the state the simulator maintains); cells far outside that range lose volume when their daughters are remeshed",
        "remeshing tolerance of the oracle: |V1+V2-V| <= 3*l_min^2*sqrt(area of the mother) (a band of width 3*l_min around the cut displaced by l_min/2); before remeshing (stage-wise) 1e-9*V",
        "side tolerance l_min*1e-6; multi-cell rounds run with one thread except where stated (thorough tier: some with 2-4 threads, oracle only)",
        "CONTACT_MODEL_INDEX / DYNAMIC_MODEL_INDEX of the default build"], time.time() - t0, nviol)
    return rcode


def replay(ctx):
    rp = ctx["replay"]
    req = rp.get("failing_input", {}).get("input", {}).get("requests")
    if not req:
        for b in rp.get("no_longer_checks", []):
            req = b.get("requests") or req
    if not req:
        print(json.dumps(rp)[:3000]); return 1
    exe, drv, _ = U.build()
    S = U.Session(exe, drv)
    R = Runner(S)
    R.round_info = []
    for l in req:
        if l.startswith("roundm"):
            continue
        a = R.do(l)
        print("%s -> %s" % (l[:70], (a or "<crash>")[:110]))
    S.close()
    for f in R.failures[:5]:
        print("FAIL:", f["what"])
    for d in R.disagree[:3]:
        print("DISAGREE:", d["line"][:100], d["where"])
    return 1 if (R.failures or R.disagree) else 0
