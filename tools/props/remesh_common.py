"""Shared by C01 and C11: mesh/history generators, the line-protocol run of harness/h_remesh.cpp
against lean/Driver/C01.lean, dump parsing and the independent oracles."""
import os, math, time, json
import vlib
from vlib import Rng, fhex, unhex

HARNESS = os.path.join(vlib.VERIF, "harness", "h_remesh.cpp")


# ---------------------------------------------------------------- meshes
def _norm(v):
    n = math.sqrt(sum(x * x for x in v))
    return [x / n for x in v]


def base_solid(kind):
    if kind == "tetra":
        P = [(1, 1, 1), (1, -1, -1), (-1, 1, -1), (-1, -1, 1)]
        T = [(0, 1, 2), (0, 3, 1), (0, 2, 3), (1, 3, 2)]
    elif kind == "octa":
        P = [(1, 0, 0), (-1, 0, 0), (0, 1, 0), (0, -1, 0), (0, 0, 1), (0, 0, -1)]
        T = [(0, 2, 4), (2, 1, 4), (1, 3, 4), (3, 0, 4), (2, 0, 5), (1, 2, 5), (3, 1, 5), (0, 3, 5)]
    else:
        t = (1 + math.sqrt(5)) / 2
        P = [(-1, t, 0), (1, t, 0), (-1, -t, 0), (1, -t, 0), (0, -1, t), (0, 1, t), (0, -1, -t), (0, 1, -t),
             (t, 0, -1), (t, 0, 1), (-t, 0, -1), (-t, 0, 1)]
        T = [(0, 11, 5), (0, 5, 1), (0, 1, 7), (0, 7, 10), (0, 10, 11), (1, 5, 9), (5, 11, 4), (11, 10, 2), (10, 7, 6),
             (7, 1, 8), (3, 9, 4), (3, 4, 2), (3, 2, 6), (3, 6, 8), (3, 8, 9), (4, 9, 5), (2, 4, 11), (6, 2, 10),
             (8, 6, 7), (9, 8, 1)]
    P = [_norm(p) for p in P]
    # orient outward
    out = []
    for (a, b, c) in T:
        pa, pb, pc = P[a], P[b], P[c]
        n = cross(sub(pb, pa), sub(pc, pa))
        ctr = [(pa[i] + pb[i] + pc[i]) / 3 for i in range(3)]
        out.append((a, b, c) if dot(n, ctr) > 0 else (a, c, b))
    return P, out


def sub(u, v): return [u[i] - v[i] for i in range(3)]
def dot(u, v): return sum(u[i] * v[i] for i in range(3))
def cross(u, v): return [u[1] * v[2] - u[2] * v[1], u[2] * v[0] - u[0] * v[2], u[0] * v[1] - u[1] * v[0]]


def subdivide(P, T):
    P = list(P)
    mid = {}
    def m(a, b):
        k = (min(a, b), max(a, b))
        if k not in mid:
            P.append(_norm([(P[a][i] + P[b][i]) / 2 for i in range(3)]))
            mid[k] = len(P) - 1
        return mid[k]
    out = []
    for (a, b, c) in T:
        ab, bc, ca = m(a, b), m(b, c), m(c, a)
        out += [(a, ab, ca), (b, bc, ab), (c, ca, bc), (ab, bc, ca)]
    return P, out


def make_mesh(r, max_level=2):
    kind = r.choice(["tetra", "octa", "icosa", "icosa"])
    P, T = base_solid(kind)
    lev = r.randint(0, max_level if kind != "icosa" else max(0, max_level - 1))
    for _ in range(lev):
        P, T = subdivide(P, T)
    scale = 10.0 ** r.uniform(-6, 0)
    rad = [scale * r.uniform(0.6, 1.6) for _ in range(3)]
    off = [scale * r.choice([0.0, 0.0, 3.0, -20.0, 200.0]) * r.uniform(0.5, 1.5) for _ in range(3)]
    # random rotation
    ax = _norm([r.normal() for _ in range(3)]); ang = r.uniform(0, 2 * math.pi)
    def rot(v):
        c, s = math.cos(ang), math.sin(ang)
        cr = cross(ax, v); d = dot(ax, v)
        return [v[i] * c + cr[i] * s + ax[i] * d * (1 - c) for i in range(3)]
    P = [[rot([p[0] * rad[0], p[1] * rad[1], p[2] * rad[2]])[i] + off[i] for i in range(3)] for p in P]
    # optional unused extra node slots in the input
    if r.randint(0, 4) == 0:
        P.append([off[0], off[1], off[2]])
    # random relabelling of triangle order and rotation of triangles
    T = [r.choice([(a, b, c), (b, c, a), (c, a, b)]) for (a, b, c) in T]
    r.shuffle(T)
    return P, T, scale


def mean_edge(P, T):
    tot = 0.0; n = 0
    for (a, b, c) in T:
        for (x, y) in ((a, b), (b, c), (c, a)):
            if x < len(P) and y < len(P):
                tot += math.sqrt(sum((P[x][i] - P[y][i]) ** 2 for i in range(3))); n += 1
    return tot / max(n, 1)


def mesh_lines(P, T):
    return ["cell"] + ["n " + " ".join(fhex(x) for x in p) for p in P] + ["t %d %d %d" % t for t in T] + ["init"]


# ---------------------------------------------------------------- dump parsing
class State:
    pass


def parse_dump(line):
    st = State()
    try:
        parts = [p.strip() for p in line.split("|")]
        sec = {}
        for p in parts:
            head = p.split(" ", 1)
            sec[head[0]] = head[1] if len(head) > 1 else ""
        def items(s):
            it = [x.strip() for x in s.split(";")]
            return int(it[0]), it[1:]
        nN, ns = items(sec["N"])
        st.nodes = []
        for x in ns:
            w = x.split()
            st.nodes.append({"used": w[0] == "1", "pos": [unhex(z) for z in w[1:4]], "mom": [unhex(z) for z in w[4:7]]})
        nF, fs = items(sec["F"])
        st.faces = []
        for x in fs:
            w = x.split()
            if w[0] == "1":
                st.faces.append({"used": True, "n": (int(w[1]), int(w[2]), int(w[3])), "typ": int(w[4]),
                                 "normal": [unhex(z) for z in w[5:8]], "area": unhex(w[8])})
            else:
                st.faces.append({"used": False})
        nE, es = items(sec["E"])
        st.edges = []
        for x in es:
            w = x.split()
            if len(w) == 4:
                st.edges.append((int(w[0]), int(w[1]), None if w[2] == "-" else int(w[2]), None if w[3] == "-" else int(w[3])))
        st.free_nodes = [int(z) for z in sec.get("FN", "").split()]
        st.free_faces = [int(z) for z in sec.get("FF", "").split()]
        assert nN == len(st.nodes) and nF == len(st.faces) and nE == len(st.edges)
    except Exception as e:
        return None
    return st


def live_tris(st):
    return [f["n"] for f in st.faces if f["used"]]


def signed_volume6(st):
    v = 0.0
    for (a, b, c) in live_tris(st):
        p, q, r = st.nodes[a]["pos"], st.nodes[b]["pos"], st.nodes[c]["pos"]
        v += dot(p, cross(q, r))
    return v


def total_area(st):
    s = 0.0
    for (a, b, c) in live_tris(st):
        p, q, r = st.nodes[a]["pos"], st.nodes[b]["pos"], st.nodes[c]["pos"]
        n = cross(sub(q, p), sub(r, p))
        s += 0.5 * math.sqrt(dot(n, n))
    return s


def total_momentum(st):
    return [sum(n["mom"][i] for n in st.nodes if n["used"]) for i in range(3)]


def topo_oracle(st):
    """C01: everything is recomputed from the triangle list of the implementation's dump alone.
    returns list of failure texts"""
    bad = []
    T = live_tris(st)
    N = len(st.nodes)
    he = {}
    for fi, f in enumerate(st.faces):
        if not f["used"]:
            continue
        a, b, c = f["n"]
        if a == b or b == c or c == a:
            bad.append("triangle %d repeats a node: %r" % (fi, f["n"]))
        for x in (a, b, c):
            if x >= N or not st.nodes[x]["used"]:
                bad.append("live triangle %d refers to dead node %d" % (fi, x))
        for e in ((a, b), (b, c), (c, a)):
            he.setdefault(e, []).append(fi)
    for (x, y), fl in he.items():
        if len(fl) != 1:
            bad.append("half-edge %d->%d is traversed %d times" % (x, y, len(fl))); break
        if (y, x) not in he:
            bad.append("edge %d-%d has no triangle traversing it in the opposite direction" % (x, y)); break
    und = {}
    for (x, y), fl in he.items():
        und.setdefault((min(x, y), max(x, y)), set()).update(fl)
    V = len({x for t in T for x in t}); E = len(und); F = len(T)
    if V - E + F != 2:
        bad.append("V-E+F = %d-%d+%d = %d" % (V, E, F, V - E + F))
    # connectedness
    if T:
        adj = {}
        for (x, y) in he:
            adj.setdefault(x, set()).add(y)
        seen = set(); todo = [T[0][0]]
        while todo:
            v = todo.pop()
            if v in seen:
                continue
            seen.add(v); todo += list(adj.get(v, ()))
        if len(seen) != V:
            bad.append("surface is not connected (%d of %d nodes reached)" % (len(seen), V))
    # bookkeeping = recomputation
    used_nodes = {i for i, n in enumerate(st.nodes) if n["used"]}
    if used_nodes != {x for t in T for x in t}:
        bad.append("set of used node slots differs from the nodes of the live triangles")
    idx = {(a, b): {f for f in (f1, f2) if f is not None} for (a, b, f1, f2) in st.edges}
    if len(idx) != len(st.edges):
        bad.append("edge index holds a duplicate edge")
    if idx != und:
        d = [k for k in set(idx) | set(und) if idx.get(k) != und.get(k)][:3]
        bad.append("edge index differs from recomputation at %r: index=%r recomputed=%r" % (d, [idx.get(k) for k in d], [und.get(k) for k in d]))
    keys = [((a + b) * (a + b + 1) // 2 + b) for (a, b, _, _) in st.edges]
    if keys != sorted(keys) or any(a > b for (a, b, _, _) in st.edges):
        bad.append("edge index not ordered by its key")
    if sorted(st.free_nodes) != sorted(set(range(N)) - used_nodes) or len(set(st.free_nodes)) != len(st.free_nodes):
        bad.append("free node queue %r is not exactly the unused slots" % st.free_nodes[:8])
    uf = {i for i, f in enumerate(st.faces) if f["used"]}
    if sorted(st.free_faces) != sorted(set(range(len(st.faces))) - uf) or len(set(st.free_faces)) != len(st.free_faces):
        bad.append("free face queue %r is not exactly the unused slots" % st.free_faces[:8])
    return bad


def normals_oracle(st, tol=1e-9):
    bad = []
    for fi, f in enumerate(st.faces):
        if not f["used"]:
            continue
        a, b, c = f["n"]
        p, q, r = st.nodes[a]["pos"], st.nodes[b]["pos"], st.nodes[c]["pos"]
        n = cross(sub(q, p), sub(r, p))
        nn = math.sqrt(dot(n, n))
        if nn == 0:
            continue
        d = dot(n, f["normal"]) / nn
        if d < 1 - tol:
            bad.append("cached normal of face %d disagrees with its winding (cos=%g)" % (fi, d))
            break
        if abs(f["area"] - 0.5 * nn) > tol * nn:
            bad.append("cached area of face %d is %g, recomputed %g" % (fi, f["area"], 0.5 * nn)); break
    return bad


# ---------------------------------------------------------------- history generation
def displace(r, st_nodes_used, P, T, scale_len, mode):
    """returns list of 'pos i x y z' lines; P is the current python-side copy of positions (list, mutable)"""
    lines = []
    ids = [i for i in st_nodes_used]
    if mode == "noise":
        amp = scale_len * r.choice([0.02, 0.1, 0.3])
        for i in ids:
            if r.randint(0, 2) == 0:
                P[i] = [P[i][k] + amp * r.normal() for k in range(3)]
                lines.append("pos %d %s" % (i, " ".join(fhex(x) for x in P[i])))
    elif mode == "grow":
        c = [sum(P[i][k] for i in ids) / len(ids) for k in range(3)]
        s = r.choice([1.3, 1.8, 0.6, 0.4, 2.5])
        for i in ids:
            P[i] = [c[k] + s * (P[i][k] - c[k]) for k in range(3)]
            lines.append("pos %d %s" % (i, " ".join(fhex(x) for x in P[i])))
    elif mode == "shear":
        k1 = r.uniform(-1.0, 1.0)
        c = [sum(P[i][k] for i in ids) / len(ids) for k in range(3)]
        for i in ids:
            P[i] = [P[i][0] + k1 * (P[i][1] - c[1]), P[i][1], P[i][2] * r.choice([1.0, 1.0, 2.0]) + 0.0]
            lines.append("pos %d %s" % (i, " ".join(fhex(x) for x in P[i])))
    elif mode == "sliver" and T:
        for _ in range(r.randint(1, 4)):
            (a, b, c) = r.choice(T)
            t = r.uniform(0.3, 0.7); eps = r.choice([0.0, 1e-3, 0.02])
            P[c] = [P[a][k] + t * (P[b][k] - P[a][k]) + eps * (P[c][k] - P[a][k]) for k in range(3)]
            lines.append("pos %d %s" % (c, " ".join(fhex(x) for x in P[c])))
    return lines


def build():
    exe, rebuilt = vlib.build_repo.build_harness(HARNESS, "h_remesh")
    return exe, vlib.driver_path("drv_c01"), rebuilt


# ---------------------------------------------------------------- interactive differential session
import subprocess


class Session:
    """feeds each request line to the real-code harness and to the model driver and compares the answers"""

    def __init__(self, exe, drv):
        self.h = subprocess.Popen([exe], stdin=subprocess.PIPE, stdout=subprocess.PIPE, stderr=subprocess.PIPE, env=vlib.ENV, text=True, bufsize=1)
        self.m = subprocess.Popen([drv], stdin=subprocess.PIPE, stdout=subprocess.PIPE, stderr=subprocess.PIPE, text=True, bufsize=1)
        self.trace = []          # request lines of the current history (the replay)
        self.disagree = []       # (line, impl, model)
        self.crashed = None
        self.absbad = []
        self.n_lines = 0
        # executed collapses whose refinement hypotheses (chkMergeHyps, C01.merge_refines) held / did not hold
        self.mhyps_held = 0
        self.mhyps_not_met = 0
        self.mhyps_desync = 0

    timeout_impl = 120       # seconds per request (a refinement pass of the largest generated mesh takes < 2 s under ASan)
    timeout_model = 600

    @staticmethod
    def _readline(proc, timeout):
        """one answer line, or None when the process stays silent for `timeout` seconds"""
        import select
        r, _, _ = select.select([proc.stdout], [], [], timeout)
        if not r:
            return None
        return proc.stdout.readline()

    def new_history(self):
        self.trace = []

    def send(self, line, compare=True):
        self.trace.append(line)
        self.n_lines += 1
        try:
            self.h.stdin.write(line + "\n"); self.h.stdin.flush()
            a = self._readline(self.h, self.timeout_impl)
        except (BrokenPipeError, OSError):
            a = ""
        if a is None:
            # the real code did not answer: "always returns or throws after a bounded number of operations" is part of C11
            try:
                self.h.kill()
            except OSError:
                pass
            self.crashed = {"line": line, "rc": "timeout", "stderr": "the real code did not return within %d s on this request" % self.timeout_impl}
            return None, None
        if a == "":
            rc = self.h.poll()
            err = ""
            try:
                err = self.h.stderr.read()[-1500:]
            except Exception:
                pass
            self.crashed = {"line": line, "rc": rc, "stderr": err}
            return None, None
        a = a.rstrip("\n")
        try:
            self.m.stdin.write(line + "\n"); self.m.stdin.flush()
            b = self._readline(self.m, self.timeout_model)
            if b is None:
                try:
                    self.m.kill()
                except OSError:
                    pass
                b = "<model driver did not answer within %d s>" % self.timeout_model
            b = b.rstrip("\n")
        except (BrokenPipeError, OSError):
            b = "<model driver died>"
        # the model appends ' # mhyps <held> <not met>' to the answers of executed collapses (single 'merge' requests and
        # 'refine' passes that performed collapses); it is counted and removed before anything else looks at the answer
        if " # mhyps" in b:
            b, tail = b.split(" # mhyps", 1)
            w = tail.split()
            if len(w) == 2 and all(x.isdigit() for x in w):
                self.mhyps_held += int(w[0]); self.mhyps_not_met += int(w[1])
            else:
                self.mhyps_desync += 1
        if compare:
            bb = b
            if "absbad" in b:
                self.absbad.append((line, b))
            # the model appends its refinement check / operation log to some answers
            for suf in (" absok-noop", " absok", " absbad"):
                if bb.endswith(suf):
                    bb = bb[: -len(suf)]
            if line.startswith("refine") and " ops " in bb:
                bb = bb.split(" ops ")[0]
            if a != bb:
                self.disagree.append((line, a[:400], bb[:400], first_diff(a, bb)))
        return a, b

    def close(self):
        for p in (self.h, self.m):
            try:
                p.stdin.close()
            except Exception:
                pass
            try:
                p.wait(timeout=5)
            except Exception:
                p.kill()


def first_diff(a, b):
    wa, wb = a.split(), b.split()
    for i, (x, y) in enumerate(zip(wa, wb)):
        if x != y:
            return "token %d: impl=%s model=%s (context: %s)" % (i, x, y, " ".join(wa[max(0, i - 6):i + 3]))
    return "lengths %d vs %d tokens" % (len(wa), len(wb))


def parse_ops(model_refine_answer):
    """'returned ops 3 : s 0 1 <hex> , m 4 5 <hex>' -> [('s',0,1,l2),...]"""
    if " : " not in model_refine_answer:
        return []
    out = []
    for it in model_refine_answer.split(" : ", 1)[1].split(" , "):
        w = it.split()
        if len(w) == 4:
            out.append((w[0], int(w[1]), int(w[2]), unhex(w[3])))
    return out
