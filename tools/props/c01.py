"""C01 — cell surfaces stay closed, consistently oriented 2-manifolds under remeshing.
Model: Model/Remesh.lean (executable mirror of cell / local_mesh_refiner bookkeeping) + Model/Surface.lean
(abstract split / swap / collapse / rename).  Theorems: Properties/C01.lean (invariant preserved by every
operation and over every history).  Tie: state-for-state differential run of the real code against the
model + per-operation refinement check concrete -> abstract + constants regenerated from the source."""
import os, sys, time, json
import vlib
import remesh_common as RC
import remesh_run as RR

PID = "C01"
NAMESPACE = "Simu.C01"
THEOREMS = ["edge_shared_by_two", "split_inv", "swap_inv", "collapse_inv", "rename_inv", "step_inv", "reach_inv",
            "split_chi", "swap_chi", "collapse_chi", "rename_chi", "step_chi", "reach_chi",
            "collapse_closed_unconditional", "split_volume", "genus0_start",
            "split_refines", "swap_refines", "concrete_split_inv", "concrete_swap_inv",
            "split_checks_sound", "swap_checks_sound",
            "merge_refines", "merge_refines_manifold", "concrete_merge_inv", "merge_checks_sound", "merge_checked",
            "merge_keeps_index", "split_keeps_index", "swap_keeps_index", "index_sound_of_complete", "merge_nonvacuous",
            "merge_guard_iff", "canBeMerged_sound", "canBeMerged_defined", "sortspec_check_sound", "sortNat_sorted", "merge_executed_refines",
            "split_vmc", "swap_vmc", "collapse_vmc", "rename_vmc", "step_vmc", "reach_vertex_manifold",
            "vertex_manifold_iff_link_connected", "concrete_split_vmc", "concrete_swap_vmc", "concrete_merge_vmc",
            "merge_executed_invariants", "merge_defined", "merge_checked_defined", "delete_face_defined",
            "reach_upTo", "reachUpTo_inv", "reachUpTo_vertex_manifold", "reachUpTo_chi", "hist_reach",
            "refine_pass_preserves", "refine_pass_history", "refine_pass_reach", "refine_pass_chi",
            "check_set_initial", "check_set_entry", "split_step_preserves", "merge_step_preserves",
            "swap_step_preserves", "refine_pass_live", "cell_ok_check_sound", "cell_ok_nonvacuous"]
GEN = ["RemeshConsts"]


def oracle_state(st, label):
    return RC.topo_oracle(st)


def oracle_refine(before, after, info):
    bad = []
    if info.get("geom_fresh"):
        bad += RC.normals_oracle(after)
    ops = info["ops"]
    if info["outcome"] == "returned" and info["swap"] == 0 and all(o[0] == "s" for o in ops):
        v0, v1 = RC.signed_volume6(before), RC.signed_volume6(after)
        if v0 > 0 and not (v1 > 0):
            bad.append("enclosed volume lost its sign in a pass made of edge splits only: %g -> %g" % (v0, v1))
    return bad


def oracle_single(op, a, b, before, after, answer):
    bad = []
    if answer == "ok":
        bad += RC.normals_oracle(after)
        F0, F1 = len(RC.live_tris(before)), len(RC.live_tris(after))
        want = {"split": 2, "merge": -2, "swap": 0}[op]
        if F1 - F0 != want:
            bad.append("%s changed the number of triangles by %d" % (op, F1 - F0))
    return bad


def run(ctx):
    tier, seed = ctx["tier"], ctx["seed"]
    t0 = time.time()
    V = vlib.Verdict(PID)
    gen = vlib.translate.run(GEN)
    proof = vlib.prove(PID, THEOREMS, NAMESPACE, extra_targets=("drv_c01",))
    for f in proof["failures"]:
        V.fail_tie("proof", "%s: %s" % (f["theorem"], f["reason"]), errors=proof["errors"][:5])
    if tier == "thorough" and proof["ok"]:
        ok, log = vlib.leanchecker("SimuVerif.Properties.C01")
        if not ok:
            V.fail_tie("proof", "leanchecker rejected SimuVerif.Properties.C01", log=log)
    n = 60 if tier == "quick" else 1500
    res = RR.run_histories(PID, tier, seed, n, oracle_state, oracle_refine, oracle_single, widen=not proof["ok"])
    if res["crash"]:
        c = res["crash"]
        V.fail_input("real code ended abnormally on '%s' (rc=%s): %s" % (c["line"], c["rc"], c["stderr"][-400:]),
                     {"requests": c["replay"]})
    for f in res["failures"][:6]:
        V.fail_input(f["what"], {"requests": f["replay"]})
    for d in res["disagreements"][:3]:
        V.fail_tie("correspondence", "model and implementation differ after '%s': %s" % (d["line"], d["where"]),
                   requests=d["replay"])
    for d in res["absbad"][:3]:
        V.fail_tie("correspondence", "concrete model does not refine the abstract operation at '%s'" % d["line"], requests=d["replay"])
    rcode, nviol = V.finish()
    st = res["stats"]
    cov = {
        "obligations": proof["obligations"], "discharged": proof["discharged"],
        "checker_cmd": "lake build SimuVerif.Properties.C01 SimuVerif.Audit.C01 drv_c01 (+ leanchecker in the thorough tier)",
        "trusted_base": vlib.TRUSTED_COMMON + [
            "link concrete bookkeeping model (Model/Remesh.lean) -> abstract operations (Model/Surface.lean): PROVED for split, swap and collapse (split_refines, swap_refines, merge_refines; their hypotheses are run-time checked: FaceFreeOk / EdgeFaces / EdgeIdxSound for split and swap, chkMergeHyps = complete edge index + vertex-manifold end nodes + link condition for the collapse, counted in statistics.merge_refinement_hyps_held / _not_met); additionally validated on every executed single operation by the driver (absok)",
            "geometric self-intersection and the floating-point behaviour of the length tests are not modelled"],
        "theorems": proof["axioms"], "proof_failures": proof["failures"], "translator": gen,
        "evaluations": st["lines"], "distinct_nontrivial": res["distinct"],
        "rule": "seeded histories on closed genus-0 meshes (subdivided tetra/octa/icosahedra mapped to ellipsoids, scales 1e-6..1, offsets): node displacements (noise/growth/shear/sliver) + real refine_mesh passes, single split/merge/swap, rebase; distinct = distinct (mesh size, displacement, swap flag, #ops, outcome) or (single op, size, answer) tuples",
        "statistics": st, "model_vs_impl_disagreements": len(res["disagreements"]),
        "oracle_failures": len(res["failures"]), "repo_objects_rebuilt": res["rebuilt"], "samples": res["samples"],
    }
    vlib.write_evidence(PID, tier, "proof", cov, [
        "input meshes are consistently outward oriented (check_face_normal_orientation is exercised by C12/C13)",
        "DYNAMIC_MODEL_INDEX 0 (default build)"], time.time() - t0, nviol)
    return rcode


def replay(ctx):
    rp = ctx["replay"]
    req = rp.get("failing_input", {}).get("input", {}).get("requests")
    if not req:
        for b in rp.get("no_longer_checks", []):
            req = b.get("requests") or req
    if not req:
        print(json.dumps(rp)[:3000]); return 1
    exe, drv, _ = RC.build()
    S = RC.Session(exe, drv)
    bad = []
    for l in req:
        a, b = S.send(l)
        if a is None:
            print("real code ended abnormally at", l, S.crashed); return 1
        if l == "dump":
            st = RC.parse_dump(a)
            bad += RC.topo_oracle(st) if st else ["unparseable dump"]
    S.close()
    print("disagreements:", S.disagree[:3]); print("oracle:", bad[:5])
    return 1 if (bad or S.disagree) else 0
