"""C02 helpers: closed-mesh generators (icospheres, octaspheres, UV spheres; ellipsoids, dents, jitter,
rotation, scale, offset), request lines of harness/h_forces.cpp, exact oracles (Fractions / Decimal)."""
import math, os, re
from fractions import Fraction as Fr
from decimal import Decimal, getcontext
import vlib
from vlib import fhex, unhex

getcontext().prec = 60


# ------------------------------------------------------------------------------ base polyhedra
def icosahedron():
    t = (1.0 + math.sqrt(5.0)) / 2.0
    v = [(-1, t, 0), (1, t, 0), (-1, -t, 0), (1, -t, 0), (0, -1, t), (0, 1, t), (0, -1, -t), (0, 1, -t),
         (t, 0, -1), (t, 0, 1), (-t, 0, -1), (-t, 0, 1)]
    f = [(0, 11, 5), (0, 5, 1), (0, 1, 7), (0, 7, 10), (0, 10, 11), (1, 5, 9), (5, 11, 4), (11, 10, 2), (10, 7, 6),
         (7, 1, 8), (3, 9, 4), (3, 4, 2), (3, 2, 6), (3, 6, 8), (3, 8, 9), (4, 9, 5), (2, 4, 11), (6, 2, 10), (8, 6, 7), (9, 8, 1)]
    return [list(map(float, p)) for p in v], [tuple(x) for x in f]


def octahedron():
    v = [(1, 0, 0), (-1, 0, 0), (0, 1, 0), (0, -1, 0), (0, 0, 1), (0, 0, -1)]
    f = [(0, 2, 4), (2, 1, 4), (1, 3, 4), (3, 0, 4), (2, 0, 5), (1, 2, 5), (3, 1, 5), (0, 3, 5)]
    return [list(map(float, p)) for p in v], f


def tetrahedron():
    v = [(1, 1, 1), (1, -1, -1), (-1, 1, -1), (-1, -1, 1)]
    f = [(0, 1, 2), (0, 3, 1), (0, 2, 3), (1, 3, 2)]
    return [list(map(float, p)) for p in v], f


def subdivide(v, f):
    v = [list(p) for p in v]
    mid = {}
    out = []

    def m(a, b):
        k = (min(a, b), max(a, b))
        if k not in mid:
            mid[k] = len(v)
            v.append([(v[a][i] + v[b][i]) / 2.0 for i in range(3)])
        return mid[k]
    for (a, b, c) in f:
        ab, bc, ca = m(a, b), m(b, c), m(c, a)
        out += [(a, ab, ca), (b, bc, ab), (c, ca, bc), (ab, bc, ca)]
    return v, out


def uvsphere(m, n):
    """m >= 3 meridians, n >= 2 latitude bands: 2 + m(n-1) nodes, 2m(n-1) faces"""
    v = [[0.0, 0.0, 1.0]]
    for j in range(1, n):
        th = math.pi * j / n
        for i in range(m):
            ph = 2 * math.pi * (i + 0.5 * (j % 2)) / m
            v.append([math.sin(th) * math.cos(ph), math.sin(th) * math.sin(ph), math.cos(th)])
    v.append([0.0, 0.0, -1.0])
    south = len(v) - 1
    ring = lambda j, i: 1 + (j - 1) * m + (i % m)
    f = []
    for i in range(m):
        f.append((0, ring(1, i), ring(1, i + 1)))
    for j in range(1, n - 1):
        for i in range(m):
            a, b, c, d = ring(j, i), ring(j, i + 1), ring(j + 1, i), ring(j + 1, i + 1)
            f.append((a, c, b))
            f.append((b, c, d))
    for i in range(m):
        f.append((south, ring(n - 1, i + 1), ring(n - 1, i)))
    return v, f


def normalize(v):
    out = []
    for p in v:
        n = math.sqrt(sum(x * x for x in p))
        out.append([x / n for x in p])
    return out


def signed_volume6(v, f):
    s = 0.0
    for (a, b, c) in f:
        p, q, r = v[a], v[b], v[c]
        s += p[0] * (q[1] * r[2] - q[2] * r[1]) + p[1] * (q[2] * r[0] - q[0] * r[2]) + p[2] * (q[0] * r[1] - q[1] * r[0])
    return s


def orient_outward(v, f):
    """propagate a consistent winding over the (closed, manifold) surface, then make the volume positive"""
    f = [tuple(t) for t in f]
    he = {}
    for i, (a, b, c) in enumerate(f):
        for e in ((a, b), (b, c), (c, a)):
            he.setdefault((min(e), max(e)), []).append(i)
    done = [False] * len(f)
    done[0] = True
    todo = [0]
    while todo:
        i = todo.pop()
        a, b, c = f[i]
        for e in ((a, b), (b, c), (c, a)):
            for j in he[(min(e), max(e))]:
                if j == i or done[j]:
                    continue
                p, q, r = f[j]
                if e in ((p, q), (q, r), (r, p)):      # same direction in the neighbour: flip it
                    f[j] = (p, r, q)
                done[j] = True
                todo.append(j)
    if signed_volume6(v, f) < 0:
        f = [(a, c, b) for (a, b, c) in f]
    return f


def is_closed_oriented(f):
    s = {}
    for (a, b, c) in f:
        for e in ((a, b), (b, c), (c, a)):
            if e in s:
                return False
            s[e] = 1
    return all((b, a) in s for (a, b) in s)


# ------------------------------------------------------------------------------ shaping
def rot_matrix(r):
    """random rotation from a unit quaternion"""
    q = [r.normal() for _ in range(4)]
    n = math.sqrt(sum(x * x for x in q))
    w, x, y, z = [c / n for c in q]
    return [[1 - 2 * (y * y + z * z), 2 * (x * y - z * w), 2 * (x * z + y * w)],
            [2 * (x * y + z * w), 1 - 2 * (x * x + z * z), 2 * (y * z - x * w)],
            [2 * (x * z - y * w), 2 * (y * z + x * w), 1 - 2 * (x * x + y * y)]]


def matvec(M, p):
    return [M[i][0] * p[0] + M[i][1] * p[1] + M[i][2] * p[2] for i in range(3)]


def gen_mesh(r, tier="quick", small=False):
    """returns dict(kind, v, f) : unit-size closed outward-oriented mesh (before scale/offset)"""
    kind = r.choice(["ico", "ico", "octa", "uv", "uv", "uv", "tetra"]) if not small else r.choice(["tetra0", "octa0", "ico0", "uv_s"])
    if kind == "ico":
        v, f = icosahedron()
        k = r.choice([1, 1, 2, 2] + ([3, 3] if tier == "thorough" else []))
        for _ in range(k):
            v, f = subdivide(v, f)
    elif kind == "ico0":
        v, f = icosahedron()
    elif kind == "octa":
        v, f = octahedron()
        for _ in range(r.choice([1, 2, 3, 3] + ([4] if tier == "thorough" else []))):
            v, f = subdivide(v, f)
    elif kind == "octa0":
        v, f = octahedron()
    elif kind == "tetra0":
        v, f = tetrahedron()
    elif kind == "tetra":
        v, f = tetrahedron()
        for _ in range(r.choice([1, 2, 3, 4])):
            v, f = subdivide(v, f)
    elif kind == "uv_s":
        v, f = uvsphere(r.randint(3, 5), r.randint(2, 3))
    else:
        m = r.randint(3, 30 if tier == "quick" else 40)
        n = r.randint(2, 16 if tier == "quick" else 26)
        v, f = uvsphere(m, n)
    v = normalize(v)
    shape = []
    # ellipsoid
    if r.randint(0, 2) > 0:
        ax = [r.uniform(0.5, 2.0) for _ in range(3)]
        v = [[p[i] * ax[i] for i in range(3)] for p in v]
        shape.append("ellipsoid")
    # dent (keeps the surface star-shaped => orientation and closedness are kept, some hinges become concave)
    if r.randint(0, 2) == 0:
        p0 = v[r.randint(0, len(v) - 1)]
        depth = r.uniform(0.2, 0.6)
        wd = r.uniform(0.3, 0.9)
        nv = []
        for p in v:
            d2 = sum((p[i] - p0[i]) ** 2 for i in range(3))
            s = 1.0 - depth * math.exp(-d2 / (wd * wd))
            nv.append([x * s for x in p])
        v = nv
        shape.append("dented")
    # jitter
    if r.randint(0, 1) == 0 and len(f) >= 20:
        L = math.sqrt(4 * math.pi / len(f))
        amp = r.uniform(0.02, 0.12) * L
        v = [[x + amp * r.uniform(-1, 1) for x in p] for p in v]
        shape.append("jitter")
    M = rot_matrix(r)
    v = [matvec(M, p) for p in v]
    f = orient_outward(v, f)
    return {"kind": kind + ("+" + "+".join(shape) if shape else ""), "v": v, "f": f}


def place(v, scale, off):
    return [[p[i] * scale + off[i] for i in range(3)] for p in v]


# ------------------------------------------------------------------------------ exact geometry
def fr3(p):
    return [Fr(x) for x in p]


def cross(a, b):
    return [a[1] * b[2] - a[2] * b[1], a[2] * b[0] - a[0] * b[2], a[0] * b[1] - a[1] * b[0]]


def sub(a, b):
    return [a[0] - b[0], a[1] - b[1], a[2] - b[2]]


def dot(a, b):
    return a[0] * b[0] + a[1] * b[1] + a[2] * b[2]


def volume6_exact(V, f):
    return sum(dot(V[a], cross(V[b], V[c])) for (a, b, c) in f)


def dsqrt(fr):
    return (Decimal(fr.numerator) / Decimal(fr.denominator)).sqrt()


def area_exact(V, t):
    a, b, c = t
    n = cross(sub(V[b], V[a]), sub(V[c], V[a]))
    return dsqrt(dot(n, n)) / 2


def todec(fr):
    return Decimal(fr.numerator) / Decimal(fr.denominator)


# ------------------------------------------------------------------------------ request / answer
PARAM_KEYS = ["K", "maxP", "aem", "iso", "angf", "minvol", "growth", "tvol", "dt"]


def line_of(case):
    w = ["forces", str(len(case["v"])), str(len(case["f"])), str(len(case["ft"]))]
    w += [fhex(case["p"][k]) for k in PARAM_KEYS]
    for (t, b) in case["ft"]:
        w += [fhex(t), fhex(b)]
    for p in case["v"]:
        w += [fhex(p[0]), fhex(p[1]), fhex(p[2])]
    for (a, b, c), ty in zip(case["f"], case["ftype"]):
        w += [str(a), str(b), str(c), str(ty)]
    return " ".join(w)


def case_of_line(line):
    w = line.split()
    nn, nf, nt = int(w[1]), int(w[2]), int(w[3])
    k = 4
    p = {}
    for key in PARAM_KEYS:
        p[key] = unhex(w[k]); k += 1
    ft = []
    for _ in range(nt):
        ft.append((unhex(w[k]), unhex(w[k + 1]))); k += 2
    v = []
    for _ in range(nn):
        v.append([unhex(w[k]), unhex(w[k + 1]), unhex(w[k + 2])]); k += 3
    f, ftype = [], []
    for _ in range(nf):
        f.append((int(w[k]), int(w[k + 1]), int(w[k + 2]))); ftype.append(int(w[k + 3])); k += 4
    return {"v": v, "f": f, "ftype": ftype, "ft": ft, "p": p}


TERMS = ["all", "pressure", "tension", "bending", "angle"]


def parse_answer(line, nn):
    """-> dict(unchanged, P, V, A, At, forces{term: [[x,y,z]*nn]}) or None"""
    w = line.split()
    if len(w) != 6 + 5 * 3 * nn or w[0] != "ok":
        return None
    try:
        out = {"unchanged": w[1] == "1", "P": unhex(w[2]), "V": unhex(w[3]), "A": unhex(w[4]), "At": unhex(w[5]), "forces": {}}
        k = 6
        for t in TERMS:
            fl = []
            for _ in range(nn):
                fl.append([unhex(w[k]), unhex(w[k + 1]), unhex(w[k + 2])]); k += 3
            out["forces"][t] = fl
        return out
    except ValueError:
        return None


# ------------------------------------------------------------------------------ corpus mesh from /repo
def read_vtk_polyhedron(path):
    txt = open(path).read()
    m = re.search(r"POINTS\s+(\d+)\s+\w+\s+(.*?)\s+CELLS\s+\d+\s+\d+\s+(.*?)\s+CELL_TYPES", txt, re.S)
    if not m:
        return None
    n = int(m.group(1))
    xs = [float(x) for x in m.group(2).split()]
    v = [xs[3 * i:3 * i + 3] for i in range(n)]
    ys = [int(x) for x in m.group(3).split()]
    nf = ys[1]
    f = []
    k = 2
    for _ in range(nf):
        assert ys[k] == 3
        f.append((ys[k + 1], ys[k + 2], ys[k + 3])); k += 4
    return v, f


# ------------------------------------------------------------------------------ refined cells (unused slots)
def refine_line_of(case):
    """request of harness/h_forces.cpp that runs the real refine_mesh(l_min, l_max) before computing the forces"""
    w = line_of(case).split()
    return " ".join(["refine", fhex(case["l_min"]), fhex(case["l_max"]), str(int(case["swap"]))] + w[1:])


def case_of_refine_line(line):
    w = line.split()
    c = case_of_line(" ".join(["forces"] + w[4:]))
    c["l_min"], c["l_max"], c["swap"] = unhex(w[1]), unhex(w[2]), int(w[3])
    return c


def parse_refined(line):
    """okr answer -> dict(P,V,A,At, used_nodes, v (slot positions), slots [(used,a,b,c,ty)], edges [(n1,n2,f1,f2)],
    forces{term: per node slot}) or None"""
    w = line.split()
    if len(w) < 8 or w[0] != "okr":
        return None
    try:
        nn, nf, ne = int(w[1]), int(w[2]), int(w[3])
        if len(w) != 8 + 4 * nn + 5 * nf + 4 * ne + 15 * nn:
            return None
        out = {"unchanged": True, "P": unhex(w[4]), "V": unhex(w[5]), "A": unhex(w[6]), "At": unhex(w[7]), "forces": {}}
        k = 8
        out["used_nodes"], out["v"] = [], []
        for _ in range(nn):
            out["used_nodes"].append(w[k] == "1")
            out["v"].append([unhex(w[k + 1]), unhex(w[k + 2]), unhex(w[k + 3])]); k += 4
        out["slots"] = []
        for _ in range(nf):
            out["slots"].append((w[k] == "1", int(w[k + 1]), int(w[k + 2]), int(w[k + 3]), int(w[k + 4]))); k += 5
        out["edges"] = []
        for _ in range(ne):
            out["edges"].append((int(w[k]), int(w[k + 1]), int(w[k + 2]), int(w[k + 3]))); k += 4
        for t in TERMS:
            fl = []
            for _ in range(nn):
                fl.append([unhex(w[k]), unhex(w[k + 1]), unhex(w[k + 2])]); k += 3
            out["forces"][t] = fl
        return out
    except ValueError:
        return None


def live_case(case, ref):
    """the refined cell as a case for the oracles: node slots as nodes (unused ones carry no face), used faces only"""
    f, ftype = [], []
    for (u, a, b, c, ty) in ref["slots"]:
        if u:
            f.append((a, b, c)); ftype.append(ty)
    c2 = dict(case)
    c2["v"], c2["f"], c2["ftype"] = ref["v"], f, ftype
    return c2


def slots_line_of(case, ref):
    """request of the model driver: the live mesh dumped by the harness, unused slots marked"""
    w = ["slots", str(len(ref["v"])), str(len(ref["slots"])), str(len(ref["edges"])), str(len(case["ft"]))]
    w += [fhex(case["p"][k]) for k in PARAM_KEYS]
    for (t, b) in case["ft"]:
        w += [fhex(t), fhex(b)]
    for p in ref["v"]:
        w += [fhex(p[0]), fhex(p[1]), fhex(p[2])]
    for (u, a, b, c, ty) in ref["slots"]:
        w += ["1" if u else "0", str(a), str(b), str(c), str(ty)]
    for e in ref["edges"]:
        w += [str(z) for z in e]
    return " ".join(w)


def edge_set_problem(ref):
    """None when the stored edge set is exactly the set of sides of the used faces, each edge between two used
    faces that have both its nodes"""
    sides = {}
    for k, (u, a, b, c, ty) in enumerate(ref["slots"]):
        if u:
            for e in ((a, b), (b, c), (c, a)):
                sides.setdefault((min(e), max(e)), []).append(k)
    seen = set()
    for (n1, n2, f1, f2) in ref["edges"]:
        key = (min(n1, n2), max(n1, n2))
        if key in seen:
            return "edge %r stored twice" % (key,)
        seen.add(key)
        if f1 < 0 or f2 < 0 or sorted(sides.get(key, [])) != sorted([f1, f2]):
            return "edge %r is stored with faces %r but the used faces having it are %r" % (key, (f1, f2), sides.get(key))
    if seen != set(sides):
        return "sides without a stored edge: %r" % (sorted(set(sides) - seen)[:3],)
    return None
