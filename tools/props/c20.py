"""C20 — spatial grids (uspg_3d / uspg_4d) index every in-range point and never miss a neighbour.

Tie      : tools/gen/c20_grid.py regenerates lean/SimuVerif/Gen/Grid.lean (update_dimensions, voxel index with
           floor/cast/clamp, flattening, clipped 3x3x3 block) from include/uspg/*.hpp on every run; the containers
           and loops (Model/Grid.lean) are compared with the real classes: harness/h_grid.cpp vs lean/Driver/C20.lean
           must print the same text (indices, voxel contents, neighbourhoods and full content IN ORDER, corners bitwise).
Theorems : lean/SimuVerif/Properties/C20.lean.
Oracle   : brute force over the stored points in exact Fractions on the answers of the real code."""
import os, sys, time, json, math
from fractions import Fraction as Fr
import vlib
from vlib import Rng, fhex, unhex

PID = "C20"
NAMESPACE = "Simu.C20"
THEOREMS = ["dims3_eq_dims4", "nb_pos", "box_inside_grid", "index_cast_defined", "index_in_range",
            "index_in_range_any_floor", "voxel_contains", "index_monotone", "index_monotone_of_monotone_floor",
            "flatten_lt", "flatten_injective", "flatten_surjective", "write_in_range", "reads_in_range",
            "retrievable4", "retrievable3", "stored3", "floor_adjacent", "index_adjacent", "neighbour_voxel_visited",
            "neighbourhood_complete4", "neighbourhood_complete4_euclid",
            "neighbourhood_complete3", "neighbourhood_complete3_euclid",
            "content_exactly_once4", "content_exactly_once3"]
GEN = ["Grid"]
GRAY = Fr(1, 2 ** 40)        # relative width of the band below "distance = voxel size" where a miss is attributed to rounding
QTOL = 64.0 * 2.0 ** -52     # relative tolerance (in voxels) of the containment check


# ---------------------------------------------------------------- generator
def clampf(x, a, b):
    return a if x < a else (b if x > b else x)


def gen_case(r, stats=None):
    kind = r.choice("34")
    vmode = r.randint(0, 5)
    scale = 10.0 ** r.uniform(-7, 3)
    if vmode <= 1:        # dyadic voxel size: products and quotients are exact, extents can be exact multiples
        v = 2.0 ** r.randint(-24, 10)
    elif vmode == 2:      # decimal sizes (0.1, 0.3 …) times a power of ten: rounding-sensitive
        v = r.choice([0.1, 0.3, 0.7, 1.1, 2.5, 0.25]) * 10.0 ** r.randint(-7, 3)
    else:
        v = scale * r.uniform(0.5, 2.0)
    shape = r.randint(0, 9)
    if shape == 0:
        nb = [1, 1, 1]
    elif shape == 1:      # slabs and rods
        nb = [r.choice([1, 2]), r.randint(1, 24), r.choice([1, 2, 3])]
        r.shuffle(nb)
    else:
        nb = [r.randint(1, 9) for _ in range(3)]
    omode = r.randint(0, 6)
    mn = []
    for a in range(3):
        if omode == 0:
            mn.append(0.0)
        elif omode == 1:  # whole numbers of voxels away from the origin, magnitude >= 2 v: the absolute padding is absorbed
            mn.append(v * r.randint(-40, 40))
        elif omode == 2:  # far from the origin compared with the extent
            mn.append(v * r.choice([1, -1]) * r.uniform(1e2, 1e4))
        elif omode == 3:  # unit-sized coordinates whatever the voxel size (2.0, -3.0, …)
            mn.append(float(r.randint(-5, 5)))
        else:
            mn.append(v * r.uniform(-30, 30))
    emode = r.randint(0, 5)
    mx = []
    for a in range(3):
        if emode <= 1:      # extent = whole number of voxels
            e = nb[a] * v
        elif emode == 2:    # one ulp above / below a whole number of voxels
            e = nb[a] * v
            e = math.nextafter(e, r.choice([0.0, math.inf]))
        elif emode == 3:    # a little less than a whole number
            e = (nb[a] - r.choice([1e-9, 1e-6, 1e-3])) * v
        else:
            e = (nb[a] - r.uniform(0.03, 0.97)) * v
        m = mn[a] + e
        if not m > mn[a]:
            m = math.nextafter(mn[a], math.inf)
        mx.append(m)
    box = mn + mx

    def rnd_point():
        p = []
        pm = r.randint(0, 9)
        for a in range(3):
            if pm <= 3:
                x = mn[a] + (mx[a] - mn[a]) * r.uniform()
            elif pm == 4:     # on faces / edges / corners
                x = r.choice([mn[a], mx[a], mn[a] + (mx[a] - mn[a]) * r.uniform()])
            elif pm == 5:     # a corner
                x = r.choice([mn[a], mx[a]])
            elif pm == 6:     # on a voxel boundary
                x = mn[a] + v * r.randint(0, nb[a])
            elif pm == 7:     # one ulp beside a voxel boundary
                x = math.nextafter(mn[a] + v * r.randint(0, nb[a]), r.choice([-math.inf, math.inf]))
            elif pm == 8:     # the maximum corner
                x = mx[a]
            else:
                x = mn[a] + v * (r.randint(0, nb[a]) + r.choice([0.5, 0.25, 0.999, 0.001]))
            p.append(clampf(x, mn[a], mx[a]))
        return p
    npts = r.choice([0, 1, 2, 3, 5, 8, 12, 16])
    pts = []
    for _ in range(npts):
        if pts and r.randint(0, 6) == 0:
            pts.append(list(r.choice(pts)))        # the same position again (uspg_3d overwrites, uspg_4d stacks)
        else:
            pts.append(rnd_point())
    nq = r.randint(1, 6)
    qs = []
    for _ in range(nq):
        qm = r.randint(0, 7)
        if qm <= 2 or not pts:
            q = rnd_point()
        elif qm == 3:
            q = list(r.choice(pts))
        else:           # at (about) one voxel size from a stored point: along an axis, or in a random direction
            s = r.choice(pts)
            f = r.choice([1.0, 1.0, 1.0 - 1e-12, 1.0 + 1e-12, 0.999, 1.001, 0.5, 1.5, 2.0])
            if qm <= 5:
                a = r.randint(0, 2)
                d = [0.0, 0.0, 0.0]
                d[a] = r.choice([1.0, -1.0])
            else:
                d = [r.normal() for _ in range(3)]
                n = math.sqrt(sum(x * x for x in d)) or 1.0
                d = [x / n for x in d]
            q = [clampf(s[a] + f * v * d[a], mn[a], mx[a]) for a in range(3)]
        qs.append(q)
    if stats is not None:
        for k, val in (("kind", kind), ("voxel_mode", vmode), ("origin_mode", omode), ("extent_mode", emode), ("shape", shape)):
            stats.setdefault(k, {})
            stats[k][str(val)] = stats[k].get(str(val), 0) + 1
    return {"kind": kind, "box": box, "v": v, "pts": pts, "qs": qs}


def line_of(c):
    return ("grid %s " % c["kind"] + " ".join(fhex(x) for x in c["box"] + [c["v"]]) + " %d" % len(c["pts"])
            + "".join(" " + fhex(x) for p in c["pts"] for x in p) + " %d" % len(c["qs"])
            + "".join(" " + fhex(x) for q in c["qs"] for x in q))


def case_of_line(line):
    w = line.split()
    kind = w[1]
    b = [unhex(x) for x in w[2:9]]
    n = int(w[9])
    pl = [unhex(x) for x in w[10:10 + 3 * n]]
    m = int(w[10 + 3 * n])
    ql = [unhex(x) for x in w[11 + 3 * n:11 + 3 * n + 3 * m]]
    return {"kind": kind, "box": b[:6], "v": b[6], "pts": [pl[3 * i:3 * i + 3] for i in range(n)],
            "qs": [ql[3 * i:3 * i + 3] for i in range(m)]}


# ---------------------------------------------------------------- answers
def parse_list(tok):
    if tok == "oob":
        return None
    body = tok[1:-1]
    return [int(x) for x in body.split(",")] if body else []


def parse_out(line):
    try:
        secs = [s.strip() for s in line.split("|")]
        h = secs[0].split()
        if h[0] != "nb" or h[5] != "c" or len(h) != 12:
            return None
        out = {"nb": [int(h[1]), int(h[2]), int(h[3])], "total": int(h[4]),
               "min": [unhex(x) for x in h[6:9]], "max": [unhex(x) for x in h[9:12]]}
        i = secs[1].split()
        assert i[0] == "i"
        out["ix"] = [tuple(int(x) for x in t.split(",")) for t in i[1:]]
        vv = secs[2].split()
        assert vv[0] == "v"
        out["vox"] = [parse_list(t) for t in vv[1:]]
        nn = secs[3].split()
        assert nn[0] == "n"
        out["nbh"] = [parse_list(t) for t in nn[1:]]
        aa = secs[4].split()
        assert aa[0] == "a" and len(aa) == 2
        out["all"] = parse_list(aa[1])
        return out
    except (IndexError, ValueError, AssertionError):
        return None


# ---------------------------------------------------------------- exact oracle
def oracle(c, o, tally=None):
    """checks the answers of the real code against the property, in exact arithmetic.  Returns a list of
    failure texts (empty when the property holds on this scenario)."""
    fails = []
    kind, pts, qs = c["kind"], c["pts"], c["qs"]
    v = Fr(c["v"])
    nb = o["nb"]
    if min(nb) < 1 or o["total"] != nb[0] * nb[1] * nb[2]:
        return ["grid has %r voxels per axis and a vector of %d voxels" % (nb, o["total"])]
    if len(o["ix"]) != len(pts) or len(o["vox"]) != len(pts) or len(o["nbh"]) != len(qs):
        return ["answer has the wrong number of entries"]
    # (1) every point of the closed box maps to an existing voxel (and that voxel contains it)
    bad = False
    for k, p in enumerate(pts):
        ix = o["ix"][k]
        if any(ix[a] >= nb[a] for a in range(3)) or o["vox"][k] is None:
            fails.append("point %d %r of the box [%r, %r] maps to voxel %r of a grid with %r voxels (voxel size %r)"
                         % (k, p, c["box"][:3], c["box"][3:], ix, nb, c["v"]))
            bad = True
            continue
        for a in range(3):
            t = (Fr(p[a]) - Fr(o["min"][a])) / v
            tol = Fr(QTOL) * max(1, abs(t))
            # the last voxel of an axis is closed: it holds everything up to the declared maximum (clamp)
            if not (ix[a] - tol <= t and (t <= ix[a] + 1 + tol or ix[a] == nb[a] - 1)):
                fails.append("point %d %r is mapped to voxel %r but lies at %.17g voxel sizes from the origin on axis %d"
                             % (k, p, ix, float(t), a))
                bad = True
    for j, q in enumerate(qs):
        if o["nbh"][j] is None:
            fails.append("query point %d %r of the box maps to a voxel outside the grid of %r voxels" % (j, q, nb))
            bad = True
    if bad:
        return fails
    # which objects are stored: all of them (4d) / the last one placed in each voxel (3d)
    last = {}
    for k in range(len(pts)):
        last[o["ix"][k]] = k
    stored = list(range(len(pts))) if kind == "4" else sorted(last.values())
    # (2) an object is retrievable from the voxel it was placed in
    for k in range(len(pts)):
        if kind == "4":
            if k not in o["vox"][k]:
                fails.append("object %d placed at %r is not in the content %r of its voxel %r" % (k, pts[k], o["vox"][k], o["ix"][k]))
            exp = sorted(j for j in range(len(pts)) if o["ix"][j] == o["ix"][k])
            if sorted(o["vox"][k]) != exp:
                fails.append("voxel %r holds %r, the objects placed there are %r" % (o["ix"][k], o["vox"][k], exp))
        else:
            if o["vox"][k] != [last[o["ix"][k]]]:
                fails.append("voxel %r of uspg_3d holds %r, the last object placed there is %d" % (o["ix"][k], o["vox"][k], last[o["ix"][k]]))
    # (3) a neighbourhood query returns every stored object within one voxel size
    v2 = v * v
    lim2 = v2 * (1 - GRAY) ** 2
    for j, q in enumerate(qs):
        got = set(o["nbh"][j])
        if not got <= set(stored):
            fails.append("neighbourhood of %r returns %r, objects never stored: %r" % (q, o["nbh"][j], sorted(got - set(stored))))
        for k in stored:
            d2 = sum((Fr(q[a]) - Fr(pts[k][a])) ** 2 for a in range(3))
            if d2 > v2:
                continue
            if tally is not None:
                tally["pairs_required"] += 1
            if d2 > lim2:
                if tally is not None:
                    tally["pairs_gray"] += 1
                    if k not in got:
                        tally["gray_misses"] += 1
                continue
            if k not in got:
                fails.append("neighbourhood of %r misses object %d at %r: distance %.17g <= voxel size %.17g"
                             % (q, k, pts[k], math.sqrt(float(d2)), c["v"]))
    # (4) the full-content query returns each stored object exactly once
    if sorted(o["all"]) != stored:
        fails.append("full content %r differs from the stored objects %r" % (sorted(o["all"]), stored))
    return fails


def mk(kind, box, v, pts, qs):
    return {"kind": kind, "box": [float(x) for x in box], "v": float(v), "pts": [[float(x) for x in p] for p in pts],
            "qs": [[float(x) for x in q] for q in qs]}


CORPUS = []
for _k in "43":
    # the known finding: box [2,3]^3, voxel 0.25: 4 voxels per axis, the maximum corner had index 4
    CORPUS.append(mk(_k, [2, 2, 2, 3, 3, 3], 0.25, [[3, 3, 3], [2, 2, 2], [2.3, 2.6, 2.9], [3, 2.5, 2]], [[3, 3, 3], [2.8, 2.8, 2.8], [2, 2, 2]]))
    # the grid of the repository's own unit tests with a point on its upper corner
    CORPUS.append(mk(_k, [0, 0, 0, 3, 3, 3], 1.0, [[0, 0, 0], [1.5, 1.5, 1.5], [3, 3, 3], [3, 0, 1]], [[2.2, 2.2, 2.2], [3, 3, 3]]))
    CORPUS.append(mk(_k, [0, 0, 0, 10, 9.5, 9], 1.0, [[10, 9.5, 9], [9.5, 9.2, 8.1], [0, 9.5, 0]], [[9.1, 9.1, 8.9], [10, 9.5, 9]]))
    CORPUS.append(mk(_k, [-1e-6, 2e-6, 0, 3e-6, 5e-6, 1e-6], 1e-6, [[3e-6, 5e-6, 1e-6], [1e-6, 3e-6, 0.5e-6]], [[2.5e-6, 4.5e-6, 0.9e-6]]))


def evaluate(V, cases, lines, impl, model, tier, proof_ok, tally, samples):
    oracle_fail = 0
    disagreements = 0
    identical = 0
    nontrivial = set()
    for i, c in enumerate(cases):
        if i >= len(impl):
            break
        if impl[i] == "crash":
            continue
        o = parse_out(impl[i])
        if o is None:
            V.fail_input("unparseable harness answer %r" % impl[i][:200], {"line": lines[i], "case": c})
            continue
        if c["pts"] and c["qs"]:
            nontrivial.add(lines[i])
        if i < 3:
            samples.append({"line": lines[i][:400], "case": c, "impl": impl[i][:400]})
        msgs = oracle(c, o, tally)
        if msgs:
            oracle_fail += 1
            if oracle_fail <= 3:
                V.fail_input(msgs[0], {"line": lines[i], "case": c, "impl": impl[i], "all_failures": msgs[:6]}, key=None)
        if model is not None and i < len(model):
            if impl[i].split() == model[i].split():
                identical += 1
            else:
                disagreements += 1
                if disagreements <= 3:
                    V.fail_tie("correspondence", "model and implementation differ on a scenario: impl=%r model=%r" % (impl[i][:300], model[i][:300]),
                               line=lines[i], case=c)
    return oracle_fail, disagreements, identical, len(nontrivial)


def run(ctx):
    tier, seed = ctx["tier"], ctx["seed"]
    t0 = time.time()
    V = vlib.Verdict(PID)
    gen = vlib.translate.run(GEN)
    proof = vlib.prove(PID, THEOREMS, NAMESPACE, extra_targets=("drv_c20",))
    for f in proof["failures"]:
        V.fail_tie("proof", "%s: %s" % (f["theorem"], f["reason"]), errors=proof["errors"][:5])
    if tier == "thorough" and proof["ok"]:
        ok, log = vlib.leanchecker("SimuVerif.Properties.C20")
        if not ok:
            V.fail_tie("proof", "leanchecker rejected SimuVerif.Properties.C20", log=log)
    exe, rebuilt = vlib.build_repo.build_harness(os.path.join(vlib.VERIF, "harness", "h_grid.cpp"), "h_grid", link_repo=False)
    n = 5000 if tier == "quick" else 60000
    if not proof["ok"]:
        n = max(n, 20000)      # a proof broke: widen the search for a concrete failing input
    r = Rng(seed)
    stats = {}
    cases = list(CORPUS) + [gen_case(r, stats) for _ in range(n)]
    lines = [line_of(c) for c in cases]
    # a scenario on which the real code dies (sanitizer report) is a failing input; the rest is still evaluated
    impl, crashed, start = [], None, 0
    while start < len(lines):
        o, rc, err = vlib.run_lines(exe, lines[start:], timeout=1500)
        impl += o
        if rc == 0 and len(impl) == len(lines):
            break
        k = min(len(impl), len(lines) - 1)
        if crashed is None:
            crashed = k
            V.fail_input("the real grid code ended abnormally (rc=%s) on this scenario: %s" % (rc, err[-700:]),
                         {"line": lines[k], "case": cases[k]}, key=None)
        impl = impl[:k] + ["crash"]
        start = k + 1
        if impl.count("crash") >= 8:
            break
    drv = vlib.driver_path("drv_c20")
    model = None
    if os.path.exists(drv) and "error" not in gen.get("Grid", {}):
        model, rc2, err2 = vlib.run_lines(drv, lines, timeout=1500)
        if rc2 != 0 or len(model) != len(lines):
            V.fail_tie("correspondence", "model driver ended abnormally (rc=%s) %s" % (rc2, err2[-300:]))
            model = None
    else:
        V.fail_tie("correspondence", "model driver missing or translation failed: %s" % gen.get("Grid", {}).get("error", "lake build failed"))
    tally = {"pairs_required": 0, "pairs_gray": 0, "gray_misses": 0}
    samples = []
    oracle_fail, disagreements, identical, nontrivial = evaluate(V, cases, lines, impl, model, tier, proof["ok"], tally, samples)
    rcode, nviol = V.finish()
    npts = sum(len(c["pts"]) for c in cases)
    on_boundary = sum(1 for c in cases for p in c["pts"] if any(p[a] == c["box"][a] or p[a] == c["box"][a + 3] for a in range(3)))
    on_max = sum(1 for c in cases for p in c["pts"] if any(p[a] == c["box"][a + 3] for a in range(3)))
    cov = {
        "obligations": proof["obligations"], "discharged": proof["discharged"],
        "checker_cmd": "lake build SimuVerif.Properties.C20 SimuVerif.Audit.C20 drv_c20 (+ lake env leanchecker in the thorough tier)",
        "trusted_base": vlib.TRUSTED_COMMON + [
            "tools/gen/c20_grid.py (typed translation of the uspg headers: unsigned -> Nat without 32-bit wrap-around, static_cast<unsigned>(floor/ceil) -> Int.toNat)",
            "Model/Grid.lean: std::vector / forward_list / optional and the x{y{z{ loops are hand-modelled; compared with the real classes on every run, in order"],
        "theorems": {k: v for k, v in proof["axioms"].items()},
        "proof_failures": proof["failures"],
        "translator": gen,
        "evaluations": len(cases), "distinct_nontrivial": nontrivial,
        "rule": "seeded scenarios (grid kind, voxel size dyadic/decimal/log-uniform 1e-7..1e3, 1..24 voxels per axis, origin at 0 / whole voxels / far / unit-sized, "
                "extent = whole number of voxels, one ulp beside it, or not a multiple; points uniform / on faces, edges, corners, voxel boundaries, repeated; "
                "queries uniform / on a stored point / at 0.5..2 voxel sizes from one) + corpus of the known finding; distinct_nontrivial = distinct request lines with at least one point and one query",
        "distribution": stats, "points_placed": npts, "points_on_box_boundary": on_boundary, "points_on_upper_faces": on_max,
        "neighbour_pairs_within_one_voxel": tally["pairs_required"], "pairs_in_rounding_band": tally["pairs_gray"],
        "misses_in_rounding_band": tally["gray_misses"],
        "model_vs_impl_identical": identical, "model_vs_impl_disagreements": disagreements,
        "oracle_failures": oracle_fail, "harness_crashed_at": crashed, "samples": samples,
    }
    vlib.write_evidence(PID, tier, "proof", cov, [
        "theorems are in exact arithmetic (ordered field with floor); IEEE rounding, NaN/Inf and the undefined cast of doubles >= 2^32 are not modelled",
        "unsigned 32-bit wrap-around of nb_x*nb_y*nb_z is not modelled (needs more than 4e9 voxels)",
        "run-time oracle: a stored object at distance in (v(1-2^-40), v] that is missed is attributed to rounding and counted (misses_in_rounding_band), not reported",
        "points and queries are generated inside the closed declared box only; voxel size > 0, max > min on every axis",
    ], time.time() - t0, nviol)
    return rcode


def replay(ctx):
    """re-run the stored failing input on the current implementation"""
    rp = ctx["replay"]
    fi = rp.get("failing_input", {}).get("input", {})
    line = fi.get("line")
    if not line:
        print("replay file names no input: %s" % json.dumps(rp.get("no_longer_checks", rp))[:2000])
        return 1
    exe, _ = vlib.build_repo.build_harness(os.path.join(vlib.VERIF, "harness", "h_grid.cpp"), "h_grid", link_repo=False)
    out, rc, err = vlib.run_lines(exe, [line])
    c = case_of_line(line)
    print("grid kind uspg_%sd, box %r .. %r, voxel size %r" % (c["kind"], c["box"][:3], c["box"][3:], c["v"]))
    print("points  =", c["pts"])
    print("queries =", c["qs"])
    print("implementation:", out[0] if out else "no answer (rc=%s) %s" % (rc, err[-500:]))
    o = parse_out(out[0]) if out else None
    msgs = oracle(c, o) if o else ["no parseable answer (rc=%s)" % rc]
    if msgs:
        print("VIOLATION property=C20 replay=%s" % ctx.get("replay_path", "-"))
        for m in msgs[:6]:
            print(m)
        return 1
    print("property holds on this input now")
    return 0
