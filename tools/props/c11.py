"""C11 — remeshing is physically neutral, selective and always terminates.
Shares the executable model, driver, harness and histories of C01 (state-for-state differential run);
oracles: momentum conservation, survivors unmoved, new nodes at midpoints, labels inherited by splits,
volume/area unchanged by split-only passes, selectivity of the logged decisions, conforming meshes unchanged,
return-or-exception within the watchdog."""
import os, sys, time, json, math
import vlib
import remesh_common as RC
import remesh_run as RR

PID = "C11"
NAMESPACE = "Simu.C11"
THEOREMS_FILE = os.path.join(vlib.LEAN, "SimuVerif", "Properties", "C11.theorems")
GEN = ["RemeshConsts"]


def theorems():
    """the list of claimed theorems is kept next to the Lean file"""
    if os.path.exists(THEOREMS_FILE):
        return [l.strip() for l in open(THEOREMS_FILE) if l.strip() and not l.startswith("#")]
    return []


def oracle_state(st, label):
    return []


def _rel(x, y, s):
    return abs(x - y) <= 1e-11 * s


def oracle_refine(before, after, info):
    bad = []
    m0, m1 = RC.total_momentum(before), RC.total_momentum(after)
    scale = sum(abs(c) for n in before.nodes if n["used"] for c in n["mom"]) + 1e-300
    if not all(_rel(m0[i], m1[i], scale) for i in range(3)):
        bad.append("total momentum changed in a refinement pass: %r -> %r" % (m0, m1))
    ops = info["ops"]
    l2min, l2max = info["lmin"] ** 2, info["lmax"] ** 2
    for (k, a, b, l2) in ops:
        if k == "s" and not (l2 > l2max):
            bad.append("split of an edge that is not longer than l_max (len^2=%g, l_max^2=%g)" % (l2, l2max)); break
        if k == "m" and not (l2 < l2min):
            bad.append("collapse of an edge that is not shorter than l_min (len^2=%g, l_min^2=%g)" % (l2, l2min)); break
    if info.get("conforming"):
        same = (len(before.nodes) == len(after.nodes) and len(before.faces) == len(after.faces)
                and all(x == y for x, y in zip(before.nodes, after.nodes))
                and all(x == y for x, y in zip(before.faces, after.faces))
                and before.edges == after.edges)
        if not same or ops:
            bad.append("a pass changed a mesh that already satisfies the length band%s: %d operations" % (" and the triangle-quality rule (every true score >= 0.2, swap on)" if info.get("swap") else " (swap off)", len(ops)))
    if info["swap"] == 0 and ops and all(o[0] == "s" for o in ops):
        v0, v1 = RC.signed_volume6(before), RC.signed_volume6(after)
        a0, a1 = RC.total_area(before), RC.total_area(after)
        sc = sum(abs(c) for n in before.nodes if n["used"] for c in n["pos"]) / max(1, len(before.nodes))
        if abs(v1 - v0) > 1e-9 * (abs(v0) + a0 * sc + 1e-300):
            bad.append("enclosed volume changed in a pass made of edge splits only: %r -> %r" % (v0 / 6, v1 / 6))
        if abs(a1 - a0) > 1e-9 * a0:
            bad.append("area changed in a pass made of edge splits only: %r -> %r" % (a0, a1))
        # labels: per label, the area carried by it is unchanged
        def by_label(st):
            d = {}
            for f in st.faces:
                if f["used"]:
                    p, q, r = (st.nodes[i]["pos"] for i in f["n"])
                    n = RC.cross(RC.sub(q, p), RC.sub(r, p))
                    d[f["typ"]] = d.get(f["typ"], 0.0) + 0.5 * math.sqrt(RC.dot(n, n))
            return d
        l0, l1 = by_label(before), by_label(after)
        if set(l0) != set(l1) or any(abs(l0[k] - l1[k]) > 1e-9 * a0 for k in l0):
            bad.append("face-type labels were not passed on by the splits: area per label %r -> %r" % (l0, l1))
        # survivors unmoved: every node used before keeps slot and position (splits never free a slot)
        for i, n in enumerate(before.nodes):
            if n["used"] and (not after.nodes[i]["used"] or after.nodes[i]["pos"] != n["pos"]):
                bad.append("node %d moved or disappeared in a pass made of splits only" % i); break
    return bad


def oracle_single(op, a, b, before, after, answer):
    bad = []
    if answer != "ok":
        return bad
    if op == "split":
        new = [i for i, n in enumerate(after.nodes) if n["used"] and (i >= len(before.nodes) or not before.nodes[i]["used"])]
        if len(new) != 1:
            return ["split created %d nodes" % len(new)]
        e = new[0]
        pa, pb = before.nodes[a]["pos"], before.nodes[b]["pos"]
        mid = [(pb[k] + pa[k]) * 0.5 for k in range(3)]
        if after.nodes[e]["pos"] != mid:
            bad.append("new node of a split is not at the midpoint of the edge: %r vs %r" % (after.nodes[e]["pos"], mid))
        for i, n in enumerate(before.nodes):
            if n["used"] and after.nodes[i]["pos"] != n["pos"]:
                bad.append("split moved the surviving node %d" % i); break
        # labels
        t0 = {}
        for f in before.faces:
            if f["used"] and a in f["n"] and b in f["n"]:
                c = [x for x in f["n"] if x not in (a, b)][0]
                t0[c] = f["typ"]
        for f in after.faces:
            if f["used"] and e in f["n"]:
                others = [x for x in f["n"] if x not in (a, b, e)]
                if others and others[0] in t0 and f["typ"] != t0[others[0]]:
                    bad.append("split did not pass the face-type label %d on (child has %d)" % (t0[others[0]], f["typ"])); break
    if op == "merge":
        new = [i for i, n in enumerate(after.nodes) if n["used"] and (i >= len(before.nodes) or not before.nodes[i]["used"])]
        if len(new) == 1:
            pa, pb = before.nodes[a]["pos"], before.nodes[b]["pos"]
            mid = [(pb[k] + pa[k]) * 0.5 for k in range(3)]
            if after.nodes[new[0]]["pos"] != mid:
                bad.append("new node of a collapse is not at the midpoint of the edge")
        for i, n in enumerate(before.nodes):
            if n["used"] and i not in (a, b) and (not after.nodes[i]["used"] or after.nodes[i]["pos"] != n["pos"]):
                bad.append("collapse moved or removed the surviving node %d" % i); break
    if op in ("split", "merge", "swap"):
        m0, m1 = RC.total_momentum(before), RC.total_momentum(after)
        scale = sum(abs(c) for n in before.nodes if n["used"] for c in n["mom"]) + 1e-300
        if not all(_rel(m0[i], m1[i], scale) for i in range(3)):
            bad.append("total momentum changed by a single %s: %r -> %r" % (op, m0, m1))
    if op == "swap":
        for i, n in enumerate(before.nodes):
            if n["used"] and after.nodes[i]["pos"] != n["pos"]:
                bad.append("swap moved node %d" % i); break
    return bad


def run(ctx):
    tier, seed = ctx["tier"], ctx["seed"]
    t0 = time.time()
    V = vlib.Verdict(PID)
    gen = vlib.translate.run(GEN)
    ths = theorems()
    proof = vlib.prove(PID, ths, NAMESPACE, extra_targets=("drv_c01",))
    if not ths:
        V.fail_tie("proof", "no theorem list (Properties/C11.theorems missing)")
    for f in proof["failures"]:
        V.fail_tie("proof", "%s: %s" % (f["theorem"], f["reason"]), errors=proof["errors"][:5])
    if tier == "thorough" and proof["ok"]:
        ok, log = vlib.leanchecker("SimuVerif.Properties.C11")
        if not ok:
            V.fail_tie("proof", "leanchecker rejected SimuVerif.Properties.C11", log=log)
    n = 60 if tier == "quick" else 1500
    res = RR.run_histories(PID, tier, seed + 1000, n, oracle_state, oracle_refine, oracle_single, widen=not proof["ok"])
    if res["crash"]:
        c = res["crash"]
        what = "real code ended abnormally on '%s' (rc=%s): %s" % (c["line"], c["rc"], c["stderr"][-400:])
        V.fail_input(what, {"requests": c["replay"]})
    for f in res["failures"][:6]:
        V.fail_input(f["what"], {"requests": f["replay"]})
    for d in res["disagreements"][:3]:
        V.fail_tie("correspondence", "model and implementation differ after '%s': %s" % (d["line"], d["where"]), requests=d["replay"])
    rcode, nviol = V.finish()
    st = res["stats"]
    cov = {
        "obligations": max(1, proof["obligations"]), "discharged": proof["discharged"],
        "checker_cmd": "lake build SimuVerif.Properties.C11 SimuVerif.Audit.C11 drv_c01 (+ leanchecker in the thorough tier)",
        "trusted_base": vlib.TRUSTED_COMMON + ["that the number of splits of a pass is bounded is geometric and not proved (termination_partial); a watchdog turns non-return into a violation at run time"],
        "theorems": proof["axioms"], "proof_failures": proof["failures"], "translator": gen,
        "evaluations": st["lines"], "distinct_nontrivial": res["distinct"],
        "rule": "same seeded histories as C01 (different seed offset); distinct = distinct (mesh size, displacement, swap flag, #ops, outcome) / (single op, size, answer) tuples",
        "statistics": st, "model_vs_impl_disagreements": len(res["disagreements"]), "oracle_failures": len(res["failures"]),
        "repo_objects_rebuilt": res["rebuilt"], "samples": res["samples"],
    }
    vlib.write_evidence(PID, tier, "proof", cov, ["DYNAMIC_MODEL_INDEX 0 (default build)", "conservation tolerances 1e-11 (momentum) / 1e-9 (volume, area) relative"],
                        time.time() - t0, nviol)
    return rcode


def replay(ctx):
    import c01
    return c01.replay(ctx)
