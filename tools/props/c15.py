"""C15 — results independent of thread count / schedule; parallel errors become exceptions.
Theorems: Properties/C15.lean (schedule independence of footprint-disjoint per-cell loops for every interleaving,
division round independent of the critical-section order, exception delivery; the shape of the parallel phases is
re-extracted from the C++ on every run).  Run-time tie and search: real runs with 1..16 threads must be bit-identical
on non-interacting tissues and reproduce exactly; a failing cell at every list position of refine_meshes; several cells
dividing in one round; ThreadSanitizer build of the sampling kernel in the thorough tier."""
import os, sys, time, json, re, subprocess
import vlib
import scenarios as SC

PID = "C15"
NAMESPACE = "Simu.C15"
THEOREMS = ["schedule_independent", "schedules_agree", "complete_schedule_exists", "loops_write_own_cell",
            "division_count", "division_same_cells", "division_ids_unique", "divider_shape",
            "exception_delivered", "exception_all_tasks_run", "no_exception_iff", "handler_shape", "sampling_rng_private"]
GEN = ["ParLoops"]
HPAR = os.path.join(vlib.VERIF, "harness", "h_par.cpp")
HSAMP = os.path.join(vlib.VERIF, "harness", "h_sampling.cpp")


def tissue(wd, r, n_cells, mixed=False):
    """`mixed`: cells of different types (epithelial / lumen, whose parameter sets differ: see the bending modulus override of
    the caller) and of very different sizes, the big one first — whatever one cell decides must not leak into another"""
    cells = []
    for i in range(n_cells):
        st = (1.0 + 0.2 * r.uniform(-1, 1), 1.0 + 0.2 * r.uniform(-1, 1), 1.0 + 0.2 * r.uniform(-1, 1))
        lvl = r.choice([1, 2, 2])
        ty = 0
        if mixed:
            lvl = 3 if i == 0 else 1
            ty = 0 if i % 2 == 0 else 2
        cells.append(SC.icosphere(lvl, 5e-6 * r.uniform(0.8, 1.3), (i * 4.1e-5, r.uniform(-1, 1) * 1e-6, 0.0), st) + (ty,))
    path = os.path.join(wd, "tissue.vtk")
    SC.write_vtk(path, cells)
    return path


def run(ctx):
    tier, seed = ctx["tier"], ctx["seed"]
    t0 = time.time()
    V = vlib.Verdict(PID)
    gen = vlib.translate.run(GEN)
    proof = vlib.prove(PID, THEOREMS, NAMESPACE)
    for f in proof["failures"]:
        V.fail_tie("proof", "%s: %s" % (f["theorem"], f["reason"]), errors=proof["errors"][:5])
    if tier == "thorough" and proof["ok"]:
        ok, log = vlib.leanchecker("SimuVerif.Properties.C15")
        if not ok:
            V.fail_tie("proof", "leanchecker rejected SimuVerif.Properties.C15", log=log)
    r = vlib.Rng(seed)
    exe, rebuilt = SC.build("asan")
    hpar, _ = vlib.build_repo.build_harness(HPAR, "h_par")
    evaluations = 0
    distinct = set()
    samples = []
    stats = {"thread_runs": 0, "bit_identical": 0, "exception_positions": 0, "division_rounds": 0, "divisions_seen": 0, "tsan_runs": 0}
    wide = tier == "thorough" or not proof["ok"]
    # ---- 1. thread-count independence and exact reproducibility on non-interacting tissues
    n_tissues = 2 if not wide else 6
    thread_sets = [(1, 2, 5, 16, 1)] if not wide else [(1, 2, 3, 4, 7, 8, 11, 16, 1)]
    for k in range(n_tissues):
        with SC.Workdir() as wd:
            ncell = r.randint(2, 5)
            mixed = (k % 2 == 1)
            mesh = tissue(wd, r, ncell, mixed)
            sw = r.choice(["0", "1"])
            ov = {"perform_initial_triangulation": "0", "enable_edge_swap_operation": sw}
            if mixed:
                ov["bending_modulus"] = "5e-19"       # first face type of the first cell type only: epithelial cells bend, lumen cells do not
            params = SC.make_params(wd, mesh, "7.5e-7", ov, SC.DETERMINISTIC)
            stats["mixed_type_tissues"] = stats.get("mixed_type_tissues", 0) + (1 if mixed else 0)
            iters = r.choice([30, 60]) if not wide else r.choice([60, 150])
            ref = None
            for th in thread_sets[0]:
                res = SC.run(exe, params, iters, th, max(1, iters // 3))
                evaluations += 1
                stats["thread_runs"] += 1
                what, key = SC.classify(res["rc"], res["err"])
                if what:
                    V.fail_input("%s [%d threads]" % (what, th), {"cells": ncell, "iterations": iters, "threads": th, "swap": sw, "seed": seed, "tissue": k}, key=key)
                    break
                if ref is None:
                    ref = res["out"]
                    if len(samples) < 2:
                        samples.append({"cells": ncell, "iterations": iters, "threads": list(thread_sets[0]), "first_lines": res["out"].splitlines()[:2]})
                elif res["out"] != ref:
                    a, b = ref.splitlines(), res["out"].splitlines()
                    first = next((i for i, (x, y) in enumerate(zip(a, b)) if x != y), min(len(a), len(b)))
                    V.fail_input("run with %d threads differs from the single-threaded run at output line %d (%s)" % (th, first, (a[first][:60] if first < len(a) else "<eof>")),
                                 {"cells": ncell, "iterations": iters, "threads": th, "swap": sw, "seed": seed, "tissue": k})
                    break
                else:
                    stats["bit_identical"] += 1
            distinct.add(("threads", ncell, iters, sw))
    # ---- 2. exception delivery: a failing cell at every list position
    N = 5 if not wide else 9
    base = subprocess.run([hpar, "refine", str(N), "-1", "1"], capture_output=True, text=True, env=vlib.ENV)
    ref_digest = {l.split()[1]: l for l in base.stdout.splitlines() if l.startswith("D ")}
    if "RESULT ok" not in base.stdout:
        V.fail_input("refine_meshes failed on the reference tissue: %s %s" % (base.stdout[:200], base.stderr[-300:]), {"args": ["refine", N, -1, 1]})
    for bad in range(N):
        for th in ((1, 4) if not wide else (1, 2, 4, 16)):
            p = subprocess.run([hpar, "refine", str(N), str(bad), str(th)], capture_output=True, text=True, env=vlib.ENV, timeout=600)
            evaluations += 1
            stats["exception_positions"] += 1
            distinct.add(("exc", bad, th))
            what, key = SC.classify(p.returncode, p.stderr)
            args = {"mode": "refine", "cells": N, "failing_position": bad, "threads": th}
            if what:
                V.fail_input(what, args, key=key); continue
            if "RESULT exc mesh_integrity" not in p.stdout:
                V.fail_input("the exception thrown while refining the cell at position %d did not reach the caller as that exception: %s" % (bad, p.stdout.splitlines()[:1]), args)
                continue
            for l in p.stdout.splitlines():
                if l.startswith("D ") and ref_digest.get(l.split()[1]) != l:
                    V.fail_input("cell %s was not refined to completion although another thread threw (digest differs)" % l.split()[1], args)
                    break
    # mesh_writer::write error path
    for th in (1, 3):
        p = subprocess.run([hpar, "write", "3", str(th), "/nonexistent_verif_dir"], capture_output=True, text=True, env=vlib.ENV)
        evaluations += 1
        if "RESULT exc mesh_writer" not in p.stdout or SC.classify(p.returncode, p.stderr)[0]:
            V.fail_input("mesh_writer::write on an unwritable path did not end in a mesh_writer exception: %s %s" % (p.stdout[:100], p.stderr[-200:]), {"mode": "write", "threads": th})
    # ---- 3. several cells dividing in the same round, many threads: no cell lost / duplicated / duplicate id
    for k in range(2 if not wide else 6):
        with SC.Workdir() as wd:
            ncell = r.randint(3, 4)
            # descending sizes: the mothers with the higher list indices finish their division first, so the order in which the
            # threads report is NOT the list order (every second round; the others use equal cells)
            lv = (lambda i: 3 if i < (ncell + 1) // 2 else 1) if (stats["division_rounds"] % 2 == 0) else (lambda i: 2)
            cells = [SC.icosphere(lv(i), 5e-6, (i * 4.1e-5, 0.0, 0.0), (1.0, 0.85, 1.3), 0.17) + (0,) for i in range(ncell)]
            mesh = os.path.join(wd, "t.vtk")
            SC.write_vtk(mesh, cells)
            params = SC.make_params(wd, mesh, "7.5e-7", {"perform_initial_triangulation": "0", "avg_division_volume": "3e-16", "std_division_volume": "0", "min_vol": "1e-19", "std_growth_rate": "0"}, {})
            th = r.choice([4, 8, 16])
            res = SC.run(exe, params, 2, th, 1)
            evaluations += 1
            stats["division_rounds"] += 1
            what, key = SC.classify(res["rc"], res["err"])
            args = {"cells": ncell, "threads": th, "scenario": "all cells above their division volume at iteration 0"}
            if what:
                V.fail_input(what, args, key=key); continue
            snaps = SC.parse_states(res["out"])
            if len(snaps) >= 2:
                ids0 = [c["id"] for c in snaps[0]["cells"]]
                ids1 = [c["id"] for c in snaps[1]["cells"]]
                loc1 = [c["local"] for c in snaps[1]["cells"]]
                mothers = [i for i in ids0 if i not in ids1]
                stats["divisions_seen"] += len(mothers)
                if len(set(ids1)) != len(ids1):
                    V.fail_input("duplicate cell id after a division round: %r" % ids1, args)
                if len(ids1) != len(ids0) + len(mothers):
                    V.fail_input("population count %d after %d divisions of %d cells (expected %d)" % (len(ids1), len(mothers), len(ids0), len(ids0) + len(mothers)), args)
                if loc1 != list(range(len(loc1))):
                    V.fail_input("position indices after a division round are %r" % loc1, args)
                if any(i < max(ids0) + 1 for i in ids1 if i not in ids0):
                    V.fail_input("a daughter received a used id: %r -> %r" % (ids0, ids1), args)
                distinct.add(("div", ncell, th, len(mothers)))
    # ---- 3b. exact reproducibility with the shipped (stochastic) parameter set: random draws are clock seeded
    with SC.Workdir() as wd:
        mesh = tissue(wd, r, 2)
        params = SC.make_params(wd, mesh, "7.5e-7", {"perform_initial_triangulation": "0"}, {})
        a = SC.run(exe, params, 20, 1, 20)
        time.sleep(0.01)
        b = SC.run(exe, params, 20, 1, 20)
        evaluations += 2
        if a["out"] != b["out"] and not SC.classify(a["rc"], a["err"])[0] and not SC.classify(b["rc"], b["err"])[0]:
            V.fail_input("repeating a run with the same inputs (std_growth_rate > 0) does not reproduce it: the random draws are seeded from the wall clock",
                         {"cells": 2, "iterations": 20, "threads": 1, "parameters": "parameters_default_dynamic.xml with a generated tissue"}, key="C15:clock-seeded-rng")
    # ---- 4. ThreadSanitizer on the sampling kernel (thorough tier / widened search)
    if wide:
        try:
            hs, _ = vlib.build_repo.build_harness(HSAMP, "h_sampling_tsan", san="tsan")
            env = dict(os.environ); env["TSAN_OPTIONS"] = "halt_on_error=0 exitcode=0"
            p = subprocess.run([hs, os.path.join(SC.MESHES, "cube.vtk"), "2e-6", "4"], capture_output=True, text=True, env=env, timeout=900)
            stats["tsan_runs"] += 1
            evaluations += 1
            for rep in p.stderr.split("=================="):
                if "WARNING: ThreadSanitizer: data race" not in rep:
                    continue
                stacks = re.split(r"\n\s*\n", rep)
                acc = [s for s in stacks if re.search(r"(Read|Write|Previous read|Previous write) of size", s)]
                # libgomp is not instrumented, so accesses ordered by its barriers look racy; two accesses that are BOTH
                # inside the outlined parallel body are unordered whatever the barriers
                def top_line(stack):
                    mm = re.search(r"(%s/[^\s:]+):(\d+)" % re.escape(vlib.REPO), stack)
                    if not mm:
                        return ""
                    try:
                        return open(mm.group(1)).read().splitlines()[int(mm.group(2)) - 1]
                    except Exception:
                        return ""
                # the combine step of an OpenMP reduction runs under a libgomp lock TSan cannot see: it is attributed to the pragma line
                if any("pragma omp" in top_line(s) for s in acc[:2]):
                    continue
                if len(acc) >= 2 and all("_omp_fn" in s for s in acc[:2]):
                    m = re.search(r"(/repo/[^\s:]+|%s/[^\s:]+):(\d+)" % re.escape(vlib.REPO), acc[0])
                    V.fail_input("ThreadSanitizer: two threads of one parallel loop access the same object without synchronisation (%s)" % (m.group(0) if m else "?"),
                                 {"harness": "h_sampling", "mesh": "cube.vtk", "threads": 4, "report": rep[:1200]}, key="tsan-sampling")
                    break
        except Exception as e:
            V.fail_tie("correspondence", "ThreadSanitizer run could not be performed: %s" % e)
    rcode, nviol = V.finish()
    cov = {
        "obligations": proof["obligations"], "discharged": proof["discharged"],
        "checker_cmd": "lake build SimuVerif.Properties.C15 SimuVerif.Audit.C15 (+ leanchecker in the thorough tier)",
        "trusted_base": vlib.TRUSTED_COMMON + [
            "OpenMP scheduling and the C++ memory model are not modelled: the theorems are about abstract tasks with disjoint footprints, a critical section and a catch-all handler whose SHAPE is extracted from the source (tools/gen/c15_loops.py); that a method called on cell_lst_[i] really touches only that cell is checked at run time (bit-identical runs) and by ThreadSanitizer for the sampling kernel only",
            "data races as such are run-time only (TSan sees only what is executed; libgomp is not instrumented)"],
        "theorems": proof["axioms"], "proof_failures": proof["failures"], "translator": gen,
        "evaluations": evaluations, "distinct_nontrivial": len(distinct),
        "rule": "real runs of generated non-interacting tissues (2-5 triangulated ellipsoids, deterministic parameters) with 1..16 threads compared bit for bit and repeated; refine_meshes with a throwing cell at every list position x thread counts; division rounds with all cells dividing at many threads; distinct = distinct (kind, size, threads, ...) tuples",
        "statistics": stats, "repo_objects_rebuilt": rebuilt, "samples": samples,
    }
    vlib.write_evidence(PID, tier, "proof", cov, ["deterministic parameter sets (std_growth_rate = std_division_volume = 0, no initial triangulation) for the reproducibility runs; the clock-seeded random draws are a listed known finding"],
                        time.time() - t0, nviol)
    return rcode


def replay(ctx):
    print(json.dumps(ctx["replay"], indent=1)[:3000])
    print("re-run: VERIF_SEED=<seed of the replay> python3 tools/check.py C15")
    return 1
