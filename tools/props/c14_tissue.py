"""C14 — the ASSEMBLED iteration of a tissue of interacting epithelial cells (lean/SimuVerif/Model/Tissue.lean, exe drv_c14,
command `tissue`) against the real `solver::run_iteration`, and the theorems about it (Properties/C14Tissue.lean).

  prove_tissue()                    re-check the theorems (and rebuild the model driver); same dict as vlib.prove
  run_tissue(V, tier, seed, stats)  (1) correspondence: generated tissues of 2–4 touching / overlapping / separate icospheres are run
                                    through harness/h_solver.cpp (1 thread, mode `tissue`, every iteration dumped) and EVERY double of
                                    every iteration (positions, momenta, forces, node normals, curvatures, closest distances, cached
                                    face normals / areas, cell scalars) plus the couplings and face types is compared with the model
                                    started from the first snapshot — bit for bit;
                                    (2) oracle on the real code, independent of the model: a tissue and its translate by 1e-2 … 1e3
                                    cell sizes are run and compared (positions − t within the tolerance policy of c14.py, couplings
                                    and face types identical).
                                    Failures go to the Verdict `V`; measured statistics are put into the dict `stats`.
  replay(ctx)                       re-runs the scenario recorded in a replay file
"""
import os, re, math, time, json
import vlib
import scenarios as SC
import c14_pipeline as CP

DRIVER = "drv_c14"
PROOF_PID = "C14Tissue"
NAMESPACE = "Simu.C14"
THEOREMS_TISSUE = ["tissueSetup_of_pos", "candidates_eq_boxfilter", "aabbCheck_translate", "rule1_translate", "gridCandidates_translate",
                   "contactSearch_translate", "couplingPass_translate", "contactRun_translate", "polarise_translate", "nodeNormals_translate",
                   "internalForces_translate", "integrate_translate", "tissueIteration_shape", "tissueIteration_wf", "translate_wf",
                   "beforeIntegration_translate", "tissueIteration_translate", "tissueRun_translate", "tissueRun_observables",
                   "preOk_translate", "postOk_translate", "domain_translate", "tissueRunOk_translate",
                   "tetFaces_closed", "tet_covered", "sQ2_wf", "KQ_setup", "sQ2_contact"]
GEN_TISSUE = ["NodeNormals", "Forces", "Integrator", "CellCycle", "BroadPhase", "ContactRule", "Kernel"]
MAX_ULPS = 0
SIZE = 1e-5
CELL_ORDER = ["K", "maxP", "aem", "iso", "angf", "minVol", "growth", "divVol", "density", "maxCurv"]
NUM_ORDER = ["dt", "damping", "lmin", "cutAdh", "cutRep"]
STRICT_ITERS = 80


# ---------------------------------------------------------------- parameters, as parameter_reader.cpp reads them
def read_tissue_consts(xml, type_id):
    body = re.sub(r"<!--.*?-->", "", xml, flags=re.S)
    num = body[body.index("<numerical_parameters>"):body.index("</numerical_parameters>")]
    block = None
    for b in re.findall(r"<cell_type>(.*?)</cell_type>", body, flags=re.S):
        if int(CP._tag(b, "global_cell_id")) == type_id:
            block = b
    if block is None:
        raise KeyError("cell type %d" % type_id)
    if CP._num(block, "std_growth_rate") != 0.0 or CP._num(block, "std_division_volume") != 0.0:
        raise ValueError("not a deterministic parameter set")
    head = block[:block.index("<face_types>")]
    fts = [(CP._num(f, "surface_tension"), CP._num(f, "bending_modulus"), CP._num(f, "repulsion_strength"))
           for f in re.findall(r"<face_type>(.*?)</face_type>", block, flags=re.S)]
    c = {"K": CP._num(head, "cell_bulk_modulus"), "maxP": CP._num(head, "max_inner_pressure", True), "aem": CP._num(head, "area_elasticity_modulus"),
         "iso": CP._num(head, "target_isoperimetric_ratio"), "angf": CP._num(head, "angle_regularization_factor"), "minVol": CP._num(head, "min_vol"),
         "growth": CP._num(head, "avg_growth_rate"), "divVol": CP._num(head, "avg_division_volume", True), "density": CP._num(head, "cell_mass_density"),
         "maxCurv": CP._num(head, "surface_coupling_max_curvature")}
    n = {"dt": CP._num(num, "time_step"), "damping": CP._num(num, "damping_coefficient"), "lmin": CP._num(num, "min_edge_length"),
         "cutAdh": CP._num(num, "contact_cutoff_adhesion"), "cutRep": CP._num(num, "contact_cutoff_repulsion")}
    return n, c, fts


# ---------------------------------------------------------------- snapshots of `h_solver … tissue` / `drv_c14 tissue`
LINE_KINDS = ("P", "M", "T", "N", "V", "Q", "D", "F", "A")


def parse_tissue(text):
    snaps, cur, cell = [], None, None
    for line in text.splitlines():
        w = line.split()
        if not w:
            continue
        if w[0] == "S":
            cur = {"iter": int(w[1]), "time": w[2], "ncells": int(w[3]), "cells": []}
            snaps.append(cur)
        elif w[0] == "C" and cur is not None:
            cell = {"id": int(w[1]), "local": int(w[2]), "type": int(w[3]), "nn": int(w[4]), "nf": int(w[5]),
                    "area": w[6], "vol": w[7], "tvol": w[8], "p": w[9]}
            for k in LINE_KINDS:
                cell[k] = []
            cur["cells"].append(cell)
        elif w[0] in LINE_KINDS and cell is not None and len(w[0]) == 1:
            cell[w[0]] = w[1:]
    return snaps


def request_line(num, consts_of_type, snap, n, every):
    w = ["tissue", str(n), str(every), str(len(snap["cells"]))]
    w += [vlib.fhex(num[k]) for k in NUM_ORDER]
    w += [str(snap["iter"]), snap["time"]]
    for cell in snap["cells"]:
        c, fts = consts_of_type[cell["type"]]
        nn, nf = cell["nn"], cell["nf"]
        if "-" in cell["P"] or len(cell["T"]) != 4 * nf or len(cell["A"]) != 4 * nf or len(cell["P"]) != 3 * nn:
            raise ValueError("a cell has unused slots")
        w += [str(cell["type"]), str(nn), str(nf), str(len(fts))]
        w += [vlib.fhex(c[k]) for k in CELL_ORDER]
        for t in fts:
            w += [vlib.fhex(x) for x in t]
        w += [cell["area"], cell["vol"], cell["tvol"], cell["p"]]
        w += cell["P"] + cell["M"] + cell["F"] + cell["N"] + cell["V"] + cell["Q"] + cell["D"] + cell["T"] + cell["A"]
    return " ".join(w)


def parse_model(lines):
    dom, hyp = {}, {}
    rest = []
    for l in lines:
        if l.startswith("O "):
            w = l.split()
            dom[int(w[1])] = w[2] == "1"
        elif l.startswith("H "):
            w = l.split()
            hyp[w[1]] = w[2] == "1"
        else:
            rest.append(l)
    return parse_tissue("\n".join(rest)), dom, hyp


# ---------------------------------------------------------------- the domain, on the dumped states
def closed_and_covered(cell):
    """every directed side has its reverse exactly once, every node slot is a corner of some face"""
    T = [int(x) for x in cell["T"]]
    he = {}
    seen = set()
    for k in range(0, len(T), 4):
        a, b, c = T[k], T[k + 1], T[k + 2]
        seen.update((a, b, c))
        for e in ((a, b), (b, c), (c, a)):
            he[e] = he.get(e, 0) + 1
    ok = all(v == 1 and he.get((e[1], e[0]), 0) == 1 for e, v in he.items())
    return ok and seen == set(range(cell["nn"]))


def connectivity(cell):
    return [x for i, x in enumerate(cell["T"]) if i % 4 != 3]


def compare_snap(sr, sm, dis, limit=20):
    """all fields of two snapshots; returns (number of doubles compared, worst ulps)"""
    ncmp, worst = 0, 0
    if sr["iter"] != sm["iter"] or sr["ncells"] != sm["ncells"]:
        dis.append({"iteration": sr["iter"], "field": "iteration counter / cell count", "real": [sr["iter"], sr["ncells"]], "model": [sm["iter"], sm["ncells"]]})
        return ncmp, worst
    pairs = [("time", sr["time"], sm["time"])]
    for ci, (cr, cm) in enumerate(zip(sr["cells"], sm["cells"])):
        for key, nm in (("area", "area"), ("vol", "volume"), ("tvol", "target volume"), ("p", "pressure")):
            pairs.append(("cell %d %s" % (ci, nm), cr[key], cm[key]))
        for key, nm in (("T", "triangles / face types"), ("Q", "couplings")):
            if cr[key] != cm[key]:
                k = next((i for i, (x, y) in enumerate(zip(cr[key], cm[key])) if x != y), min(len(cr[key]), len(cm[key])))
                per = 4 if key == "T" else 2
                if len(dis) < limit:
                    dis.append({"iteration": sr["iter"], "field": "cell %d %s (entry %d)" % (ci, nm, k // per),
                                "real": " ".join(cr[key][k - k % per:k - k % per + per]), "model": " ".join(cm[key][k - k % per:k - k % per + per])})
        for key, nm, per in (("P", "position", 3), ("M", "momentum", 3), ("F", "force", 3), ("N", "node normal", 3), ("V", "curvature", 1),
                             ("D", "closest squared distance", 1), ("A", "cached face normal/area", 4)):
            if len(cr[key]) != len(cm[key]):
                dis.append({"iteration": sr["iter"], "field": "cell %d number of %s values" % (ci, nm), "real": len(cr[key]), "model": len(cm[key])})
                continue
            pairs += [("cell %d %s of slot %d, component %d" % (ci, nm, i // per, i % per), x, y) for i, (x, y) in enumerate(zip(cr[key], cm[key]))]
    for (nm, x, y) in pairs:
        ncmp += 1
        if x == y:
            continue
        u = CP.ulps_apart(x, y) if x != "-" and y != "-" else 1 << 62
        worst = max(worst, u)
        if u > MAX_ULPS and len(dis) < limit:
            dis.append({"iteration": sr["iter"], "field": nm, "real": x, "model": y, "real_value": vlib.unhex(x) if x != "-" else None,
                        "model_value": vlib.unhex(y) if y != "-" else None, "ulps": u})
    return ncmp, worst


# ---------------------------------------------------------------- scenarios
def make_cells(r, kind):
    """list of (icosphere arguments) — all cells epithelial (type 0)"""
    def ico(level, rad, c, st=(1.0, 0.9, 1.1), egg=0.05):
        return (level, rad, tuple(c), st, egg)
    if kind == "pair-touching":
        d = r.uniform(9.5e-6, 9.95e-6)
        return [ico(2, 5e-6, (0, 0, 0)), ico(2, 5e-6, (d, r.uniform(-2e-7, 2e-7), 0))]
    if kind == "pair-overlapping":
        d = r.uniform(8.7e-6, 9.1e-6)
        return [ico(2, 5e-6, (0, 0, 0)), ico(2, 5e-6, (d, r.uniform(2e-7, 6e-7), r.uniform(-3e-7, 3e-7)))]
    if kind == "pair-unequal":
        # different mesh densities in the contact zone: several nodes of the finer cell compete for one node of the coarser one,
        # so couplings are overwritten and one-sided couplings arise in the search (removed by the symmetrisation loop)
        d = r.uniform(8.6e-6, 9.0e-6)
        return [ico(2, 5e-6, (0, 0, 0)), ico(2, 5e-6, (d, r.uniform(5e-7, 9e-7), r.uniform(3e-7, 6e-7)), (1.0, 1.1, 0.9), 0.1)]
    if kind == "pair-separate":
        d = r.uniform(1.06e-5, 1.12e-5)
        return [ico(2, 5e-6, (0, 0, 0)), ico(2, 5e-6, (d, 0, 0))]
    if kind == "triplet":
        # the arrangement of data/input_meshes/cell_triplet.vtk: three cells around a common axis, here in the x–y plane
        d = r.uniform(9.3e-6, 9.8e-6)
        return [ico(2, 5e-6, (0, 0, 0), (1.0, 1.0, 1.0), 0.03), ico(2, 5e-6, (d, 0, 0), (1.0, 1.0, 1.0), 0.03),
                ico(2, 5e-6, (0.5 * d, 0.866 * d, 0), (1.0, 1.0, 1.0), 0.03)]
    if kind == "row-of-four":
        d = r.uniform(9.4e-6, 9.9e-6)
        return [ico(2, 5e-6, (i * d, (i % 2) * r.uniform(0, 4e-7), 0)) for i in range(4)]
    if kind == "small-pair":
        # coarser meshes (42 nodes): cheap, every node is near the contact zone
        d = r.uniform(5.5e-6, 5.9e-6)
        return [ico(1, 3e-6, (0, 0, 0), (1.0, 0.95, 1.05), 0.04), ico(1, 3e-6, (d, r.uniform(-1e-7, 1e-7), 0), (1.0, 0.95, 1.05), 0.04)]
    raise ValueError(kind)


def lmin_of(cells):
    return "7.5e-7" if cells[0][0] == 2 else "8.5e-7"


BEND = {"bending_modulus": "2e-18", "angle_regularization_factor": "1e-16"}
WIDE = {"contact_cutoff_adhesion": "1.2e-6"}       # couplings get overwritten in the search -> one-sided couplings for the symmetrisation loop


def scenario_list(r, tier):
    """(kind, iterations, overrides of the parameter file, iterations that must at least stay inside the modelled domain)"""
    b = lambda: BEND if r.uniform(0, 1) < 0.5 else {}
    if tier == "thorough":
        return [("pair-touching", 60, {}, 10), ("pair-overlapping", 80, {}, 10), ("pair-separate", 30, {}, 10), ("triplet", 60, b(), 10),
                ("row-of-four", 50, {}, 10), ("small-pair", 120, b(), 10), ("pair-overlapping", 120, BEND, 10), ("triplet", 100, {}, 10),
                ("pair-unequal", 8, WIDE, 1), ("pair-unequal", 8, WIDE, 1), ("pair-unequal", 60, {}, 10)]
    return [("pair-overlapping", 40, {}, 10), ("triplet", 24, b(), 10), ("small-pair", 60, b(), 10), ("pair-unequal", 6, WIDE, 1),
            (r.choice(["pair-touching", "row-of-four", "pair-separate"]), 20, {}, 10)]


def write_tissue(wd, cells, shift=(0.0, 0.0, 0.0), overrides=None):
    mesh = os.path.join(wd, "t.vtk")
    SC.write_vtk(mesh, [SC.icosphere(c[0], c[1], (c[2][0] + shift[0], c[2][1] + shift[1], c[2][2] + shift[2]), c[3], c[4]) + (0,) for c in cells])
    ov = {"perform_initial_triangulation": "0", "enable_edge_swap_operation": "0"}
    ov.update(overrides or {})
    return SC.make_params(wd, mesh, lmin_of(cells), ov, SC.DETERMINISTIC)


def straddle_origin(cells):
    """the same tissue moved so that the first vertex of the face of cell 1 that lies deepest in the contact zone with cell 0 sits exactly at the
    origin: absolute-coordinate defects that vanish at the origin (a forgotten base point …) are then visible against any translate"""
    P, T = SC.icosphere(*cells[1])
    c0 = cells[0][2]
    best = min(T, key=lambda f: sum((sum(P[v][k] for v in f) / 3.0 - c0[k]) ** 2 for k in range(3)))
    a0 = P[best[0]]
    return [(c[0], c[1], (c[2][0] - a0[0], c[2][1] - a0[1], c[2][2] - a0[2]), c[3], c[4]) for c in cells]


def prove_tissue():
    """re-check the theorems about the assembled tissue iteration (and rebuild the model driver); same dict as vlib.prove"""
    return vlib.prove(PROOF_PID, THEOREMS_TISSUE, NAMESPACE, extra_targets=(DRIVER,))


# ---------------------------------------------------------------- (1) model against the real solver
def correspond(name, cells, iters, overrides, seed, stats, failures, disagreements, need=10):
    args = {"scenario": name, "cells": [[c[0], c[1], list(c[2]), list(c[3]), c[4]] for c in cells], "iterations": iters, "overrides": overrides, "seed": seed, "part": "correspondence"}
    drv = vlib.driver_path(DRIVER)
    with SC.Workdir() as wd:
        params = write_tissue(wd, cells, overrides=overrides)
        xml = open(params).read()
        exe, _ = SC.build("asan")
        rr = SC.run(exe, params, iters, 1, 1, mode="tissue")
    what, _key = SC.classify(rr["rc"], rr["err"])
    if what or rr["rc"] != 0:
        failures.append({"what": "scenario %s: the real solver did not run normally (%s)" % (name, what or rr["out"][-200:]), "input": args if what else None})
        return
    real = parse_tissue(rr["out"])
    if not real or real[0]["ncells"] < 2:
        failures.append({"what": "scenario %s: no tissue snapshot" % name})
        return
    try:
        num, c, fts = read_tissue_consts(xml, 0)
        req = request_line(num, {0: (c, fts)}, real[0], iters, 1)
    except (KeyError, ValueError) as e:
        failures.append({"what": "scenario %s: %s" % (name, e)})
        return
    t0 = time.time()
    lines, rc, err = vlib.run_lines(drv, [req], timeout=1200)
    mwall = time.time() - t0
    if rc != 0 or not lines or lines[-1] != "END":
        failures.append({"what": "scenario %s: model driver answered %r (rc %s) %s" % (name, lines[-1:] if lines else None, rc, err[-200:])})
        return
    model, dom, hyp = parse_model(lines)
    # hypotheses of the theorems, on this instance: by the driver (cellWf, Setup) and here (closed meshes, ids = positions)
    c0 = real[0]["cells"]
    if not hyp.get("wf") or not hyp.get("setup"):
        disagreements.append(dict(args, iteration=real[0]["iter"], field="hypotheses of tissueIteration_translate evaluated by the driver", real="expected to hold", model=hyp))
    if not all(closed_and_covered(cell) for cell in c0):
        disagreements.append(dict(args, iteration=real[0]["iter"], field="a generated mesh is not closed / has an unreferenced node slot", real="-", model="-"))
    # the domain of the model, on the REAL states
    upto, left = len(real) - 1, None
    band = [math.inf, 0.0]
    for k, s in enumerate(real):
        if s["ncells"] != len(c0) or any((cell["id"], cell["local"]) != (i, i) for i, cell in enumerate(s["cells"])):
            upto, left = k - 1, "cell count / ids changed (division or removal)"
            break
        if any(connectivity(a) != connectivity(b) or a["nn"] != b["nn"] for a, b in zip(s["cells"], c0)):
            upto, left = k - 1, "connectivity changed (remeshing operation)"
            break
        inb = True
        for cell in s["cells"]:
            ok, lo, hi = CP.edges_in_band(cell, num["lmin"])
            inb = inb and ok
            band = [min(band[0], lo), max(band[1], hi)]
        if not inb:
            upto, left = k, "an edge left the band"
            break
    bad_dom = [k for k in range(upto) if not dom.get(real[k]["iter"], False)]
    if bad_dom:
        disagreements.append(dict(args, iteration=real[bad_dom[0]]["iter"], field="model says the state is outside its domain (stepOk = false) although the real meshes are unchanged and inside the band",
                                  real="in domain", model="stepOk false"))
    if left is not None and upto < len(real) - 1 and dom.get(real[upto]["iter"], False):
        disagreements.append(dict(args, iteration=real[upto]["iter"], field="model says stepOk although the real run left the domain (%s)" % left, real=left, model="stepOk true"))
    if left is not None:
        stats["left_domain"] = stats.get("left_domain", 0) + 1
    if upto < min(need, iters):
        failures.append({"what": "scenario %s: the run leaves the modelled domain after %d iterations (%s)" % (name, upto, left)})
    dis, ncmp, worst = [], 0, 0
    for k in range(upto + 1):
        if k >= len(model):
            dis.append({"iteration": k, "field": "snapshot missing in the model answer"})
            break
        n, w = compare_snap(real[k], model[k], dis)
        ncmp += n
        worst = max(worst, w)
    for d in dis[:6]:
        disagreements.append(dict(args, **d))
    last = real[upto]
    ncoup = sum(sum(1 for i in range(0, len(cell["Q"]), 2) if cell["Q"][i] != "-") for cell in last["cells"])
    nlat = sum(sum(1 for i in range(3, len(cell["T"]), 4) if cell["T"][i] == "1") for cell in last["cells"])
    nrep = sum(1 for s in real[:upto + 1] for cell in s["cells"] if any(x != "0000000000000000" for x in cell["F"]))
    stats["doubles_compared"] += ncmp
    stats["iterations_compared"] += upto
    stats["worst_ulps"] = max(stats["worst_ulps"], worst)
    stats["bit_identical"] = stats["bit_identical"] and worst == 0 and not dis
    stats["scenarios"].append({"name": name, "cells": len(c0), "nodes": sum(cell["nn"] for cell in c0), "faces": sum(cell["nf"] for cell in c0), "iterations_run": iters,
                               "iterations_compared": upto, "left_domain": left, "edge_over_lmin_range": [round(band[0], 3), round(band[1], 3)], "doubles": ncmp,
                               "worst_ulps": worst, "coupled_nodes_at_end": ncoup, "lateral_faces_at_end": nlat, "real_wall": round(rr["wall"], 2), "model_wall": round(mwall, 2)})


# ---------------------------------------------------------------- (2) oracle: two real runs that differ by a translation
def tol_rel(ratio, iters):
    eps = 2.2e-16
    return 1e-8 + iters * 20 * eps * (ratio + 10)       # the policy of c14.py (no r^3 term: the volume determinants are centred)


def oracle(name, cells, iters, t, ratio, seed, stats, V):
    args = {"scenario": name, "cells": [[c[0], c[1], list(c[2]), list(c[3]), c[4]] for c in cells], "iterations": iters, "translation": list(t), "offset_over_size": ratio,
            "seed": seed, "part": "oracle"}
    runs = []
    for shift in ((0.0, 0.0, 0.0), t):
        with SC.Workdir() as wd:
            params = write_tissue(wd, cells, shift=shift)
            exe, _ = SC.build("asan")
            rr = SC.run(exe, params, iters, 1, max(1, iters // 8), mode="tissue")
        what, key = SC.classify(rr["rc"], rr["err"])
        if what:
            V.fail_input("%s [tissue %s, shift %r]" % (what, name, list(shift)), args, key=key)
            return
        runs.append(parse_tissue(rr["out"]))
    ref, tr = runs
    stats["oracle_runs"] += 2
    tol = tol_rel(ratio, iters) * SIZE
    worst = 0.0
    if len(ref) != len(tr):
        V.fail_input("number of snapshots differs between a run and its translate (%d vs %d)" % (len(ref), len(tr)), args)
        return
    for sa, sb in zip(ref, tr):
        if sa["ncells"] != sb["ncells"]:
            V.fail_input("iteration %d: cell count %d vs %d in the translated run" % (sa["iter"], sa["ncells"], sb["ncells"]), args)
            return
        for ci, (ca, cb) in enumerate(zip(sa["cells"], sb["cells"])):
            for key, nm in (("T", "mesh connectivity / face types"), ("Q", "node couplings")):
                if ca[key] != cb[key]:
                    if sa["iter"] > STRICT_ITERS or ratio >= 30.0 and key == "Q":
                        stats["oracle_late_divergences"] += 1       # threshold decisions flipping by rounding far from the origin (see c14.py)
                        return
                    V.fail_input("iteration %d, cell %d: %s differ between the reference run and the run translated by %.3g cell sizes" % (sa["iter"], ci, nm, ratio), args)
                    return
            for key, nm in (("vol", "volume"), ("p", "pressure"), ("tvol", "target volume"), ("area", "area")):
                x, y = vlib.unhex(ca[key]), vlib.unhex(cb[key])
                if not (abs(x - y) <= (1e-9 + 1e3 * tol_rel(ratio, iters)) * max(abs(x), abs(y), 1e-300)):
                    if not (nm == "pressure" and abs(x - y) <= 1e-6 * 2.5e3):
                        V.fail_input("iteration %d, cell %d: %s %r vs %r in the translated run" % (sa["iter"], ci, nm, x, y), args)
                        return
            for k, (x, y) in enumerate(zip(ca["P"], cb["P"])):
                if x == "-" or y == "-":
                    if x != y:
                        V.fail_input("iteration %d, cell %d: node slot %d is in use in one run only" % (sa["iter"], ci, k // 3), args)
                        return
                    continue
                d = abs(vlib.unhex(y) - t[k % 3] - vlib.unhex(x))
                worst = max(worst, d)
                if d > tol:
                    V.fail_input("iteration %d, cell %d, node %d: translated run is off by %.3g cell sizes (allowed %.3g) from the translate of the reference" % (
                        sa["iter"], ci, k // 3, d / SIZE, tol / SIZE), args)
                    return
            for key, nm, scale in (("M", "momentum", None), ("N", "node normal", 1.0)):
                for k, (x, y) in enumerate(zip(ca[key], cb[key])):
                    if x == "-" or y == "-":
                        continue
                    xv, yv = vlib.unhex(x), vlib.unhex(y)
                    sc = scale if scale is not None else max(abs(vlib.unhex(z)) for z in ca[key] if z != "-") + 1e-300
                    if abs(xv - yv) > (1e-6 + 1e5 * tol_rel(ratio, iters)) * sc:
                        if sa["iter"] > STRICT_ITERS or ratio >= 30.0:
                            stats["oracle_late_divergences"] += 1
                            return
                        V.fail_input("iteration %d, cell %d, node %d: %s %r vs %r in the run translated by %.3g cell sizes" % (sa["iter"], ci, k // 3, nm, xv, yv, ratio), args)
                        return
    stats["oracle_worst_deviation_over_size"][str(ratio)] = max(stats["oracle_worst_deviation_over_size"].get(str(ratio), 0.0), worst / SIZE)


def run_tissue(V, tier, seed, stats):
    t0 = time.time()
    stats.update({"scenarios": [], "doubles_compared": 0, "iterations_compared": 0, "worst_ulps": 0, "bit_identical": True, "left_domain": 0,
                  "oracle_runs": 0, "oracle_late_divergences": 0, "oracle_worst_deviation_over_size": {}})
    drv = vlib.driver_path(DRIVER)
    if not os.path.exists(drv):
        ok, log, _ = vlib.lake_build([DRIVER])
        if not ok or not os.path.exists(drv):
            V.fail_tie("correspondence", "assembled tissue iteration: model driver %s does not build: %s" % (DRIVER, log[-400:]))
            return stats
    r = vlib.Rng(seed).fork("c14-tissue")
    failures, disagreements = [], []
    for (kind, iters, ov, need) in scenario_list(r, tier):
        cells = make_cells(r, kind)
        correspond(kind, cells, iters, ov, seed, stats, failures, disagreements, need)
    for f in failures[:3]:
        if f.get("input") is not None:
            V.fail_input(f["what"], f["input"])
        else:
            V.fail_tie("correspondence", "assembled tissue iteration: %s" % f["what"])
    for d in disagreements[:3]:
        V.fail_tie("correspondence", "assembled tissue iteration differs from the real solver: %s" % (json.dumps(d, default=str)[:600]))
    # oracle on the real code
    ro = vlib.Rng(seed).fork("c14-tissue-oracle")
    kinds = ["pair-overlapping", "small-pair"] if tier != "thorough" else ["pair-overlapping", "triplet", "small-pair", "row-of-four"]
    ratios = (1e-2, 1.0, 30.0, 1e3)
    for i, kind in enumerate(kinds):
        cells = make_cells(ro, kind)
        if i % 2 == 0:
            cells = straddle_origin(cells)
        rs = ratios if tier == "thorough" else (ratios[(2 * i) % 4], ratios[(2 * i + 1) % 4])
        for ratio in rs:
            d = [ro.normal() for _ in range(3)]
            n = math.sqrt(sum(x * x for x in d))
            t = [x / n * ratio * SIZE for x in d]
            oracle(kind, cells, 40 if tier != "thorough" else 100, t, ratio, seed, stats, V)
    stats["wall"] = round(time.time() - t0, 1)
    return stats


def replay(ctx):
    rp = ctx["replay"]
    inp = {}
    if isinstance(rp, dict):
        inp = (rp.get("failing_input") or {}).get("input") or rp.get("input") or rp
    print(json.dumps(rp, indent=1, default=str)[:3000])
    if not isinstance(inp, dict) or "cells" not in inp:
        print("re-run: VERIF_SEED=<seed of the replay> python3 tools/check.py C14")
        return 1
    cells = [(c[0], c[1], tuple(c[2]), tuple(c[3]), c[4]) for c in inp["cells"]]
    V = vlib.Verdict("C14")
    stats = {"scenarios": [], "doubles_compared": 0, "iterations_compared": 0, "worst_ulps": 0, "bit_identical": True, "left_domain": 0,
             "oracle_runs": 0, "oracle_late_divergences": 0, "oracle_worst_deviation_over_size": {}}
    if inp.get("part") == "oracle":
        oracle(inp.get("scenario", "replay"), cells, inp["iterations"], inp["translation"], inp["offset_over_size"], inp.get("seed", 0), stats, V)
    else:
        failures, disagreements = [], []
        correspond(inp.get("scenario", "replay"), cells, inp["iterations"], inp.get("overrides") or {}, inp.get("seed", 0), stats, failures, disagreements)
        for f in failures:
            print("FAIL", f["what"])
        for d in disagreements:
            print("DISAGREE", json.dumps(d, default=str)[:600])
        if failures or disagreements:
            return 1
    return 1 if (V.concrete or V.broken) else 0


if __name__ == "__main__":
    import sys
    V = vlib.Verdict("C14")
    st = {}
    run_tissue(V, sys.argv[1] if len(sys.argv) > 1 else "quick", vlib.seed(), st)
    print(json.dumps(st, indent=1, default=str))
    print("FAILURES", json.dumps(V.concrete + V.broken, indent=1, default=str)[:4000])
