"""C10 — no invalid memory access or undefined behaviour anywhere in a simulation.
Theorems: Properties/C10.lean (soundness of the reference-invalidation check for every capacity history; the
traces / class table / initialiser table / format table extracted from the C++ on every run satisfy it).
Correspondence of the tables with reality + search for a failing input: the real pipeline (load, iterate with
remeshing, contacts, divisions, removals, output, destroy) under ASan+UBSan (valgrind memcheck and more threads in
the thorough tier)."""
import os, sys, time, json, re, subprocess
import vlib
import scenarios as SC

PID = "C10"
NAMESPACE = "Simu.C10"
THEOREMS = ["safe_sound", "all_traces_safe", "no_stale_reference", "virtual_dtor_ok", "node_scalars_initialised", "fmt_fits"]
GEN = ["SafetyTables"]

# (name, mesh, l_min, iterations, threads, overrides, all_overrides)
QUICK = [
    ("cube-refine", "cube.vtk", "1e-6", 60, 2, {}, {}),
    # the raw 12-triangle cube goes straight to the refiner: 8 -> 130 node slots in the first pass (every growth of node_lst_ / face_lst_)
    ("cube-refine-raw", "cube.vtk", "1e-6", 12, 2, {"perform_initial_triangulation": "0"}, {}),
    ("4cubes-refine-raw-swap", "4_cubes.vtk", "1e-6", 8, 4, {"perform_initial_triangulation": "0", "enable_edge_swap_operation": "1"}, {}),
    ("4cubes-contacts", "4_cubes.vtk", "1e-6", 25, 4, {}, {}),
    # a mesh file (hence a compaction of every cell: cell::rebase) at the start of EVERY iteration: rebase is entered with every mix of
    # released node / face slots the refinement of one iteration can leave (only nodes, only faces, both, none)
    ("cube-refine-save-every-iteration", "cube.vtk", "1e-6", 80, 2, {"sampling_period": "1e-7"}, {}),
    ("4cubes-raw-swap-save-every-iteration", "4_cubes.vtk", "1e-6", 30, 4, {"perform_initial_triangulation": "0", "enable_edge_swap_operation": "1", "sampling_period": "1e-7"}, {}),
    ("sphere-division", "sphere.vtk", "7.5e-7", 40, 3, {}, {"avg_division_volume": "1e-18", "std_division_volume": "0"}),
    ("lumen-bpa", "lumen_initial_mesh.vtk", "2e-6", 2, 4, {}, {}),
    ("2cubes-removal", "2_cubes.vtk", "1e-6", 12, 2, {"min_vol": "1"}, {}),
    # generated: two unit cubes whose padded extent is a whole number of voxels in every direction (upper grid boundary hit exactly)
    ("dyadic-cubes", "gen:dyadic-cubes", "0.5", 3, 2, {"perform_initial_triangulation": "0", "contact_cutoff_adhesion": "0.25",
                                                     "contact_cutoff_repulsion": "0.25"}, {}),
    ("type-id-65535", "gen:type-id-65535", "0.5", 1, 1, {"perform_initial_triangulation": "0"}, {}),
]


def generated_mesh(spec, wd):
    """meshes that do not ship with /repo (boundary geometries), written into the scenario's work directory"""
    if spec == "gen:dyadic-cubes":
        def cube(o):
            P = [(o[0] + x, o[1] + y, o[2] + z) for x in (0.0, 1.0) for y in (0.0, 1.0) for z in (0.0, 1.0)]
            # outward triangles of the unit cube with corner index 4x+2y+z
            T = [(0, 1, 3), (0, 3, 2), (4, 6, 7), (4, 7, 5), (0, 4, 5), (0, 5, 1), (2, 3, 7), (2, 7, 6), (0, 2, 6), (0, 6, 4), (1, 5, 7), (1, 7, 3)]
            return P, T, 0
        path = os.path.join(wd, "dyadic_cubes.vtk")
        SC.write_vtk(path, [cube((0.0, 0.0, 10.0)), cube((0.0, 0.0, 12.25))])
        return path
    if spec == "gen:type-id-65535":
        # a syntactically valid file whose cell type id does not fit the short it is stored in: start-up must refuse it, not index with it
        base = generated_mesh("gen:dyadic-cubes", wd)
        txt = open(base).read()
        i = txt.rindex("cell_type_id")
        j = txt.index("\n", i) + 1
        k = txt.index("\n", j)
        path = os.path.join(wd, "type_id.vtk")
        open(path, "w").write(txt[:j] + "65535 0 " + txt[k:])
        return path
    raise ValueError(spec)
THOROUGH_EXTRA = [
    ("triplet", "cell_triplet.vtk", "7.5e-7", 30, 8, {}, {}),
    ("big-sphere", "big_sphere.vtk", "7.5e-7", 10, 16, {}, {}),
    ("lumen-bpa-b", "lumen_initial_mesh.vtk", "2e-6", 2, 7, {}, {}),
    ("lumen-bpa-c", "lumen_initial_mesh.vtk", "2.5e-6", 2, 16, {}, {}),
    ("cube-swap", "cube.vtk", "1e-6", 80, 1, {"enable_edge_swap_operation": "1"}, {}),
    ("2bigcubes", "2_big_cubes.vtk", "1e-6", 15, 5, {}, {}),
]


def run_scenarios(exe, scen, repeat=1, valgrind=False):
    results = []
    for (name, mesh, lmin, iters, threads, ov, aov) in scen:
        for rep in range(repeat):
            with SC.Workdir() as wd:
                params = SC.make_params(wd, generated_mesh(mesh, wd) if mesh.startswith("gen:") else mesh, lmin, ov, aov)
                if valgrind:
                    args = ["valgrind", "-q", "--error-exitcode=99", "--track-origins=no", exe, params, str(iters), str(threads), str(max(1, iters)), "full"]
                    t = time.time()
                    try:
                        p = subprocess.run(args, capture_output=True, timeout=1500, env=vlib.ENV)
                        r = {"rc": p.returncode, "out": p.stdout.decode(errors="replace"), "err": p.stderr.decode(errors="replace"), "wall": time.time() - t, "args": args}
                    except subprocess.TimeoutExpired:
                        r = {"rc": "timeout", "out": "", "err": "", "wall": time.time() - t, "args": args}
                    if r["rc"] == 99:
                        m = re.search(r"==\d+== ([A-Z][^\n]+)\n==\d+==\s+at 0x[0-9A-F]+: ([^\n]+)", r["err"])
                        r["problem"] = ("valgrind: %s at %s" % (m.group(1), m.group(2)[:120]) if m else "valgrind error", "valgrind@" + (m.group(2).split("(")[0].strip()[:60] if m else "?"))
                else:
                    r = SC.run(exe, params, iters, threads, max(1, iters))
                if "problem" not in r:
                    what, key = SC.classify(r["rc"], r["err"])
                    r["problem"] = (what, key) if what else None
                lines = r["out"].splitlines()
                r["ended"] = [l for l in lines if l.startswith(("END", "DESTROYED", "EXC"))]
                r["name"] = name; r["scenario"] = {"mesh": mesh, "l_min": lmin, "iterations": iters, "threads": threads, "overrides": ov, "all_overrides": aov}
                r.pop("out")
                r["err"] = r["err"][-1200:]
                results.append(r)
    return results


# the production entry point itself (main.cpp: `solver solver_; … solver_ = solver(…); solver_.run();` — a default-constructed solver that
# is move-assigned, which no harness that constructs the solver in place exercises), compiled as it is and linked with the ASan objects
MAIN_SCEN = [
    ("main-cube", "cube.vtk", "1e-6", {"simulation_duration": "2.5e-6", "sampling_period": "1e-6"}, 2),
    ("main-4cubes-initial-triangulation", "4_cubes.vtk", "1e-6", {"simulation_duration": "1.2e-6", "sampling_period": "5e-7", "perform_initial_triangulation": "1"}, 4),
]


def run_main_scenarios(scen):
    results = []
    try:
        exe, _ = vlib.build_repo.build_harness(os.path.join(vlib.REPO, "main.cpp"), "main_asan")
    except RuntimeError as e:
        return [{"name": "main", "rc": "build", "problem": ("main.cpp does not build against the repo objects: %s" % str(e)[-300:], "main-build"), "ended": [], "wall": 0.0,
                 "scenario": {}, "args": [], "err": str(e)[-800:]}]
    for (name, mesh, lmin, ov, threads) in scen:
        with SC.Workdir() as wd:
            params = SC.make_params(wd, mesh, lmin, ov, SC.DETERMINISTIC)
            e = dict(vlib.ENV); e["OMP_NUM_THREADS"] = str(threads)
            t = time.time()
            try:
                p = subprocess.run([exe, params], capture_output=True, timeout=900, env=e, cwd=wd)
                rc, err = p.returncode, p.stderr.decode(errors="replace")
            except subprocess.TimeoutExpired:
                rc, err = "timeout", ""
            what, key = SC.classify(rc, err)
            if not what and rc != 0:
                what, key = "main ended with exit code %s: %s" % (rc, err[-300:]), "main-rc"
            results.append({"name": name, "rc": rc, "problem": (what, key) if what else None, "ended": ["END", "DESTROYED"] if rc == 0 else [], "wall": time.time() - t,
                            "scenario": {"mesh": mesh, "l_min": lmin, "overrides": ov, "threads": threads, "entry": "main.cpp"}, "args": [exe, params], "err": err[-1200:]})
    return results


def run(ctx):
    tier, seed = ctx["tier"], ctx["seed"]
    t0 = time.time()
    V = vlib.Verdict(PID)
    gen = vlib.translate.run(GEN)
    proof = vlib.prove(PID, THEOREMS, NAMESPACE)
    for f in proof["failures"]:
        V.fail_tie("proof", "%s: %s" % (f["theorem"], f["reason"]), errors=proof["errors"][:5])
    if tier == "thorough" and proof["ok"]:
        ok, log = vlib.leanchecker("SimuVerif.Properties.C10")
        if not ok:
            V.fail_tie("proof", "leanchecker rejected SimuVerif.Properties.C10", log=log)
    exe, rebuilt = SC.build("asan")
    scen = list(QUICK)
    repeat = 1
    if tier == "thorough" or not proof["ok"]:
        scen += THOROUGH_EXTRA
        repeat = 3 if tier == "thorough" else 2
    results = run_scenarios(exe, scen, repeat) + run_main_scenarios(MAIN_SCEN)
    # valgrind memcheck (uninitialised values that decide a branch are invisible to ASan / UBSan): the small raw-mesh scenarios also in the
    # quick tier — nodes created by split_edge / merge_edge go through the contact phase of the same iteration before any normal / curvature
    # computation has touched them
    exe_ns, _ = SC.build("none")
    vg_scen = [s for s in QUICK if s[0] in ("cube-refine-raw", "4cubes-refine-raw-swap")]
    if tier == "thorough" or not proof["ok"]:
        vg_scen = [QUICK[0]] + vg_scen + [s for s in QUICK if s[0] in ("4cubes-contacts", "2cubes-removal")]
    vg = run_scenarios(exe_ns, vg_scen, 1, valgrind=True)
    problems = 0
    reached_destructor = 0
    clean_exceptions = 0
    for r in results + vg:
        if r["problem"]:
            problems += 1
            what, key = r["problem"]
            V.fail_input("%s [scenario %s]" % (what, r["name"]), {"scenario": r["scenario"], "command": r["args"], "stderr_tail": r["err"][-800:]}, key=key)
        else:
            if "DESTROYED" in r["ended"]:
                reached_destructor += 1
            elif any(e.startswith("EXC") for e in r["ended"]):
                clean_exceptions += 1
            else:
                problems += 1
                V.fail_input("run ended without reaching the end marker (rc=%s) [scenario %s]" % (r["rc"], r["name"]),
                             {"scenario": r["scenario"], "stderr_tail": r["err"][-500:]}, key="no-end@" + r["name"])
    rcode, nviol = V.finish()
    cov = {
        "obligations": proof["obligations"], "discharged": proof["discharged"],
        "checker_cmd": "lake build SimuVerif.Properties.C10 SimuVerif.Audit.C10 (+ leanchecker in the thorough tier)",
        "trusted_base": vlib.TRUSTED_COMMON + [
            "tools/gen/c10_traces.py: token-level extraction of bind/grow/use events, loop bodies doubled, branches laid out in sequence; growth summaries by fixpoint over the analysed functions; functions not in its list are not covered",
            "the C++ abstract machine, libstdc++, libgomp are not modelled: out-of-bounds indexing, races and uninitialised reads other than the listed node members are run-time only (ASan+UBSan, valgrind in the thorough tier)",
            "%.3f call site assumes the contact-area fraction lies in [0,1]"],
        "theorems": proof["axioms"], "proof_failures": proof["failures"], "translator": gen,
        "evaluations": len(results) + len(vg), "distinct_nontrivial": len({r["name"] for r in results + vg}),
        "rule": "scenario runs of the real pipeline (simulation_initializer -> solver::run_iteration x N -> ~solver) under ASan+UBSan with 1..16 threads; distinct = distinct scenarios; non-trivial = reaches the destructor or ends with a reported std::exception",
        "reached_destructor": reached_destructor, "clean_exceptions": clean_exceptions, "sanitizer_or_crash_reports": problems,
        "scenario_walls": {r["name"]: round(r["wall"], 1) for r in results}, "valgrind_runs": len(vg),
        "repo_objects_rebuilt": rebuilt,
        "samples": [{"name": r["name"], "scenario": r["scenario"], "ended": r["ended"], "rc": r["rc"]} for r in results[:3]],
    }
    vlib.write_evidence(PID, tier, "proof", cov, ["shipped configuration (-DNDEBUG, contact model 1, dynamic model 0, polarization mode 1)"],
                        time.time() - t0, nviol)
    return rcode


def replay(ctx):
    rp = ctx["replay"]
    fi = rp.get("failing_input", {}).get("input", {})
    sc = fi.get("scenario")
    if not sc:
        print(json.dumps(rp)[:3000]); return 1
    exe, _ = SC.build("asan")
    res = run_scenarios(exe, [("replay", sc["mesh"], sc["l_min"], sc["iterations"], sc["threads"], sc["overrides"], sc["all_overrides"])], 3)
    bad = [r for r in res if r["problem"]]
    for r in bad:
        print(r["problem"][0]); print(r["err"][-600:])
    print("%d of %d repetitions reported a problem" % (len(bad), len(res)))
    return 1 if bad else 0
