"""C06 — contact detection finds every node-face pair within the interaction range.

Model: Gen/BroadPhase.lean (padding, padded face boxes, global box, grid dimensions, voxel range of a face, node voxel,
aabb test — regenerated from the C++ on every run by tools/gen/c06_contact.py) + the folds of Model/BroadPhase.lean.
Theorems: Properties/C06.lean.  Correspondence: the real structures left by contact_model::run() (read through the friend
classes) vs the Float instance of the model, for the three contact models.  Oracle on the implementation: brute force over all
(node, face) pairs with the exact point-triangle distance (every pair within the padding must be handed to the rule) and the
forces / couplings of the real run() against an all-pairs reference that calls the same real per-pair rule.
"""
import os, sys, time, json, math
from fractions import Fraction as Fr
import vlib
from vlib import Rng, fhex, unhex
sys.path.insert(0, os.path.dirname(os.path.abspath(__file__)))
import contact_common as cc

PID = "C06"
NAMESPACE = "Simu.C06"
THEOREMS = ["padding_covers_cutoffs", "tri_in_box", "aabb_complete", "corner_inHull", "node_voxel_in_range", "nb_pos",
            "face_voxels_in_range", "voxel_complete", "voxel_content", "candidates_complete", "candidates_sound",
            "forces_eq_allpairs", "fold_eq_allpairs_ordered"]
GEN = ["BroadPhase"]
STRUCT = ["B", "G", "D", "O", "C", "V", "P"]
BAND = 2.0 ** -36      # pairs whose squared distance is within this relative band of padding^2 are not required (rounding)


# ---------------------------------------------------------------- oracle
def required_pairs(t):
    """[(node index, face gid, d2 float)] of different cells whose exact squared distance is <= padding^2 (1 - BAND)"""
    pad = t.pad()
    pad2 = pad * pad
    nodes, faces = t.nodes(), t.faces()
    boxes = []
    for (ci, fi, (a, b, c)) in faces:
        boxes.append((min(a[0], b[0], c[0]) - pad, max(a[0], b[0], c[0]) + pad, min(a[1], b[1], c[1]) - pad, max(a[1], b[1], c[1]) + pad,
                      min(a[2], b[2], c[2]) - pad, max(a[2], b[2], c[2]) + pad))
    # loose cell boxes to skip whole cells
    cellbox = {}
    for (ci, fi, _), bx in zip(faces, boxes):
        cb = cellbox.get(ci)
        cellbox[ci] = bx if cb is None else (min(cb[0], bx[0]), max(cb[1], bx[1]), min(cb[2], bx[2]), max(cb[3], bx[3]), min(cb[4], bx[4]), max(cb[5], bx[5]))
    slack = 1e-9 * pad
    faces_of = {}
    for g, (ci, fi, tri) in enumerate(faces):
        faces_of.setdefault(ci, []).append(g)
    req, band, exact_evals = [], 0, 0
    ids = [c.id for c in t.cells]
    for ni, (ci, _, p) in enumerate(nodes):
        for cj, cb in cellbox.items():
            if ids[cj] == ids[ci]:
                continue
            if p[0] < cb[0] - slack or p[0] > cb[1] + slack or p[1] < cb[2] - slack or p[1] > cb[3] + slack or p[2] < cb[4] - slack or p[2] > cb[5] + slack:
                continue
            for g in faces_of[cj]:
                bx = boxes[g]
                if p[0] < bx[0] - slack or p[0] > bx[1] + slack or p[1] < bx[2] - slack or p[1] > bx[3] + slack or p[2] < bx[4] - slack or p[2] > bx[5] + slack:
                    continue
                a, b, c = faces[g][2]
                d2 = cc.closest_float(p, a, b, c)
                if d2 > pad2 * 1.001:
                    continue
                if d2 > pad2 * 0.999:
                    exact_evals += 1
                    e = cc.exact_closest(p, a, b, c)[0]
                    lim = Fr(pad) * Fr(pad)
                    if e > lim:
                        continue
                    if e > lim * (1 - Fr(BAND)):
                        band += 1
                        continue
                req.append((ni, g, d2))
    return req, band, exact_evals


def check_tissue(t, cm, ans, model):
    """returns (list of failure texts about the implementation, list of correspondence failures, stats)"""
    fails, ties, st = [], [], {}
    s = cc.parse_tissue(ans) if ans else None
    if s is None:
        return ["harness answered %r" % (ans[:120] if ans else ans)], ties, st
    nodes, faces = t.nodes(), t.faces()
    nn, nf = len(nodes), len(faces)
    # ---- structure sanity
    try:
        nx, ny, nz, total = [int(x) for x in s["D"][:4]]
    except ValueError:
        return ["unparseable grid dimensions %r" % s["D"][:4]], ties, st
    st["voxels"] = total
    if total != nx * ny * nz:
        fails.append("voxel_lst_ has %d entries for a %dx%dx%d grid" % (total, nx, ny, nz))
    if int(s["B"][0]) != nf or len(s["V"]) != nn or len(s["P"]) != nn or len(s["F"]) != 3 * nn or len(s["R"]) != 3 * nn:
        return ["answer sizes do not match the tissue (faces %s, nodes %d)" % (s["B"][0], len(s["V"]))], ties, st
    for ni, v in enumerate(s["V"]):
        x, y, z = [int(w) for w in v.split(",")]
        if x >= nx or y >= ny or z >= nz:
            fails.append("node %d of cell %d at %r is mapped to voxel (%d,%d,%d) of a grid with (%d,%d,%d) voxels" % (
                nodes[ni][1], nodes[ni][0], nodes[ni][2], x, y, z, nx, ny, nz))
            break
    content = {}
    for ent in s["C"][1:]:
        vid, ids = ent.split(":")
        content[int(vid)] = [int(w) for w in ids.split(",")]
        if int(vid) >= total:
            fails.append("a face is registered in voxel %s of %d" % (vid, total))
    for vid, ids in content.items():
        if len(set(ids)) != len(ids):
            fails.append("voxel %d holds a face twice: %r" % (vid, ids))
            break
    # ---- completeness: every pair within the padding is handed to the rule
    req, band, exact_evals = required_pairs(t)
    st.update({"required_pairs": len(req), "band": band, "exact_evals": exact_evals})
    presented = [set() if p == "-" else (None if p == "out-of-grid" else set(int(w) for w in p.split(","))) for p in s["P"]]
    st["presented"] = sum(len(p) for p in presented if p)
    missed = 0
    for (ni, g, d2) in req:
        P = presented[ni]
        if P is None or g not in P:
            missed += 1
            if missed <= 2:
                ci, k, p = nodes[ni]
                fails.append("node %d of cell %d (id %d) at %r is at distance %.6g <= padding %.6g from face %d (cell %d) but is not handed to the contact rule" % (
                    k, ci, t.cells[ci].id, p, math.sqrt(max(d2, 0.0)), t.pad(), g, faces[g][0]))
    st["missed"] = missed
    # ---- forces and couplings of the real run() against the all-pairs reference (same real rule)
    if t.threads == 1:
        bad = [i for i in range(3 * nn) if s["F"][i] != s["R"][i] and unhex(s["F"][i]) != unhex(s["R"][i])]
        if bad:
            i = bad[0]
            fails.append("contact force on node %d of cell %d after run() is %r, the same rule applied to all node-face pairs gives %r (%d components differ)" % (
                nodes[i // 3][1], nodes[i // 3][0], unhex(s["F"][i]), unhex(s["R"][i]), len(bad)))
        if cm == 1:
            # the tail of resolve_all_contacts removes the one-sided couplings the search leaves behind (a node keeps its
            # coupling iff its partner names it back: C03.symmetrise_spec); the reference applies the rule only
            where = {(nodes[i][0], nodes[i][1]): i for i in range(len(nodes))}
            raw = list(s["RK"])
            def back(i):
                if raw[i] == "-":
                    return True
                c2, n2 = (int(x) for x in raw[i].split(":")[:2])
                j = where.get((c2, n2))
                return j is not None and raw[j] != "-" and tuple(int(x) for x in raw[j].split(":")[:2]) == (nodes[i][0], nodes[i][1])
            s["RK"] = [raw[i] if back(i) else "-" for i in range(len(raw))]
            st["one_sided_couplings_removed"] = sum(1 for i in range(len(raw)) if raw[i] != s["RK"][i])
        if s["K"] != s["RK"]:
            k = [i for i in range(min(len(s["K"]), len(s["RK"]))) if s["K"][i] != s["RK"][i]]
            fails.append("couplings after run() differ from those of the all-pairs reference at %d nodes (first: node %d of cell %d: %s vs %s)" % (
                len(k), nodes[k[0]][1], nodes[k[0]][0], s["K"][k[0]], s["RK"][k[0]]))
    else:
        F, Rr = cc.vecs(s["F"]), cc.vecs(s["R"])
        scale = max([abs(x) for v in Rr for x in v] + [0.0])
        for i in range(nn):
            if any(abs(F[i][k] - Rr[i][k]) > 1e-9 * scale + 1e-300 for k in range(3)):
                fails.append("contact force on node %d of cell %d after run() (%d threads) is %r, all-pairs reference %r" % (
                    nodes[i][1], nodes[i][0], t.threads, F[i], Rr[i]))
                break
    st["nonzero_forces"] = sum(1 for v in cc.vecs(s["F"]) if any(x != 0.0 for x in v))
    st["couplings"] = sum(1 for k in s["K"] if k != "-")
    # ---- correspondence with the model
    if model is not None:
        m = cc.split_sections(model, STRUCT)
        if m is None or any(k not in m for k in STRUCT):
            ties.append("model driver answered %r" % model[:100])
        else:
            for k in STRUCT:
                if s[k] == m[k]:
                    continue
                if len(s[k]) != len(m[k]):
                    ties.append("section %s: implementation has %d entries, model %d" % (k, len(s[k]), len(m[k])))
                    break
                for i, (x, y) in enumerate(zip(s[k], m[k])):
                    if x == y:
                        continue
                    isd = len(x) == 16 and len(y) == 16 and k in ("B", "G", "D")
                    if isd and vlib.close(unhex(x), unhex(y), 4):
                        continue
                    ties.append("section %s entry %d: implementation %s, model %s" % (k, i, x, y))
                    break
                if ties:
                    break
    return fails, ties, st


# ---------------------------------------------------------------- run
def build_cases(seed, tier, cm, widen):
    r = Rng(seed).fork("c06/%d" % cm)
    n = (45 if tier == "quick" else 900) * (3 if widen else 1)
    ts = cc.corpus_tissues()
    kinds = ["cluster", "nested", "far", "straddle", "aligned", "pairclose", "single", "apart"]
    for k in kinds:                       # every kind at least once
        ts.append(cc.gen_tissue(r, cm, quick=(tier == "quick"), force_kind=k))
    for _ in range(n):
        ts.append(cc.gen_tissue(r, cm, quick=(tier == "quick")))
    return ts


def run(ctx):
    tier, seed = ctx["tier"], ctx["seed"]
    t0 = time.time()
    V = vlib.Verdict(PID)
    gen = vlib.translate.run(GEN)
    proof = vlib.prove(PID, THEOREMS, NAMESPACE, extra_targets=("drv_c06",))
    for f in proof["failures"]:
        V.fail_tie("proof", "%s: %s" % (f["theorem"], f["reason"]), errors=proof["errors"][:5])
    if tier == "thorough" and proof["ok"]:
        ok, log = vlib.leanchecker("SimuVerif.Properties.C06")
        if not ok:
            V.fail_tie("proof", "leanchecker rejected SimuVerif.Properties.C06", log=log)
    drv = vlib.driver_path("drv_c06")
    have_drv = os.path.exists(drv) and not any("drv_c06" in e or "Driver" in e for e in proof["errors"])
    if not os.path.exists(drv):
        V.fail_tie("correspondence", "model driver missing (lake build failed)")
    stats = {"tissues": 0, "nodes": 0, "faces": 0, "required_pairs": 0, "presented": 0, "band": 0, "exact_evals": 0, "missed": 0,
             "nonzero_forces": 0, "couplings": 0, "crashes": 0, "model_identical": 0, "model_compared": 0}
    kinds, types, per_model, samples, rebuilt_total = {}, {}, {}, [], 0
    lines_seen = set()
    for cm in (0, 1, 2):
        exe, rebuilt = cc.build(cm)
        rebuilt_total += rebuilt
        ts = build_cases(seed, tier, cm, not proof["ok"])
        lines = [t.line("tissue") for t in ts]
        answers, crashes = cc.run_fed(exe, lines)
        model = [None] * len(lines)
        if have_drv:
            mo, rc2, err2 = vlib.run_lines(drv, lines)
            if rc2 != 0 or len(mo) != len(lines):
                V.fail_tie("correspondence", "model driver ended abnormally (rc=%s) %s" % (rc2, err2[-300:]))
            else:
                model = mo
        for c in crashes:
            stats["crashes"] += 1
            t = ts[c["index"]]
            err = c["stderr"]
            what = "contact model %d: run() ends abnormally (rc=%s)" % (cm, c["rc"])
            m = [l for l in err.splitlines() if "ERROR: AddressSanitizer" in l or "runtime error" in l]
            if m:
                what += ": " + m[0].split("ERROR: ")[-1][:160]
            where = [l.strip() for l in err.splitlines() if "/src/contact_models/" in l or "/include/uspg/" in l]
            V.fail_input(what, {"contact_model": cm, "tissue": t.describe(), "line": lines[c["index"]], "where": where[:3]}, key=None)
        nfail = 0
        reported = set()
        for i, t in enumerate(ts):
            lines_seen.add(lines[i])
            stats["tissues"] += 1
            stats["nodes"] += sum(len(c.pts) for c in t.cells)
            stats["faces"] += sum(len(c.faces) for c in t.cells)
            kinds[t.kind] = kinds.get(t.kind, 0) + 1
            for c in t.cells:
                types[cc.TYPE_NAMES[c.type]] = types.get(cc.TYPE_NAMES[c.type], 0) + 1
            if answers[i] is None:
                continue
            fails, ties, st = check_tissue(t, cm, answers[i], model[i])
            for k in ("required_pairs", "presented", "band", "exact_evals", "missed", "nonzero_forces", "couplings"):
                stats[k] += st.get(k, 0)
            if model[i] is not None:
                stats["model_compared"] += 1
                if not ties:
                    stats["model_identical"] += 1
            for f in fails:
                nfail += 1
                kind = f.split(" ")[0] + " " + (f.split(" ")[1] if " " in f else "")
                if nfail <= 12 and kind not in reported and len(reported) < 2:      # at most two kinds of failure per contact model
                    reported.add(kind)
                    V.fail_input("contact model %d: %s" % (cm, f), {"contact_model": cm, "tissue": t.describe(), "line": lines[i]}, key=None)
            for f in ties[:1]:
                V.fail_tie("correspondence", "contact model %d, tissue %d (%s): %s" % (cm, i, t.kind, f), line=lines[i][:400])
            if len(samples) < 3 and st.get("required_pairs", 0) > 0:
                samples.append({"contact_model": cm, "tissue": t.describe(), "required_pairs": st["required_pairs"],
                                "presented_pairs": st["presented"], "voxels": st.get("voxels")})
        per_model[str(cm)] = {"tissues": len(ts), "failures": nfail, "crashes": len(crashes)}
    rcode, nviol = V.finish()
    cov = {
        "obligations": proof["obligations"], "discharged": proof["discharged"],
        "checker_cmd": "lake build SimuVerif.Properties.C06 SimuVerif.Audit.C06 drv_c06 (+ lake env leanchecker in the thorough tier)",
        "trusted_base": vlib.TRUSTED_COMMON + [
            "tools/gen/c06_contact.py + tools/gen/_cemit.py (typed translator of the broad-phase arithmetic; structural checks of the loops)",
            "hand-written folds of Model/BroadPhase.lean (loops, containers), tied by the correspondence on every run",
            "harness/h_contact.cpp: the per-node voxel computation and the gates in front of the rule are repeated there for the dump and the all-pairs reference"],
        "theorems": {k: v for k, v in proof["axioms"].items()}, "proof_failures": proof["failures"], "translator": gen,
        "evaluations": stats["tissues"], "distinct_nontrivial": len(lines_seen),
        "rule": "seeded tissues per contact model (0,1,2): corpus of past failures + one of each kind + random kinds (cluster/nested/far/straddle/aligned/pairclose/single/apart), "
                "1-30 cells (icosahedra, subdivided icosahedra, octahedra, tetrahedra, cubes; rotated, anisotropic), all five cell types, scales 1e-6..10, "
                "offsets 0..1e4 cell sizes, cut-off/l_min 0.05..5, 1-4 threads (model 0); distinct = distinct request lines",
        "kinds": kinds, "cell_types": types, "per_model": per_model, "totals": stats,
        "repo_objects_rebuilt": rebuilt_total, "samples": samples,
    }
    vlib.write_evidence(PID, tier, "proof", cov, [
        "exact arithmetic in the theorems; at run time pairs whose squared distance is within 2^-36 (relative) of padding^2 are counted (band) and not required",
        "nodes marked unused and faces marked unused are not generated (every node of a generated cell is a corner of a face)",
        "cut-offs and l_min > 0 (enforced by the parameter reader); cell ids are distinct",
        "models 1/2 are compared single-threaded (their couplings depend on the visiting order by design); model 0 also with 2-4 threads (tolerance 1e-9 of the largest force)",
    ], time.time() - t0, nviol)
    return rcode


def replay(ctx):
    rp = ctx["replay"]
    fi = rp.get("failing_input", {}).get("input", {})
    line = fi.get("line")
    if not line:
        print("replay file names no input: %s" % json.dumps(rp.get("no_longer_checks", rp))[:2000])
        return 1
    cm = int(fi.get("contact_model", 1))
    exe, _ = cc.build(cm)
    mode, t = cc.from_line(line)
    answers, crashes = cc.run_fed(exe, [line])
    print("contact model %d, tissue: %s" % (cm, json.dumps(t.describe())))
    if crashes:
        print("VIOLATION property=C06 replay=%s" % ctx.get("replay_path", "-"))
        print("run() ends abnormally (rc=%s)\n%s" % (crashes[0]["rc"], crashes[0]["stderr"][:1200]))
        return 1
    fails, ties, st = check_tissue(t, cm, answers[0], None)
    print("statistics: %s" % json.dumps(st))
    if fails:
        print("VIOLATION property=C06 replay=%s" % ctx.get("replay_path", "-"))
        for f in fails[:5]:
            print(f)
        return 1
    print("property holds on this input now")
    return 0
