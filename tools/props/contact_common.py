"""Shared by the C06 and C07 checks: mesh and tissue generators, the request lines of harness/h_contact.cpp and of
the model driver drv_c06, parsers of their answers, and the exact (fractions.Fraction) point-triangle kernel used
by the oracles."""
import os, sys, math, subprocess
from fractions import Fraction as Fr
import vlib
from vlib import fhex, unhex

HARNESS = os.path.join(vlib.VERIF, "harness", "h_contact.cpp")
TYPE_NAMES = ["epithelial", "ecm", "lumen", "nucleus", "static"]
DBL_MAX = 1.7976931348623157e308


def build(cm):
    return vlib.build_repo.build_harness(HARNESS, "h_contact_cm%d" % cm, defines={"SIMUCELL3D_VERIF_CM": cm})


# ------------------------------------------------------------------------------------------ meshes
def _orient(pts, faces, centre):
    out = []
    for (a, b, c) in faces:
        A, B, C = pts[a], pts[b], pts[c]
        u = [B[i] - A[i] for i in range(3)]
        v = [C[i] - A[i] for i in range(3)]
        n = [u[1] * v[2] - u[2] * v[1], u[2] * v[0] - u[0] * v[2], u[0] * v[1] - u[1] * v[0]]
        g = [(A[i] + B[i] + C[i]) / 3.0 - centre[i] for i in range(3)]
        out.append((a, b, c) if sum(n[i] * g[i] for i in range(3)) >= 0 else (a, c, b))
    return out


def icosahedron():
    t = (1.0 + math.sqrt(5.0)) / 2.0
    raw = [(-1, t, 0), (1, t, 0), (-1, -t, 0), (1, -t, 0), (0, -1, t), (0, 1, t), (0, -1, -t), (0, 1, -t),
           (t, 0, -1), (t, 0, 1), (-t, 0, -1), (-t, 0, 1)]
    pts = []
    for p in raw:
        n = math.sqrt(sum(x * x for x in p))
        pts.append([x / n for x in p])
    faces = [(0, 11, 5), (0, 5, 1), (0, 1, 7), (0, 7, 10), (0, 10, 11), (1, 5, 9), (5, 11, 4), (11, 10, 2), (10, 7, 6),
             (7, 1, 8), (3, 9, 4), (3, 4, 2), (3, 2, 6), (3, 6, 8), (3, 8, 9), (4, 9, 5), (2, 4, 11), (6, 2, 10), (8, 6, 7), (9, 8, 1)]
    return pts, faces


def subdivide(pts, faces):
    pts = [list(p) for p in pts]
    mid = {}

    def m(a, b):
        k = (min(a, b), max(a, b))
        if k not in mid:
            p = [(pts[a][i] + pts[b][i]) / 2.0 for i in range(3)]
            n = math.sqrt(sum(x * x for x in p))
            pts.append([x / n for x in p])
            mid[k] = len(pts) - 1
        return mid[k]
    nf = []
    for (a, b, c) in faces:
        ab, bc, ca = m(a, b), m(b, c), m(c, a)
        nf += [(a, ab, ca), (b, bc, ab), (c, ca, bc), (ab, bc, ca)]
    return pts, nf


def octahedron():
    pts = [[1, 0, 0], [-1, 0, 0], [0, 1, 0], [0, -1, 0], [0, 0, 1], [0, 0, -1]]
    faces = [(0, 2, 4), (2, 1, 4), (1, 3, 4), (3, 0, 4), (2, 0, 5), (1, 2, 5), (3, 1, 5), (0, 3, 5)]
    return [list(map(float, p)) for p in pts], faces


def tetrahedron():
    pts = [[1, 1, 1], [1, -1, -1], [-1, 1, -1], [-1, -1, 1]]
    s = 1.0 / math.sqrt(3.0)
    faces = [(0, 1, 2), (0, 3, 1), (0, 2, 3), (1, 3, 2)]
    return [[x * s for x in p] for p in pts], faces


def cube():
    pts = [[x, y, z] for z in (-1.0, 1.0) for y in (-1.0, 1.0) for x in (-1.0, 1.0)]
    quads = [(0, 1, 3, 2), (4, 6, 7, 5), (0, 4, 5, 1), (2, 3, 7, 6), (0, 2, 6, 4), (1, 5, 7, 3)]
    faces = []
    for (a, b, c, d) in quads:
        faces += [(a, b, c), (a, c, d)]
    return pts, faces


_SHAPES = {}


def unit_shape(name):
    if name not in _SHAPES:
        if name == "ico0":
            p, f = icosahedron()
        elif name == "ico1":
            p, f = subdivide(*icosahedron())
        elif name == "octa":
            p, f = octahedron()
        elif name == "tetra":
            p, f = tetrahedron()
        elif name == "cube":
            p, f = cube()
        else:
            raise ValueError(name)
        _SHAPES[name] = (p, _orient(p, f, [0.0, 0.0, 0.0]))
    return _SHAPES[name]


def rot_matrix(r):
    # random rotation from a unit quaternion
    while True:
        q = [r.normal() for _ in range(4)]
        n = math.sqrt(sum(x * x for x in q))
        if n > 1e-3:
            break
    w, x, y, z = [v / n for v in q]
    return [[1 - 2 * (y * y + z * z), 2 * (x * y - z * w), 2 * (x * z + y * w)],
            [2 * (x * y + z * w), 1 - 2 * (x * x + z * z), 2 * (y * z - x * w)],
            [2 * (x * z - y * w), 2 * (y * z + x * w), 1 - 2 * (x * x + y * y)]]


def place(shape, centre, radii, M=None):
    pts, faces = unit_shape(shape)
    out = []
    for p in pts:
        q = [p[0] * radii[0], p[1] * radii[1], p[2] * radii[2]]
        if M is not None:
            q = [sum(M[i][j] * q[j] for j in range(3)) for i in range(3)]
        out.append([q[i] + centre[i] for i in range(3)])
    return out, list(faces)


class Cell:
    def __init__(self, ctype, cid, pts, faces, face_types, ftypes=None, maxcurv=1e300):
        self.type, self.id, self.pts, self.faces = ctype, cid, pts, faces
        self.face_types = face_types                  # list of (adh, rep)
        self.ftypes = ftypes or [0] * len(faces)      # face type of each face
        self.maxcurv = maxcurv


class Tissue:
    def __init__(self, cells, lmin, cadh, crep, threads=1, prep=0, pre=(-1.0, -1.0, -1.0, -1.0), max_pairs=0, kind="?"):
        self.cells, self.lmin, self.cadh, self.crep = cells, lmin, cadh, crep
        self.threads, self.prep, self.pre, self.max_pairs, self.kind = threads, prep, pre, max_pairs, kind

    def line(self, mode):
        w = [mode, str(self.threads), str(self.prep), fhex(self.lmin), fhex(self.cadh), fhex(self.crep)]
        w += [fhex(x) for x in self.pre]
        w += [str(self.max_pairs), str(len(self.cells))]
        for c in self.cells:
            w += [str(c.type), str(c.id), fhex(c.maxcurv), str(len(c.face_types))]
            for (a, r) in c.face_types:
                w += [fhex(a), fhex(r)]
            w += [str(len(c.pts)), str(len(c.faces))]
            for p in c.pts:
                w += [fhex(p[0]), fhex(p[1]), fhex(p[2])]
            for f, t in zip(c.faces, c.ftypes):
                w += [str(f[0]), str(f[1]), str(f[2]), str(t)]
        return " ".join(w)

    def pad(self):
        return max(self.cadh, self.crep)

    def nodes(self):
        """[(cell index, node index, pos)] in the order the harness dumps them"""
        return [(ci, ni, p) for ci, c in enumerate(self.cells) for ni, p in enumerate(c.pts)]

    def faces(self):
        """[(cell index, face index, (a,b,c) positions)] = face_lst_ order (global face id)"""
        return [(ci, fi, (c.pts[f[0]], c.pts[f[1]], c.pts[f[2]])) for ci, c in enumerate(self.cells) for fi, f in enumerate(c.faces)]

    def describe(self):
        return {"kind": self.kind, "cells": len(self.cells), "types": [c.type for c in self.cells], "l_min": self.lmin,
                "cutoff_adhesion": self.cadh, "cutoff_repulsion": self.crep, "threads": self.threads, "prep": self.prep,
                "nodes": sum(len(c.pts) for c in self.cells), "faces": sum(len(c.faces) for c in self.cells),
                "first_cell_centre": [sum(p[i] for p in self.cells[0].pts) / len(self.cells[0].pts) for i in range(3)]}


def from_line(line):
    """inverse of Tissue.line (replays store the request line)"""
    w = line.split()
    k = [0]

    def nu():
        k[0] += 1
        return int(w[k[0] - 1])

    def nd():
        k[0] += 1
        return unhex(w[k[0] - 1])
    mode = w[0]
    k[0] = 1
    threads, prep = nu(), nu()
    lmin, cadh, crep = nd(), nd(), nd()
    pre = (nd(), nd(), nd(), nd())
    max_pairs = nu()
    nc = nu()
    cells = []
    for _ in range(nc):
        t, cid = nu(), nu()
        mc = nd()
        nft = nu()
        fts = [(nd(), nd()) for _ in range(nft)]
        nn, nf = nu(), nu()
        pts = [[nd(), nd(), nd()] for _ in range(nn)]
        faces, ftypes = [], []
        for _ in range(nf):
            faces.append((nu(), nu(), nu()))
            ftypes.append(nu())
        cells.append(Cell(t, cid, pts, faces, fts, ftypes, mc))
    return mode, Tissue(cells, lmin, cadh, crep, threads, prep, pre, max_pairs, "replay")


# ------------------------------------------------------------------------------------------ tissue generator
def gen_face_types(r, ctype, uniform=False):
    if uniform or r.randint(0, 2) == 0:
        a, p = r.uniform(0.0, 2.0), r.uniform(0.2, 3.0)
        return [(a, p)] * 3
    return [(r.choice([0.0, r.uniform(0.0, 2.0)]), r.uniform(0.1, 3.0)) for _ in range(3)]


def gen_tissue(r, cm, quick=True, force_kind=None):
    kind = force_kind or r.choice(["cluster", "cluster", "cluster", "nested", "far", "far", "straddle", "aligned", "pairclose", "single", "apart"])
    scale = 10.0 ** r.uniform(-6, 1)
    if kind == "aligned":
        return gen_aligned(r, cm)
    R = scale
    shape_pool = ["ico0", "ico0", "ico0", "octa", "tetra", "cube", "ico1"]
    ncell = {"cluster": r.randint(2, 12 if quick else 30), "nested": r.randint(2, 6), "far": r.randint(2, 8), "straddle": r.randint(2, 8),
             "pairclose": 2, "single": 1, "apart": r.randint(2, 4)}[kind]
    cells = []
    types_pool = [0, 0, 0, 1, 2, 3, 4]
    threads = 1 if (cm != 0 or r.randint(0, 3) != 0) else r.randint(2, 4)
    uniform_ft = threads > 1
    # mean edge length of a unit icosahedron ~ 1.05 R, ico1 ~ 0.55 R
    lmin = R * r.uniform(0.15, 0.7)
    cadh = lmin * (10.0 ** r.uniform(math.log10(0.05), math.log10(5.0)))
    crep = lmin * (10.0 ** r.uniform(math.log10(0.05), math.log10(5.0)))
    if r.randint(0, 3) == 0:
        crep = cadh
    if kind == "nested":
        outer_t = r.choice([1, 0, 0, 4])
        inner_t = {1: r.choice([0, 0, 2, 3]), 0: r.choice([3, 3, 2]), 4: r.choice([0, 3])}[outer_t]
        Rout = R * r.uniform(2.0, 3.5)
        pts, faces = place(r.choice(["ico1", "ico0", "cube"]), [0.0, 0.0, 0.0], [Rout] * 3, rot_matrix(r))
        cells.append(Cell(outer_t, 0, pts, faces, gen_face_types(r, outer_t, uniform_ft), [r.randint(0, 2) for _ in faces]))
        for i in range(1, ncell):
            d = [r.normal() for _ in range(3)]
            n = math.sqrt(sum(x * x for x in d)) or 1.0
            off = Rout * r.uniform(0.0, 1.05)      # some inner cells poke through the enclosing surface
            ctr = [d[j] / n * off * r.uniform(0.3, 1.0) for j in range(3)]
            pts, faces = place(r.choice(shape_pool[:5]), ctr, [R * r.uniform(0.4, 1.0)] * 3, rot_matrix(r))
            cells.append(Cell(inner_t if r.randint(0, 3) else r.choice(types_pool), i, pts, faces, gen_face_types(r, inner_t, uniform_ft),
                              [r.randint(0, 2) for _ in faces]))
    else:
        spacing = 2.0 * R * {"cluster": r.uniform(0.6, 1.25), "far": r.uniform(0.7, 1.2), "straddle": r.uniform(0.7, 1.2),
                             "pairclose": r.uniform(0.3, 1.1), "single": 1.0, "apart": r.uniform(3.0, 8.0)}[kind]
        side = int(math.ceil(ncell ** (1.0 / 3.0)))
        slots = [(i, j, k) for i in range(side) for j in range(side) for k in range(side)]
        r.shuffle(slots)
        for i in range(ncell):
            s = slots[i]
            ctr = [s[j] * spacing + r.uniform(-0.15, 0.15) * R for j in range(3)]
            radii = [R * r.uniform(0.7, 1.1) for _ in range(3)] if r.randint(0, 2) == 0 else [R * r.uniform(0.8, 1.05)] * 3
            pts, faces = place(r.choice(shape_pool), ctr, radii, rot_matrix(r))
            t = r.choice(types_pool)
            cells.append(Cell(t, i if r.randint(0, 1) else 10 + 3 * i, pts, faces, gen_face_types(r, t, uniform_ft), [r.randint(0, 2) for _ in faces]))
    # where the tissue sits
    if kind == "far":
        off = [r.choice([-1, 1]) * R * 10.0 ** r.uniform(1, 4) for _ in range(3)]
    elif kind == "straddle":
        cx = [sum(p[i] for c in cells for p in c.pts) / sum(len(c.pts) for c in cells) for i in range(3)]
        off = [-cx[i] + r.uniform(-0.5, 0.5) * R for i in range(3)]
    else:
        off = [r.choice([0.0, r.uniform(-3, 3) * R, r.uniform(-30, 30) * R]) for _ in range(3)]
    for c in cells:
        c.pts = [[p[i] + off[i] for i in range(3)] for p in c.pts]
    prep = 0 if cm == 0 else r.choice([0, 1, 1])
    for c in cells:
        c.maxcurv = r.choice([1e300, 1e300, 1e300, r.uniform(0.5, 3.0) / R])
    # bit 1 of prep: every cell carries 1-3 released face slots in front of its live faces (as edge collapses leave them until the
    # next rebase); the global face ids, boxes and voxel lists must be those of the live faces only
    if r.randint(0, 1):
        prep |= 2
    return Tissue(cells, lmin, cadh, crep, threads, prep, kind=kind)


def gen_aligned(r, cm):
    """dyadic boxes whose padded extent is an exact multiple of the voxel size on some axes (the padding
    DBL_EPSILON of the grid is absorbed for |coordinate| >= 2): the face boxes touching the global maximum
    land exactly on the upper boundary of the grid"""
    e = r.randint(-2, 3)
    u = 2.0 ** e                      # unit
    lmin = 0.5 * u
    pad = 0.25 * u
    cadh, crep = r.choice([(pad, pad), (pad, pad / 2), (pad / 2, pad)])
    vs = 3 * lmin + 2 * pad           # = 2u
    base = [u * r.choice([8.0, 10.0, -32.0, 16.0, 5.0, -12.0]) for _ in range(3)]
    ncell = r.randint(2, 5)
    cells = []
    # extent on axis a:  L + 3 pad  must be  k * vs   ->  L = 2k u - 0.75 u
    ks = [r.randint(1, 3) for _ in range(3)]
    L = [2 * ks[i] * u - 0.75 * u if r.randint(0, 3) else u * r.uniform(1.0, 4.0) for i in range(3)]
    for i in range(ncell):
        if i == 0:
            lo = list(base)
        elif i == 1:
            lo = [base[j] + L[j] - u for j in range(3)]
        else:
            lo = [base[j] + u * 0.25 * r.randint(0, int(4 * (L[j] / u - 1))) for j in range(3)]
        pts, faces = unit_shape("cube")
        P = [[lo[j] + (p[j] + 1.0) * 0.5 * u for j in range(3)] for p in pts]
        t = r.choice([0, 0, 1, 2, 3, 4])
        cells.append(Cell(t, i, P, list(faces), gen_face_types(r, t, True), [0] * len(faces)))
    return Tissue(cells, lmin, cadh, crep, 1, 0 if cm == 0 else r.choice([0, 1]), kind="aligned")


def corpus_tissues():
    """tissues kept from past failures"""
    out = []
    # C06 defect (grid upper boundary): two unit cubes at z in [10,11] and [12.25,13.25]; l_min .5, cut-offs .25:
    # voxel size 2, padded extent in z = 3.25 + .75 = 4 = 2 voxels; the top faces' box ends at 13.5 -> voxel index 2 of 2
    pts, faces = unit_shape("cube")
    A = [[10.0 + (p[j] + 1.0) * 0.5 for j in range(3)] for p in pts]
    B = [[10.0 + (p[0] + 1.0) * 0.5, 10.0 + (p[1] + 1.0) * 0.5, 12.25 + (p[2] + 1.0) * 0.5] for p in pts]
    ft = [(1.0, 1.0)] * 3
    out.append(Tissue([Cell(0, 0, A, list(faces), ft), Cell(0, 1, B, list(faces), ft)], 0.5, 0.25, 0.25, kind="corpus-grid-upper-boundary-z"))
    # same on the x axis (no out-of-bounds write: the face is registered in voxel (nb_x, y, z) = (0, y+1, z))
    Bx = [[12.25 + (p[0] + 1.0) * 0.5, 10.0 + (p[1] + 1.0) * 0.5, 10.0 + (p[2] + 1.0) * 0.5] for p in pts]
    out.append(Tissue([Cell(0, 0, A, list(faces), ft), Cell(1, 1, Bx, list(faces), ft)], 0.5, 0.25, 0.25, kind="corpus-grid-upper-boundary-x"))
    return out


# ------------------------------------------------------------------------------------------ kernels
def closest_float(p, a, b, c):
    """Ericson's closest point, floats: (d2, (u,v,w))"""
    ab = (b[0] - a[0], b[1] - a[1], b[2] - a[2]); ac = (c[0] - a[0], c[1] - a[1], c[2] - a[2]); ap = (p[0] - a[0], p[1] - a[1], p[2] - a[2])
    d1 = ab[0] * ap[0] + ab[1] * ap[1] + ab[2] * ap[2]; d2 = ac[0] * ap[0] + ac[1] * ap[1] + ac[2] * ap[2]
    if d1 <= 0 and d2 <= 0:
        return ap[0] ** 2 + ap[1] ** 2 + ap[2] ** 2
    bp = (p[0] - b[0], p[1] - b[1], p[2] - b[2])
    d3 = ab[0] * bp[0] + ab[1] * bp[1] + ab[2] * bp[2]; d4 = ac[0] * bp[0] + ac[1] * bp[1] + ac[2] * bp[2]
    if d3 >= 0 and d4 <= d3:
        return bp[0] ** 2 + bp[1] ** 2 + bp[2] ** 2
    vc = d1 * d4 - d3 * d2
    if vc <= 0 and d1 >= 0 and d3 <= 0:
        v = d1 / (d1 - d3) if d1 != d3 else 0.0
        q = (a[0] + ab[0] * v - p[0], a[1] + ab[1] * v - p[1], a[2] + ab[2] * v - p[2])
        return q[0] ** 2 + q[1] ** 2 + q[2] ** 2
    cp = (p[0] - c[0], p[1] - c[1], p[2] - c[2])
    d5 = ab[0] * cp[0] + ab[1] * cp[1] + ab[2] * cp[2]; d6 = ac[0] * cp[0] + ac[1] * cp[1] + ac[2] * cp[2]
    if d6 >= 0 and d5 <= d6:
        return cp[0] ** 2 + cp[1] ** 2 + cp[2] ** 2
    vb = d5 * d2 - d1 * d6
    if vb <= 0 and d2 >= 0 and d6 <= 0:
        w = d2 / (d2 - d6) if d2 != d6 else 0.0
        q = (a[0] + ac[0] * w - p[0], a[1] + ac[1] * w - p[1], a[2] + ac[2] * w - p[2])
        return q[0] ** 2 + q[1] ** 2 + q[2] ** 2
    va = d3 * d6 - d5 * d4
    if va <= 0 and (d4 - d3) >= 0 and (d5 - d6) >= 0:
        den = (d4 - d3) + (d5 - d6)
        z = (d4 - d3) / den if den != 0 else 0.0
        q = (b[0] + (c[0] - b[0]) * z - p[0], b[1] + (c[1] - b[1]) * z - p[1], b[2] + (c[2] - b[2]) * z - p[2])
        return q[0] ** 2 + q[1] ** 2 + q[2] ** 2
    s = va + vb + vc
    if s == 0:
        return min(ap[0] ** 2 + ap[1] ** 2 + ap[2] ** 2, bp[0] ** 2 + bp[1] ** 2 + bp[2] ** 2)
    v = vb / s; w = vc / s
    q = (p[0] - (a[0] + ab[0] * v + ac[0] * w), p[1] - (a[1] + ab[1] * v + ac[1] * w), p[2] - (a[2] + ab[2] * v + ac[2] * w))
    return q[0] ** 2 + q[1] ** 2 + q[2] ** 2


def exact_closest(p, a, b, c):
    """exact closest point of the closed triangle by enumeration of its 7 features: (d2, q, feature) as Fractions"""
    p = [Fr(x) for x in p]; a = [Fr(x) for x in a]; b = [Fr(x) for x in b]; c = [Fr(x) for x in c]
    sub = lambda u, v: [u[i] - v[i] for i in range(3)]
    dot = lambda u, v: u[0] * v[0] + u[1] * v[1] + u[2] * v[2]
    best = None
    for name, q in (("A", a), ("B", b), ("C", c)):
        d = dot(sub(p, q), sub(p, q))
        if best is None or d < best[0]:
            best = (d, q, name)
    for name, (e0, e1) in (("AB", (a, b)), ("AC", (a, c)), ("BC", (b, c))):
        e = sub(e1, e0)
        ee = dot(e, e)
        if ee == 0:
            continue
        t = dot(sub(p, e0), e) / ee
        if 0 < t < 1:
            q = [e0[i] + t * e[i] for i in range(3)]
            d = dot(sub(p, q), sub(p, q))
            if d < best[0]:
                best = (d, q, name)
    ab, ac, ap = sub(b, a), sub(c, a), sub(p, a)
    A, B, C = dot(ab, ab), dot(ab, ac), dot(ac, ac)
    det = A * C - B * B
    if det != 0:
        d1, d2 = dot(ab, ap), dot(ac, ap)
        s = (C * d1 - B * d2) / det
        t = (A * d2 - B * d1) / det
        if s > 0 and t > 0 and s + t < 1:
            q = [a[i] + s * ab[i] + t * ac[i] for i in range(3)]
            d = dot(sub(p, q), sub(p, q))
            if d < best[0]:
                best = (d, q, "F")
    return best


# ------------------------------------------------------------------------------------------ answers
def split_sections(ans, names):
    """'ok F .. K .. B ..' -> {name: [tokens]}"""
    w = ans.split()
    if not w or w[0] != "ok":
        return None
    out, cur = {}, None
    ns = set(names)
    for t in w[1:]:
        if t in ns and t not in out:
            cur = t
            out[cur] = []
        elif cur is not None:
            out[cur].append(t)
    return out


TISSUE_SECTIONS = ["F", "K", "B", "G", "D", "O", "C", "V", "P", "R", "RK"]


def parse_tissue(ans):
    s = split_sections(ans, TISSUE_SECTIONS)
    if s is None or any(k not in s for k in TISSUE_SECTIONS):
        return None
    return s


def vecs(tokens):
    v = [unhex(t) for t in tokens]
    return [v[i:i + 3] for i in range(0, len(v), 3)]


def run_fed(exe, lines, timeout=1200):
    """feed the lines; after a sanitizer abort / crash the line that killed the process is recorded and the
    remaining lines are re-fed to a fresh process.  returns (answers (None where the process died), crashes)"""
    answers = [None] * len(lines)
    crashes = []
    start = 0
    while start < len(lines) and len(crashes) < 6:
        out, rc, err = vlib.run_lines(exe, lines[start:], timeout=timeout)
        for i, o in enumerate(out):
            if start + i < len(lines):
                answers[start + i] = o
        if rc == 0 and len(out) == len(lines) - start:
            break
        bad = start + len(out)
        if bad >= len(lines):
            break
        crashes.append({"index": bad, "rc": rc, "stderr": err[:3000]})
        answers[bad] = None
        start = bad + 1
    return answers, crashes
