"""C13 — initial surface reconstruction returns a faithful closed mesh or fails cleanly.

Tie      : tools/gen/c13_gate.py regenerates lean/SimuVerif/Gen/GateConsts.lean (max_nb_tries, shape of the retry loop, which tests
           initialize_cell_properties(true) makes and the Euler number, voxel size / rejection test / caps of the dart throwing,
           the fan of coarse_triangulation) — plus Gen/Geometry.lean (winding table, sign flip) and Gen/Grid.lean (grids) of C12 / C20.
           The gate, the retry loop, the coarse triangulation and the dart throwing (lean/SimuVerif/Model/Gate.lean, Poisson.lean)
           run through lean/Driver/C13.lean on the same request lines as the REAL code (harness/h_reconstruct.cpp):
             gate   : whatever mesh the real, clock-seeded initial_triangulation::triangulate_surface returned (and hand-made meshes)
                      goes to the real cell(mesh)+initialize_cell_properties(true) and to the model: same verdict, same faces, same
                      area / volume bits — independent of the random outcome;
             coarse : real coarse_triangulation vs model, token for token;
             dart   : real poisson_disk_sampling on the real uniform cloud vs model, token for token;
             tries  : number of attempts / outcome of the real 10-try loop vs the model loop.
Theorems : lean/SimuVerif/Properties/C13.lean.
Oracle   : on every cell the real pipeline hands on (init = simulation_initializer on a written .vtk, as main does): topology
           recomputed from the faces (every edge in two faces, opposite directions, V-E+F = 2, one face component, vertex links single
           cycles, no repeated node), exact signed volume > 0, and — run-time only — volume / bounding box / node-to-surface distance
           against the input polyhedron within the resolution-dependent tolerance below; exact pairwise distance of the Poisson points.
           Inputs that can never be triangulated must end in intialization_exception after exactly max_nb_tries attempts.
"""
import os, sys, time, json, math, re
from fractions import Fraction as Fr
import vlib
from vlib import Rng, fhex, unhex
sys.path.insert(0, os.path.dirname(os.path.abspath(__file__)))
import c13_util as U

PID = "C13"
NAMESPACE = "Simu.C13"
THEOREMS = [
    "gate_sound", "spanning_tree_orientation_extends", "relative_winding", "edge_set_sound", "gate_connected",
    "gate_rejects_degenerate", "gate_rejects_sphere_plus_torus",
    "tries_bounded", "max_nb_tries_pos", "attempt_sound", "init_sound", "init_bad_type",
    "poisson_min_distance", "poisson_min_distance_of_voxel", "dart_accept_far",
    "coarse_triangulation_closed", "coarse_triangulation_simple", "coarse_triangulation_half_edges",
    "coarse_triangulation_volume_planar", "sampled_surface_outward", "octa_accepted",
]
GEN = ["Geometry", "Grid", "GateConsts"]
HARNESS = os.path.join(vlib.VERIF, "harness", "h_reconstruct.cpp")

# ---- run-time tolerances of the approximation oracle (r = l_min / size, size = largest extent of the input box) ----------
# How they were chosen (measurements on the repaired tree over the generator's families, every winding mode, r = 0.08 / 0.15 / 0.3;
# table in notes/C13.md):
#  * nodes: Poisson samples lie ON the input surface (distance ~1e-16 size); fill_surface_holes adds the mean of <= 12 hole nodes,
#    which is off the surface by at most about one ball radius (1.7 l_min) across a sharp or re-entrant edge: measured <= 0.84 l_min.
#    Limit 2 l_min.  All nodes are convex combinations of surface points: never outside the box of the input.
#  * volume: the reconstruction cuts the edges / corners of the input by chords <= 3 l_min: the loss is quadratic in r;
#    measured relative error <= 4.6 r^2 (0.036 at r = 0.08, 0.10 at 0.15, 0.18 at 0.2).  Limit 12 r^2 + 0.015.
#  * box: measured shrink per side <= 0.6 r.  Limit 1.8 r.
#  Volume and box limits are applied for r <= 0.2 only (beyond, a handful of triangles cannot approximate anything: only the node
#  distance and the containment are checked).
DIST_FACTOR = 2.0        # x l_min
DIST_EPS = 1e-9          # x size
VOL_TOL = lambda r: 12.0 * r * r + 0.015
BOX_TOL = lambda r: 1.8 * r          # x size, per side; never outside the input box (+ DIST_EPS)
R_MEANINGFUL = 0.2


# ------------------------------------------------------------------------------------------ protocol helpers
def hexs(v):
    return " ".join(fhex(x) for p in v for x in p)


def gate_line(v, f):
    return "gate %d %d %s %s" % (len(v), len(f), hexs(v), " ".join("%d %d %d" % tuple(t) for t in f))


def poly_line(op, v, f, pre=""):
    return "%s %s%d %d %s %s" % (op, pre, len(v), len(f), hexs(v), " ".join("%d %s" % (len(t), " ".join(map(str, t))) for t in f))


def parse_gate(ans):
    w = ans.split()
    if not w:
        return {"status": "empty"}
    if w[0] == "err":
        return {"status": "err-" + (w[1] if len(w) > 1 else "?")}
    if w[0] != "ok":
        return {"status": w[0]}
    nf = int(w[1])
    ids = [int(z) for z in w[2:2 + 3 * nf]]
    return {"status": "ok", "faces": [tuple(ids[3 * k:3 * k + 3]) for k in range(nf)], "area": unhex(w[2 + 3 * nf]), "volume": unhex(w[3 + 3 * nf])}


def parse_mesh(ans):
    w = ans.split()
    if not w or w[0] != "mesh":
        return None
    nn, nf = int(w[1]), int(w[2])
    xs = [unhex(z) for z in w[3:3 + 3 * nn]]
    ids = [int(z) for z in w[3 + 3 * nn:]]
    return [xs[3 * i:3 * i + 3] for i in range(nn)], [tuple(ids[3 * k:3 * k + 3]) for k in range(nf)]


def parse_pts(ans):
    w = ans.split()
    if not w or w[0] != "pts":
        return None
    n_uni, n = int(w[1]), int(w[2])
    xs = [unhex(z) for z in w[3:]]
    return n_uni, [xs[3 * i:3 * i + 3] for i in range(n)], w[3:]


def parse_init(ans):
    w = ans.split()
    if not w:
        return {"status": "empty"}
    if w[0] == "exc":
        return {"status": "exc", "cls": w[1], "tries": int(w[2]) if len(w) > 2 and w[2].isdigit() else None}
    if w[0] != "ok":
        return {"status": w[0]}
    tries, nf = int(w[1]), int(w[2])
    ids = [int(z) for z in w[3:3 + 3 * nf]]
    nn = int(w[3 + 3 * nf])
    xs = [unhex(z) for z in w[4 + 3 * nf:4 + 3 * nf + 3 * nn]]
    return {"status": "ok", "tries": tries, "faces": [tuple(ids[3 * k:3 * k + 3]) for k in range(nf)],
            "pts": [xs[3 * i:3 * i + 3] for i in range(nn)], "volume": unhex(w[4 + 3 * nf + 3 * nn])}


def source_constants():
    s = open(os.path.join(vlib.REPO, "src", "io", "simulation_initializer.cpp")).read()
    m = re.search(r"constexpr\s+short\s+max_nb_tries\s*=\s*(\d+)", s)
    return {"max_nb_tries": int(m.group(1)) if m else None}


# ------------------------------------------------------------------------------------------ oracles
def topo_oracle(faces):
    """the property's demands on the surface handed to the solver, recomputed from the faces alone"""
    fails = []
    if any(len(set(t)) != 3 for t in faces):
        fails.append("a face of the cell uses a node twice")
    cnt = U.edge_face_counts(faces)
    bad = [e for e, k in cnt.items() if k != 2]
    if bad:
        fails.append("edge %r of the cell belongs to %d faces (open or non-manifold surface)" % (bad[0], cnt[bad[0]]))
    if not U.closed_consistent(faces):
        fails.append("the faces of the cell are not consistently oriented (a half-edge occurs twice or its reverse is missing)")
    chi = U.euler(faces)
    if chi != 2:
        fails.append("the surface of the cell has Euler characteristic %d, not 2" % chi)
    comps = U.face_components(faces)
    if comps != 1:
        fails.append("the surface of the cell is made of %d pieces" % comps)
    if not fails and not U.vertex_links_single_cycle(faces):
        fails.append("a node of the cell has a link that is not a single cycle (pinched surface)")
    return fails


def outward_oracle(pts, faces):
    """exact signed volume of the windings; the code decides the sign in doubles on un-centred determinants, so a cell whose
    exact volume is negative by less than the rounding of that sum (24 eps nf M^3, as in C12) is not inside-out but flat"""
    v6 = U.exact_vol6(pts, faces)
    used = set(a for t in faces for a in t)
    M = max([abs(x) for i in used for x in pts[i]] + [0.0])
    tol = 24 * 2.0 ** -53 * len(faces) * M ** 3
    if float(v6) < -6 * tol:
        return ["the cell is inside-out: exact signed volume %.6g" % float(v6 / 6)], float(v6 / 6)
    return [], float(v6 / 6)


def approx_oracle(inp_pts, inp_faces, tri_in, pts, faces, l_min, size, meas):
    """run-time only: volume, box and node-to-surface distance against the input polyhedron"""
    fails = []
    r = l_min / size
    used = sorted(set(a for t in faces for a in t))
    dmax = 0.0
    step = max(1, len(used) // 4000)       # every node (a single misplaced node is a violation), sampled only above 4000 nodes
    for i in used[::step]:
        d = U.dist_to_surface(pts[i], inp_pts, tri_in)
        dmax = max(dmax, d)
    meas["dist_over_size"] = dmax / size
    if dmax > DIST_FACTOR * l_min + DIST_EPS * size:
        fails.append("a node of the reconstructed cell is %.3g away from the input surface (l_min %.3g, size %.3g)" % (dmax, l_min, size))
    ib = U.aabb(inp_pts, sorted(set(a for f in inp_faces for a in f)))
    ob = U.aabb(pts, used)
    out = max(max(ib[k] - ob[k] for k in range(3)), max(ob[k + 3] - ib[k + 3] for k in range(3)))
    shrink = max(max(ob[k] - ib[k] for k in range(3)), max(ib[k + 3] - ob[k + 3] for k in range(3)))
    meas["box_shrink_over_size"] = shrink / size
    if out > DIST_EPS * size:
        fails.append("the reconstructed cell sticks %.3g out of the box of the input" % out)
    vin = abs(float(U.exact_vol6(inp_pts, inp_faces) / 6))
    vout = abs(float(U.exact_vol6(pts, faces) / 6))
    meas["vol_rel_err"] = abs(vout - vin) / vin
    meas["r"] = r
    if r <= R_MEANINGFUL:
        if shrink > BOX_TOL(r) * size:
            fails.append("the box of the reconstructed cell is %.3g smaller than the box of the input on one side (limit %.3g at l_min/size = %.3g)" % (shrink, BOX_TOL(r) * size, r))
        if abs(vout - vin) > VOL_TOL(r) * vin:
            fails.append("the reconstructed cell encloses %.6g, the input %.6g: relative error %.3g exceeds %.3g at l_min/size = %.3g" % (vout, vin, abs(vout - vin) / vin, VOL_TOL(r), r))
    return fails


def poisson_oracle(points, l_min):
    if len(points) < 2:
        return None, None
    ex = U.min_pair_dist2_exact(points)
    if ex is None or ex[0] is None:
        return None, None
    d2, (i, j) = ex
    lim = Fr(l_min) * Fr(l_min) * (1 - Fr(1, 10 ** 14))
    if d2 < lim:
        return "two Poisson sample points are %.17g apart, less than the minimum edge length %.17g" % (math.sqrt(float(d2)), l_min), (i, j)
    return None, math.sqrt(float(d2)) / l_min


# ------------------------------------------------------------------------------------------ generator
def rot_matrix(r):
    q = [r.normal() for _ in range(4)]
    n = math.sqrt(sum(x * x for x in q))
    a, b, c, d = [x / n for x in q]
    return [[a * a + b * b - c * c - d * d, 2 * (b * c - a * d), 2 * (b * d + a * c)],
            [2 * (b * c + a * d), a * a - b * b + c * c - d * d, 2 * (c * d - a * b)],
            [2 * (b * d - a * c), 2 * (c * d + a * b), a * a - b * b - c * c + d * d]]


def gen_shape(r, kind=None):
    kinds = ["box", "box", "prism", "prism", "lshape", "ellipsoid", "ellipsoid", "octa", "boxtri", "prismtri"]
    kind = kind or r.choice(kinds)
    if kind in ("box", "boxtri"):
        v, f = U.box(1.0, r.uniform(0.6, 1.0), r.uniform(0.5, 1.0))
    elif kind in ("prism", "prismtri"):
        v, f = U.prism(r.randint(3, 8), r.uniform(0.7, 1.4), 0.7)
    elif kind == "lshape":
        v, f = U.lshape(1.0, r.uniform(0.4, 0.55), r.uniform(0.5, 0.9))
    elif kind == "ellipsoid":
        v, f = U.icosphere(r.choice([1, 1, 2]), (1.0, r.uniform(0.6, 1.0), r.uniform(0.5, 1.0)))
    else:
        v, f = U.octahedron()
    if kind.endswith("tri"):
        f = U.triangulate_fan0(f)
    f = [list(t) for t in f]
    return kind, v, f


def place(r, v):
    """random rotation, size 1e-6 .. 10, position up to a few sizes from the origin"""
    R = rot_matrix(r)
    s = 10.0 ** r.uniform(-6, 1)
    t = [r.uniform(-3, 3) * s for _ in range(3)]
    out = [[s * sum(R[i][k] * p[k] for k in range(3)) + t[i] for i in range(3)] for p in v]
    return out, s


def rewind(r, f):
    """any winding: each face reversed with probability 1/2 in mode 'random', all reversed in mode 'all'"""
    mode = r.choice(["keep", "random", "random", "all"])
    out, flips = [], 0
    for t in f:
        rev = (mode == "all") or (mode == "random" and r.randint(0, 1) == 1)
        if rev:
            flips += 1
            t = [t[0]] + list(reversed(t[1:]))
        k = r.randint(0, len(t) - 1)
        out.append(list(t[k:]) + list(t[:k]))
    return out, flips, mode


def extent(v, f):
    used = sorted(set(a for t in f for a in t))
    b = U.aabb(v, used)
    return max(b[k + 3] - b[k] for k in range(3))


def gen_cases(r, tier, widen):
    """-> list of dict(kind, pts, faces (polygonal), outward (same faces, outward), ratio, l_min, size, tri (0/1), ops)"""
    ratios_q = [0.5, 0.35, 0.25, 0.2, 0.15, 0.12, 0.1, 0.1, 0.08, 0.15, 0.2, 0.3, 0.06, 0.18, 0.13, 0.09, 0.05, 0.16, 0.11, 0.4]
    n = 20 if tier == "quick" else 250
    if widen:
        n = max(n, 30)
    cases = []
    for k in range(n):
        kind, v, f = gen_shape(r)
        pts, s = place(r, v)
        faces, flips, mode = rewind(r, f)
        if tier == "quick" and not widen:
            ratio = ratios_q[k % len(ratios_q)] * r.uniform(0.9, 1.1)
        else:
            ratio = math.exp(r.uniform(math.log(0.05), math.log(0.5)))
            if k % 30 == 7:
                ratio = 0.03
        size = extent(pts, faces)
        l_min = ratio * size
        tri_input = all(len(t) == 3 for t in faces)
        tri = 1
        if tri_input and r.randint(0, 2) == 0:
            tri = 0              # triangulation disabled: the input goes to the gate as it is
        cases.append({"kind": kind, "pts": pts, "faces": faces, "outward": f, "ratio": ratio, "l_min": l_min, "size": size,
                      "tri": tri, "winding_mode": mode, "flips": flips, "scale": s, "celltype": r.choice([0, 0, 1, 2, 3, 4])})
    # sharp-edged flat prisms AWAY from the origin: the shapes on which ball pivoting leaves several holes in one run, so that
    # fill_surface_holes is exercised more than once per reconstruction, at a place where an absolute position would show
    for k in range(40 if tier == "quick" and not widen else 120):
        v, f = U.prism(r.choice([3, 3, 4]), 1.5, 0.6)
        f = [list(t) for t in f]
        R = rot_matrix(r)
        sc = 10.0 ** r.uniform(-6, 1)
        off = [r.choice([-1, 1]) * r.uniform(4, 8) * sc for _ in range(3)]
        pts = [[sc * sum(R[i][q] * p[q] for q in range(3)) + off[i] for i in range(3)] for p in v]
        faces, flips, mode = rewind(r, f)
        size = extent(pts, faces)
        ratio = r.uniform(0.05, 0.07)
        cases.append({"kind": "prism-far", "pts": pts, "faces": faces, "outward": f, "ratio": ratio, "l_min": ratio * size, "size": size,
                      "tri": 1, "winding_mode": mode, "flips": flips, "scale": sc, "celltype": 0})
    return cases


def gate_corpus(r):
    """hand-made triangulated meshes for the gate: (name, pts, faces, expectation)
    expectation 'ok' = closed genus-0 surface, 'reject' = must not reach the solver"""
    out = []
    ov, of = U.octahedron()
    out.append(("octahedron", ov, of, "ok"))
    iv, if_ = U.icosphere(1)
    rev = [[t[0], t[2], t[1]] for t in if_]
    out.append(("icosphere-all-inward", iv, rev, "ok"))
    mixed = [([t[0], t[2], t[1]] if r.randint(0, 1) else list(t)) for t in if_]
    out.append(("icosphere-random-windings", [[x * 3e-6 + 1e-5 for x in p] for p in iv], mixed, "ok"))
    pv, pf = U.pillow()
    out.append(("pillow", pv, pf, "any"))
    # outside the soundness domain of the UNREPAIRED gate
    sv, sf = U.sphere_plus_torus()
    out.append(("sphere+torus", sv, sf, "reject"))
    sf2 = [list(t) for t in sf]
    for k in range(len(of), len(sf2)):
        if r.randint(0, 1):
            sf2[k] = [sf2[k][0], sf2[k][2], sf2[k][1]]
    out.append(("sphere+torus-mixed-windings", sv, sf2, "reject"))
    tv, tf = U.torus_plus_sphere()
    out.append(("torus+sphere", tv, tf, "reject"))
    wv, wf = U.two_spheres_two_shared_vertices()
    out.append(("two-spheres-sharing-two-vertices", wv, wf, "reject"))
    qv, qf = U.sphere_and_projective_plane_sharing_a_vertex()
    out.append(("sphere+projective-plane-sharing-a-vertex", qv, qf, "reject"))
    dv, df = U.degenerate_pair()
    out.append(("two-faces-repeating-a-node", dv, df, "reject"))
    ttv, ttf = U.torus()
    out.append(("torus", ttv, ttf, "reject"))
    bv, bf = U.box()
    bt = U.triangulate_fan0(bf)
    out.append(("cube-open", bv, bt[:-1], "reject"))
    out.append(("cube-duplicate-face", bv, bt + [bt[0]], "reject"))
    o2v, o2f = U.merge([(ov, of), (U.shift(ov, [5.0, 0, 0]), of)])
    out.append(("two-octahedra", o2v, o2f, "reject"))
    return out


# ------------------------------------------------------------------------------------------ the check
def run(ctx):
    tier, seed = ctx["tier"], ctx["seed"]
    t0 = time.time()
    V = vlib.Verdict(PID)
    gen = vlib.translate.run(GEN)
    for g in GEN:
        if "error" in gen.get(g, {}):
            V.fail_tie("proof", "translator (%s): %s" % (g, gen[g]["error"]))
    proof = vlib.prove(PID, THEOREMS, NAMESPACE, extra_targets=("drv_c13",))
    for f in proof["failures"]:
        V.fail_tie("proof", "%s: %s" % (f["theorem"], f["reason"]), errors=proof["errors"][:5])
    if tier == "thorough" and proof["ok"]:
        ok, log = vlib.leanchecker("SimuVerif.Properties.C13")
        if not ok:
            V.fail_tie("proof", "leanchecker rejected SimuVerif.Properties.C13", log=log)
    t_proof = time.time() - t0
    exe, rebuilt = vlib.build_repo.build_harness(HARNESS, "h_reconstruct", link_repo=True)
    drv = vlib.driver_path("drv_c13")
    have_model = os.path.exists(drv)
    if not have_model:
        V.fail_tie("correspondence", "model driver missing (lake build failed)")
    consts = source_constants()
    max_tries = consts["max_nb_tries"] or 10
    r = Rng(seed)
    widen = not proof["ok"]
    st = {"evaluations": 0, "lines": set(), "gate_compared": 0, "gate_bit_identical": 0, "gate_disagree": 0, "coarse_compared": 0,
          "coarse_identical": 0, "dart_compared": 0, "dart_identical": 0, "tries_compared": 0, "tries_agree": 0,
          "oracle_fail": 0, "accepted_cells": 0, "init_exceptions": 0, "recon_exceptions": 0, "poisson_clouds": 0,
          "poisson_points": 0, "faces_checked": 0}
    samples = []
    worst = {"vol_rel_err_over_limit": 0.0, "box_shrink_over_limit": 0.0, "dist_over_size": 0.0, "poisson_min_over_lmin": None}
    calib = []
    fails_reported = [0]

    def report(what, inp):
        st["oracle_fail"] += 1
        fails_reported[0] += 1
        if fails_reported[0] <= 6:
            V.fail_input(what, inp, key=None)

    def run_both(lines, timeout=1800):
        st["evaluations"] += len(lines)
        for l in lines:
            st["lines"].add(hash(l))
        a, rc, err = vlib.run_lines(exe, lines, timeout=timeout)
        if rc != 0 or len(a) != len(lines):
            bad = lines[len(a)] if len(a) < len(lines) else lines[0]
            V.fail_input("harness ended abnormally (rc=%s) after %d of %d answers: %s" % (rc, len(a), len(lines), err[-600:]),
                         {"line": bad[:200000], "op": bad.split(" ", 1)[0]}, key=None)
        return a

    def run_model(lines, timeout=1800):
        if not have_model:
            return None
        b, rc, err = vlib.run_lines(drv, lines, timeout=timeout)
        if rc != 0 or len(b) != len(lines):
            V.fail_tie("correspondence", "model driver ended abnormally (rc=%s) %s" % (rc, err[-300:]))
            return None
        return b

    def compare_gate(name, line, a, b):
        o, m = parse_gate(a), parse_gate(b)
        st["gate_compared"] += 1
        if o["status"] != m["status"]:
            st["gate_disagree"] += 1
            if st["gate_disagree"] <= 3:
                V.fail_tie("correspondence", "gate: model and implementation differ on %s: impl=%s model=%s" % (name, o["status"], m["status"]), line=line[:2000])
            return
        if o["status"] != "ok":
            st["gate_bit_identical"] += 1
            return
        if a == b:
            st["gate_bit_identical"] += 1
            return
        ok = o["faces"] == m["faces"] and vlib.close(o["area"], m["area"], 16, 0.0) and vlib.close(o["volume"], m["volume"], 64, 1e-13 * abs(o["volume"]))
        if not ok:
            st["gate_disagree"] += 1
            if st["gate_disagree"] <= 3:
                V.fail_tie("correspondence", "gate: model and implementation differ on %s (faces equal: %s, volume impl=%r model=%r)" % (
                    name, o["faces"] == m["faces"], o["volume"], m["volume"]), line=line[:2000])

    def check_cell(name, pts, faces, line, extra=None):
        """oracles of the property on a cell that was accepted"""
        st["accepted_cells"] += 1
        st["faces_checked"] += len(faces)
        fl = topo_oracle(faces)
        f2, vol = outward_oracle(pts, faces)
        fl += f2
        if fl:
            d = {"line": line[:200000], "case": name, "all_failures": fl[:6]}
            d.update(extra or {})
            report("a cell reaches the solver although " + fl[0], d)
        return not fl

    # ---------------------------------------------------------------- A. the gate on hand-made meshes (triangulation disabled path)
    corpus = gate_corpus(r.fork("corpus"))
    glines = [gate_line(v, f) for (_, v, f, _) in corpus]
    ga = run_both(glines)
    gb = run_model(glines)
    corpus_status = {}
    for i, (name, v, f, want) in enumerate(corpus):
        if i >= len(ga):
            break
        o = parse_gate(ga[i])
        corpus_status[name] = o["status"]
        if gb is not None:
            compare_gate(name, glines[i], ga[i], gb[i])
        if o["status"] == "ok":
            good = check_cell(name, v, o["faces"], glines[i], {"hand_made": True})
            if want == "reject" and good:
                report("the gate accepted the hand-made mesh %s, which is not a closed genus-0 surface" % name, {"line": glines[i], "case": name})
        elif want == "ok":
            report("the gate refused the closed genus-0 mesh %s: %s" % (name, o["status"]), {"line": glines[i], "case": name})

    # ---------------------------------------------------------------- B. coarse triangulation: model vs code
    cases = gen_cases(r.fork("cases"), tier, widen)
    clines = [poly_line("coarse", c["pts"], c["faces"]) for c in cases if not all(len(t) == 3 for t in c["faces"])]
    clines = clines[:40]
    if clines:
        ca = run_both(clines)
        cb = run_model(clines)
        for i in range(min(len(ca), len(clines))):
            st["coarse_compared"] += 1
            if cb is not None:
                if ca[i] == cb[i]:
                    st["coarse_identical"] += 1
                else:
                    pa, pb = parse_mesh(ca[i]), parse_mesh(cb[i])
                    same = pa is not None and pb is not None and pa[1] == pb[1] and len(pa[0]) == len(pb[0]) and all(
                        vlib.close(x, y, 4, 0.0) for p, q in zip(pa[0], pb[0]) for x, y in zip(p, q))
                    if same:
                        st["coarse_identical"] += 1
                    else:
                        V.fail_tie("correspondence", "coarse_triangulation: model and implementation differ", line=clines[i][:2000],
                                   impl=ca[i][:300], model=cb[i][:300])
            # the coarse mesh of a closed input must be closed (oracle of coarse_triangulation_closed on the real code)
            pm = parse_mesh(ca[i])
            if pm and not all(k == 2 for k in U.edge_face_counts(pm[1]).values()):
                report("coarse_triangulation of a closed polyhedron has an edge that is not shared by two triangles", {"line": clines[i]})

    # ---------------------------------------------------------------- C. reconstruction -> both gates; D. whole pipeline
    rlines, ilines = [], []
    for c in cases:
        pre = fhex(c["l_min"]) + " "
        c["recon_line"] = poly_line("recon", c["pts"], c["faces"], pre) if c["tri"] else None
        c["init_line"] = poly_line("init", c["pts"], c["faces"], "%d %s %d " % (c["tri"], fhex(c["l_min"]), c["celltype"]))
    rc_cases = [c for c in cases if c["recon_line"]]
    ra = run_both([c["recon_line"] for c in rc_cases])
    g2 = []
    for i, c in enumerate(rc_cases):
        if i >= len(ra):
            break
        pm = parse_mesh(ra[i])
        if pm is None:
            st["recon_exceptions"] += 1
            c["recon"] = ra[i]
            continue
        c["recon"] = "mesh %d nodes %d faces" % (len(pm[0]), len(pm[1]))
        if any(a >= len(pm[0]) for t in pm[1] for a in t):
            report("initial_triangulation returned a face that refers to a non-existent node", {"line": c["recon_line"][:200000]})
            continue
        g2.append((c, pm, gate_line(pm[0], pm[1])))
    if g2:
        g2a = run_both([x[2] for x in g2])
        g2b = run_model([x[2] for x in g2])
        for i, (c, pm, line) in enumerate(g2):
            if i >= len(g2a):
                break
            if g2b is not None:
                compare_gate("reconstruction of %s (l_min/size %.3g)" % (c["kind"], c["ratio"]), line, g2a[i], g2b[i])
            o = parse_gate(g2a[i])
            c["recon_gate"] = o["status"]
            if o["status"] == "ok":
                check_cell("reconstruction of %s" % c["kind"], pm[0], o["faces"], line, {"l_min_over_size": c["ratio"]})

    ia = run_both([c["init_line"] for c in cases], timeout=3000)
    tries_lines = []
    for i, c in enumerate(cases):
        if i >= len(ia):
            break
        o = parse_init(ia[i])
        c["init"] = o
        name = "%s (l_min/size %.3g, triangulation %s)" % (c["kind"], c["ratio"], "on" if c["tri"] else "off")
        if o["status"] == "ok":
            if o["tries"] >= max_tries:
                report("a cell was returned after %d failed attempts (max_nb_tries = %d)" % (o["tries"], max_tries), {"line": c["init_line"][:200000], "case": name})
            good = check_cell(name, o["pts"], o["faces"], c["init_line"], {"l_min_over_size": c["ratio"], "returned_faces": o["faces"][:2000] if len(o["faces"]) < 700 else None})
            tries_lines.append(("tries %d" % o["tries"], "ok %d" % (o["tries"] + 1), name))
            if good:
                meas = {}
                tri_in = [tuple(t) for t in U.triangulate_fan0(c["outward"])]
                if c["tri"]:
                    fl = approx_oracle(c["pts"], c["outward"], tri_in, o["pts"], o["faces"], c["l_min"], c["size"], meas)
                else:
                    fl = []
                    if sorted(tuple(sorted(t)) for t in o["faces"]) != sorted(tuple(sorted(t)) for t in c["faces"]):
                        fl.append("with the initial triangulation disabled the cell does not have the faces of the input")
                calib.append((c["kind"], round(c["ratio"], 3), meas.get("vol_rel_err"), meas.get("box_shrink_over_size"), meas.get("dist_over_size")))
                if "vol_rel_err" in meas and meas["r"] <= R_MEANINGFUL:
                    worst["vol_rel_err_over_limit"] = max(worst["vol_rel_err_over_limit"], meas["vol_rel_err"] / VOL_TOL(meas["r"]))
                    worst["box_shrink_over_limit"] = max(worst["box_shrink_over_limit"], meas["box_shrink_over_size"] / BOX_TOL(meas["r"]))
                if "dist_over_size" in meas:
                    worst["dist_over_size"] = max(worst["dist_over_size"], meas["dist_over_size"])
                if fl:
                    report(fl[0], {"line": c["init_line"][:200000], "case": name, "all_failures": fl[:5], "outward_faces": c["outward"],
                                   "l_min": c["l_min"], "size": c["size"], "triangulation": c["tri"]})
        elif o["status"] == "exc":
            st["init_exceptions"] += 1
            if o["cls"] != "intialization_exception":
                report("initialisation ended with %s instead of the initialisation exception" % o["cls"], {"line": c["init_line"][:200000], "case": name})
            elif o["tries"] != max_tries:
                report("the initialisation exception was thrown after %s failed attempts, max_nb_tries is %d" % (o["tries"], max_tries), {"line": c["init_line"][:200000], "case": name})
            tries_lines.append(("tries %d" % max_tries, "exc initialisation %d" % max_tries, name))
        else:
            report("unexpected answer of the initialisation: %s" % ia[i][:80], {"line": c["init_line"][:200000], "case": name})
        if i < 3:
            samples.append({"shape": c["kind"], "n_nodes": len(c["pts"]), "n_faces": len(c["faces"]), "l_min_over_size": c["ratio"],
                            "triangulation": c["tri"], "winding_mode": c["winding_mode"], "outcome": o["status"],
                            "failed_tries": o.get("tries"), "cell_faces": len(o.get("faces", [])), "volume": o.get("volume"),
                            "recon": c.get("recon"), "recon_gate": c.get("recon_gate")})

    # ---------------------------------------------------------------- E. inputs that can never be initialised: the bounded retries
    hope = []
    bv, bf = U.box()
    hope.append(("cube, l_min = 2 x size", poly_line("init", bv, bf, "1 %s 0 " % fhex(2.0))))
    hope.append(("cube, l_min = 5 x size", poly_line("init", bv, bf, "1 %s 2 " % fhex(5.0))))
    hope.append(("polygonal cube, triangulation disabled", poly_line("init", bv, bf, "0 %s 0 " % fhex(0.3))))
    iv, if_ = U.icosphere(1)
    hope.append(("invalid cell type id 7", poly_line("init", iv, if_, "0 %s 7 " % fhex(0.3))))
    for (nm, v, f, want) in corpus:
        if want == "reject":
            hope.append((nm + ", triangulation disabled", poly_line("init", v, [list(t) for t in f], "0 %s 0 " % fhex(0.3))))
    ha = run_both([l for (_, l) in hope], timeout=900)
    for i, (nm, line) in enumerate(hope):
        if i >= len(ha):
            break
        o = parse_init(ha[i])
        if o["status"] == "ok":
            good = check_cell(nm, o["pts"], o["faces"], line, {"hand_made": True})
            if good:
                report("initialisation returned a cell for an input that cannot be initialised: %s" % nm, {"line": line[:200000], "case": nm})
        elif o["status"] == "exc":
            st["init_exceptions"] += 1
            if o["cls"] != "intialization_exception" or o["tries"] != max_tries:
                report("%s: ended with %s after %s failed attempts (expected the initialisation exception after %d)" % (nm, o["cls"], o["tries"], max_tries),
                       {"line": line[:200000], "case": nm})
            tries_lines.append(("tries %d" % max_tries, "exc initialisation %d" % max_tries, nm))
        else:
            report("unexpected answer of the initialisation: %s" % ha[i][:80], {"line": line[:200000], "case": nm})
    # the model loop against what the real loop did
    if tries_lines and have_model:
        tl = sorted(set(t[0] for t in tries_lines)) + ["tries 0", "tries %d" % (max_tries - 1), "tries %d" % (max_tries + 5)]
        tb = run_model(tl)
        if tb is not None:
            ans = dict(zip(tl, tb))
            for (q, want, nm) in tries_lines:
                st["tries_compared"] += 1
                if ans.get(q) == want:
                    st["tries_agree"] += 1
                else:
                    V.fail_tie("correspondence", "retry loop: the real loop behaved as '%s' on %s, the model says '%s'" % (want, nm, ans.get(q)))

    # ---------------------------------------------------------------- F. Poisson sampling: exact spacing; dart throwing model vs code
    pc = sorted([c for c in cases if c["tri"]], key=lambda c: -c["ratio"])
    npc = 6 if tier == "quick" else 40
    if len(pc) > npc:          # spread over the whole range of l_min / size
        pc = [pc[(k * (len(pc) - 1)) // (npc - 1)] for k in range(npc)]
    pa = run_both([poly_line("cloud", c["pts"], c["faces"], fhex(c["l_min"]) + " ") for c in pc])
    for i, c in enumerate(pc):
        if i >= len(pa):
            break
        pp = parse_pts(pa[i])
        if pp is None:
            continue
        n_uni, points, _ = pp
        st["poisson_clouds"] += 1
        st["poisson_points"] += len(points)
        msg, info = poisson_oracle(points, c["l_min"])
        if msg:
            i1, i2 = info
            report(msg, {"line": poly_line("cloud", c["pts"], c["faces"], fhex(c["l_min"]) + " ")[:200000], "l_min": c["l_min"],
                         "pair": [points[i1], points[i2]], "n_uniform": n_uni, "n_poisson": len(points)})
        elif info is not None:
            worst["poisson_min_over_lmin"] = info if worst["poisson_min_over_lmin"] is None else min(worst["poisson_min_over_lmin"], info)
    dc = [c for c in pc if c["ratio"] >= 0.2][: (2 if tier == "quick" else 6)]
    if dc:
        ua = run_both([poly_line("uniform", c["pts"], c["faces"], fhex(c["l_min"]) + " ") for c in dc])
        dl = []
        for i, c in enumerate(dc):
            if i >= len(ua):
                break
            pp = parse_pts(ua[i])
            if pp is None:
                continue
            # the box the real code uses is that of the coarse mesh (= the box of the input corners)
            used = sorted(set(a for t in c["faces"] for a in t))
            bb = U.aabb(c["pts"], used)
            dl.append("dart %s %s %s %d %s" % (fhex(c["l_min"]), fhex(c["l_min"]), " ".join(fhex(x) for x in bb), pp[0], " ".join(pp[2])))
        # synthetic clouds: random points in a box, several voxel / l_min combinations (voxel >= l_min and voxel < l_min)
        rs = r.fork("dart")
        for k in range(3 if tier == "quick" else 12):
            n = rs.randint(50, 400)
            pts = [[rs.uniform(0, 1), rs.uniform(0, 1), rs.uniform(0, 1) * 0.5] for _ in range(n)]
            l = rs.uniform(0.08, 0.3)
            vox = l * rs.choice([1.0, 1.0, 1.5, 0.6])
            dl.append("dart %s %s %s %d %s" % (fhex(l), fhex(vox), " ".join(fhex(x) for x in [0, 0, 0, 1, 1, 0.5]), n, hexs(pts)))
        da = run_both(dl)
        db = run_model(dl)
        for i in range(min(len(da), len(dl))):
            st["dart_compared"] += 1
            if db is not None:
                if da[i] == db[i]:
                    st["dart_identical"] += 1
                else:
                    V.fail_tie("correspondence", "dart throwing: model and implementation accept different points", line=dl[i][:1500],
                               impl=da[i][:200], model=db[i][:200])
            w = dl[i].split()
            l, vox = unhex(w[1]), unhex(w[2])
            pp = parse_pts(da[i])
            if pp and vox >= l:
                msg, info = poisson_oracle(pp[1], l)
                if msg:
                    report(msg, {"line": dl[i][:200000], "l_min": l})

    rcode, nviol = V.finish()
    cov = {
        "obligations": proof["obligations"], "discharged": proof["discharged"],
        "checker_cmd": "lake build SimuVerif.Properties.C13 SimuVerif.Audit.C13 drv_c13 (+ lake env leanchecker in the thorough tier)",
        "trusted_base": vlib.TRUSTED_COMMON + [
            "ball pivoting, hole filling and the clock-seeded uniform sampling are NOT modelled: in init_sound the reconstruction is an arbitrary function of the attempt number",
            "node ids of the mesh handed to the gate are in range (hypothesis InRange; mesh_reader enforces it for files, ball pivoting numbers its own points)",
            "C20's grid model and theorems (neighbourhood_complete4_euclid, content_exactly_once4) and C12's flood-fill model and sign-flip theorem are imported",
            "std::set<edge> is modelled as a list of records keyed by the pair of node ids (exact for ids < 2^26)",
        ],
        "theorems": {k: v for k, v in proof["axioms"].items()},
        "proof_failures": proof["failures"], "translator": gen,
        "evaluations": st["evaluations"], "distinct_nontrivial": len(st["lines"]),
        "rule": "closed polyhedra: boxes, n-gon prisms (3..8), L-shaped prisms, ellipsoidal icospheres, octahedra; polygonal or fan-triangulated; random rotation, "
                "size 1e-6..10, offset up to 3 sizes, every face reversed with probability 1/2 (or all reversed) and rotated; l_min/size in [0.03, 0.5]; initial triangulation "
                "on / off (off only for triangulated inputs); cell types 0..4; + 14 hand-made meshes for the gate (4 must pass, 10 must not) + 4 inputs that can never be "
                "initialised + synthetic dart clouds; distinct = distinct request lines over all operations (gate, coarse, recon, init, cloud, uniform, dart)",
        "cases": len(cases), "shapes": {k: sum(1 for c in cases if c["kind"] == k) for k in sorted(set(c["kind"] for c in cases))},
        "triangulation_on": sum(1 for c in cases if c["tri"]), "triangulation_off": sum(1 for c in cases if not c["tri"]),
        "ratios": sorted(round(c["ratio"], 3) for c in cases)[:200],
        "winding_modes": {k: sum(1 for c in cases if c["winding_mode"] == k) for k in ("keep", "random", "all")},
        "init_outcomes": {"cell": sum(1 for c in cases if c.get("init", {}).get("status") == "ok"),
                          "initialisation_exception": sum(1 for c in cases if c.get("init", {}).get("status") == "exc")},
        "failed_tries_before_success": sorted(c["init"]["tries"] for c in cases if c.get("init", {}).get("status") == "ok"),
        "gate_corpus": corpus_status, "max_nb_tries": max_tries,
        "counts": st and {k: v for k, v in st.items() if k != "lines"},
        "worst": worst, "calibration": calib[:60],
        "tolerances": {"node_to_surface": "%g x l_min + %g x size" % (DIST_FACTOR, DIST_EPS), "volume": "12 r^2 + 0.015 (relative), r = l_min/size <= %g" % R_MEANINGFUL,
                       "box": "1.8 r x size per side, never outside the input box", "poisson": "exact d^2 >= l_min^2 (1 - 1e-14)"},
        "repo_objects_rebuilt": rebuilt, "samples": samples, "proof_wall_s": round(t_proof, 1),
    }
    vlib.write_evidence(PID, tier, "proof", cov, [
        "exact arithmetic in the theorems; the sign of the volume and the squared-distance test are evaluated in doubles by the code",
        "the input of the generator is a closed polyhedron with planar faces; sizes 1e-6..10, offsets <= 3 sizes",
        "the approximation oracle is run-time only and resolution dependent (see tolerances); for l_min/size > 0.2 only containment in the input box and the node-to-surface distance are checked",
        "random outcomes differ from run to run (clock seed): gate, coarse, dart and retry comparisons are independent of them; a replay of an init / cloud line re-draws",
    ], time.time() - t0, nviol)
    return rcode


# ------------------------------------------------------------------------------------------ replay
def replay(ctx):
    rp = ctx["replay"]
    fi = rp.get("failing_input", {}).get("input", {})
    line = fi.get("line")
    if not line:
        print("replay file names no input: %s" % json.dumps(rp.get("no_longer_checks", rp))[:2000])
        return 1
    exe, _ = vlib.build_repo.build_harness(HARNESS, "h_reconstruct")
    out, rc, err = vlib.run_lines(exe, [line], timeout=900)
    op = line.split(" ", 1)[0]
    print("operation: %s   case: %s" % (op, fi.get("case")))
    fails = []
    if rc != 0 or not out:
        fails.append("harness ended abnormally rc=%s %s" % (rc, err[-500:]))
    elif op == "gate":
        o = parse_gate(out[0])
        print("gate: %s" % o["status"])
        if o["status"] == "ok":
            w = line.split()
            nn = int(w[1])
            xs = [unhex(z) for z in w[3:3 + 3 * nn]]
            pts = [xs[3 * i:3 * i + 3] for i in range(nn)]
            fails += topo_oracle(o["faces"]) + outward_oracle(pts, o["faces"])[0]
            if not fails and fi.get("hand_made"):
                print("accepted, and the accepted faces form a closed outward surface")
    elif op == "init":
        o = parse_init(out[0])
        print("initialisation: %s %s failed tries=%s" % (o["status"], o.get("cls", ""), o.get("tries")))
        mt = source_constants()["max_nb_tries"] or 10
        if o["status"] == "ok":
            fails += topo_oracle(o["faces"]) + outward_oracle(o["pts"], o["faces"])[0]
            if not fails and fi.get("outward_faces") and fi.get("triangulation"):
                w = line.split()
                nn = int(w[4])
                xs = [unhex(z) for z in w[6:6 + 3 * nn]]
                ipts = [xs[3 * i:3 * i + 3] for i in range(nn)]
                meas = {}
                tri_in = [tuple(t) for t in U.triangulate_fan0(fi["outward_faces"])]
                fails += approx_oracle(ipts, fi["outward_faces"], tri_in, o["pts"], o["faces"], fi["l_min"], fi["size"], meas)
                print("against the input: relative volume error %.3g, box shrink / size %.3g, node distance / size %.3g (l_min / size %.3g)" % (
                    meas.get("vol_rel_err", float("nan")), meas.get("box_shrink_over_size", float("nan")), meas.get("dist_over_size", float("nan")), meas.get("r", float("nan"))))
            if o["tries"] >= mt:
                fails.append("cell returned after %d failed attempts" % o["tries"])
            if not fails and fi.get("hand_made"):
                fails.append("a cell was returned for an input that cannot be initialised")
        elif o["status"] == "exc":
            if o["cls"] != "intialization_exception" or o["tries"] != mt:
                fails.append("ended with %s after %s failed attempts" % (o["cls"], o["tries"]))
        else:
            fails.append("unexpected answer %s" % out[0][:80])
    elif op in ("cloud", "dart"):
        pp = parse_pts(out[0])
        l = fi.get("l_min") or unhex(line.split()[1])
        if pp:
            msg, info = poisson_oracle(pp[1], l)
            print("%d points, minimum distance / l_min = %s" % (len(pp[1]), info if not msg else "violated"))
            if msg:
                fails.append(msg)
    elif op == "coarse":
        pm = parse_mesh(out[0])
        if pm and not all(k == 2 for k in U.edge_face_counts(pm[1]).values()):
            fails.append("coarse triangulation is not closed")
    elif op == "recon":
        print("reconstruction: %s" % out[0][:80])
    if fails:
        print("VIOLATION property=C13 replay=%s" % ctx.get("replay_path", "-"))
        for m in fails[:6]:
            print(m)
        return 1
    print("property holds on this input now")
    return 0
