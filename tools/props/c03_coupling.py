"""C03 (addition) — the tail of contact_node_node_via_coupling::resolve_all_contacts: symmetrisation + midpoints.

This is where the hypothesis `Mutual topo` of C03's pair theorems is established in the default build
(CONTACT_MODEL_INDEX 1): after the parallel contact search two SEQUENTIAL in-place loops run over all cells / nodes,
(A) removing every one-sided coupling and (B) moving the two nodes of every pair to their midpoint.

Model   : lean/SimuVerif/Model/CouplingPass.lean (`Simu.Coupling.pass`, statement by statement, in-place folds).
Theorems: lean/SimuVerif/Properties/C03Coupling.lean (+ Lemmas/CouplingPass.lean), names in THEOREMS_COUPLING.
Tie     : correspondence — harness/h_couplingpass.cpp calls the REAL resolve_all_contacts on a prescribed table (its
          parallel search gated off by the curvature threshold, mode g, or running on far-apart cells, mode s);
          lean/Driver/C03.lean (command `pass`) replays the same lines with the Float instance of the model;
          couplings and used flags are compared exactly, positions within 0 ulp.
Oracle  : independent POINTWISE restatement on the implementation's answer: every remaining coupling of a used node is
          mutual; a used node keeps its coupling iff its partner named it back in the ORIGINAL table; both members of a
          pair (different cells) sit at one and the same point, the exact midpoint (fractions.Fraction) within 1 ulp;
          everything else is bitwise unchanged.

Entry point for tools/props/c03.py:  coupling_pass_stage(V, tier, seed, stats)   (+ replay(ctx) for its replay files).
"""
import os, math
from fractions import Fraction as Fr
import vlib
from vlib import Rng, fhex, unhex

THEOREMS_COUPLING = [
    "symmetrise_defined_iff", "symmetrise_spec", "symmetrise_mutual", "symmetrise_keeps_mutual",
    "symmetrise_idempotent", "symmetrise_frame",
    "midpoints_spec", "midpoints_pair", "midpoints_other", "midpoints_keeps_table",
    "pairOK_of_symmetrise", "pass_defined", "pair_coincide", "pass_table",
    "mutual_of_pass", "pairTopo_of_pass",
]
STAGE = "coupling-pass"


# ---------------------------------------------------------------- generator
def _pos_g(r, sc, off):
    v = [off[i] + r.normal() * sc for i in range(3)]
    return [x if x != 0.0 else 0.0 for x in v]         # never -0.0 (node(x,y,z,id) would lose the sign)


def gen_table(r):
    """a population: list of cells, each a list of nodes {used, coup: None|(c,n), pos}.
    cls 'S' (about 3/4): what the contact search can hand to the two loops — couplings of used nodes name used slots of
    OTHER cells, unused slots carry none; not necessarily symmetric (chains a->b<->c, stale, cycles).
    cls 'X': also same-cell couplings, self couplings, couplings to / of unused slots (always in range)."""
    mode = "s" if r.uniform() < 0.25 else "g"
    cls = "S" if r.uniform() < 0.75 else "X"
    ncells = r.randint(2, 5) if mode == "s" else r.choice([1, 2, 2, 3, 3, 4, 5, 6])
    cells = []
    for ci in range(ncells):
        nn = r.randint(4, 7) if mode == "s" else r.randint(1, 7)
        used = [r.uniform() < 0.85 for _ in range(nn)]
        if not any(used):
            used[r.randint(0, nn - 1)] = True
        nodes = []
        if mode == "s":
            # closed surfaces whose every slot belongs to a face (h_couplingpass builds the faces): a tetrahedron for
            # 4 slots, else a bipyramid with apexes 0, 1 and the ring 2..nn-1; centres 12 apart, radius about 1
            ctr = [12.0 * ci, 0.0, 0.0]
            if nn == 4:
                base = [(0.8, 0.8, 0.8), (0.8, -0.8, -0.8), (-0.8, 0.8, -0.8), (-0.8, -0.8, 0.8)]
            else:
                m = nn - 2
                base = [(0.0, 0.0, 1.0), (0.0, 0.0, -1.0)] + [
                    (0.9 * math.cos(2 * math.pi * q / m), 0.9 * math.sin(2 * math.pi * q / m), 0.0) for q in range(m)]
            P = [[ctr[i] + b[i] + r.uniform(-0.1, 0.1) for i in range(3)] for b in base]
        else:
            sc = 10.0 ** r.uniform(-3, 2)
            off = [r.choice([0.0, 0.0, 1.0, 100.0]) * sc * r.choice([1.0, -1.0]) for _ in range(3)]
            P = [_pos_g(r, sc, off) for _ in range(nn)]
        for ni in range(nn):
            nodes.append({"used": used[ni], "coup": None, "pos": [float(x) for x in P[ni]]})
        cells.append(nodes)
    slots = [(ci, ni) for ci, c in enumerate(cells) for ni in range(len(c))]
    uslots = [s for s in slots if cells[s[0]][s[1]]["used"]]
    shape = {"mutual": 0, "one_sided": 0, "chain": 0, "cycle": 0, "same_cell": 0, "self": 0, "stale_unused": 0, "to_unused": 0}

    def nd(s):
        return cells[s[0]][s[1]]

    def pick_other(s, pool):
        cand = [t for t in pool if t[0] != s[0]]
        return r.choice(cand) if cand else None
    nops = r.choice([0, 1, 2, 3, 4, 6, 9])
    for _ in range(nops):
        if not uslots:
            break
        op = r.choice(["mutual", "mutual", "mutual", "one", "chain", "chain", "cycle", "x"] + (["x", "x", "x"] if cls == "X" else []))
        a = r.choice(uslots)
        if op == "mutual":
            b = pick_other(a, uslots)
            if b and nd(a)["coup"] is None and nd(b)["coup"] is None:
                nd(a)["coup"] = b; nd(b)["coup"] = a; shape["mutual"] += 1
        elif op == "one":
            # a names b, b names nobody (or whatever it names already)
            b = pick_other(a, uslots)
            if b and nd(a)["coup"] is None:
                nd(a)["coup"] = b; shape["one_sided"] += 1
        elif op == "chain":
            # what the search leaves when b finds a closer partner c: a -> b <-> c  (possibly overwriting older entries)
            b = pick_other(a, uslots)
            c = pick_other(b, uslots) if b else None
            if b and c and c != a:
                nd(a)["coup"] = b; nd(b)["coup"] = c; nd(c)["coup"] = b; shape["chain"] += 1
        elif op == "cycle":
            b = pick_other(a, uslots)
            c = pick_other(b, uslots) if b else None
            if b and c and c != a and c[0] != a[0]:
                nd(a)["coup"] = b; nd(b)["coup"] = c; nd(c)["coup"] = a; shape["cycle"] += 1
        elif cls == "X":
            kind = r.choice(["same", "same_mutual", "self", "stale", "to_unused", "unused_pair"])
            same = [t for t in slots if t[0] == a[0] and t != a]
            unused = [t for t in slots if not nd(t)["used"]]
            if kind in ("same", "same_mutual") and same:
                b = r.choice(same)
                nd(a)["coup"] = b
                if kind == "same_mutual":
                    nd(b)["coup"] = a
                shape["same_cell"] += 1
            elif kind == "self":
                nd(a)["coup"] = a; shape["self"] += 1
            elif kind == "stale" and unused:
                nd(r.choice(unused))["coup"] = r.choice(slots); shape["stale_unused"] += 1
            elif kind == "to_unused" and unused:
                nd(a)["coup"] = r.choice(unused); shape["to_unused"] += 1
            elif kind == "unused_pair" and unused:
                u = r.choice(unused)
                nd(a)["coup"] = u; nd(u)["coup"] = a; shape["to_unused"] += 1; shape["stale_unused"] += 1
    return {"mode": mode, "cls": cls, "cells": cells, "shape": shape}


def search_ok(cells):
    """the tables the contact search can produce (Lean: SearchOK + NoStale)"""
    for ci, c in enumerate(cells):
        for ni, n in enumerate(c):
            if n["coup"] is None:
                continue
            if not n["used"]:
                return False
            j = n["coup"]
            if j[0] == ci or not cells[j[0]][j[1]]["used"]:
                return False
    return True


def cstr(cp):
    return "-" if cp is None else "%d:%d" % (cp[0], cp[1])


def line_of(case):
    w = ["pass", case["mode"], str(len(case["cells"]))]
    for c in case["cells"]:
        w.append(str(len(c)))
        for n in c:
            w += ["1" if n["used"] else "0", cstr(n["coup"])] + [fhex(x) for x in n["pos"]]
    return " ".join(w)


def case_of_line(line):
    w = line.split()
    k = 3
    cells = []
    for _ in range(int(w[2])):
        nn = int(w[k]); k += 1
        c = []
        for _ in range(nn):
            cp = None if w[k + 1] == "-" else tuple(int(x) for x in w[k + 1].split(":"))
            c.append({"used": w[k] != "0", "coup": cp, "pos": [unhex(x) for x in w[k + 2:k + 5]]})
            k += 5
        cells.append(c)
    return {"mode": w[1], "cls": "S" if search_ok(cells) else "X", "cells": cells, "shape": {}}


def parse_out(ans, case):
    """-> {slot: (used, coup, pos)} or None"""
    w = ans.split()
    nslots = sum(len(c) for c in case["cells"])
    if not w or w[0] != "ok" or len(w) != 1 + 5 * nslots:
        return None
    out = {}
    k = 1
    try:
        for ci, c in enumerate(case["cells"]):
            for ni in range(len(c)):
                cp = None if w[k + 1] == "-" else tuple(int(x) for x in w[k + 1].split(":"))
                out[(ci, ni)] = (w[k] != "0", cp, [unhex(x) for x in w[k + 2:k + 5]])
                k += 5
    except ValueError:
        return None
    return out


# ---------------------------------------------------------------- independent oracle (pointwise, from the original table)
def same_bits(a, b):
    return all(fhex(x) == fhex(y) for x, y in zip(a, b))


def oracle(case, out):
    """-> list of (kind, detail)"""
    cells = case["cells"]
    fails = []

    def inn(s):
        return cells[s[0]][s[1]]
    ok_table = search_ok(cells)
    paired = {}
    for s, (u, cp, pos) in sorted(out.items()):
        n = inn(s)
        if u != n["used"]:
            fails.append(("frame", "slot %s: used flag changed" % (s,)))
        # (1) every remaining coupling of a used node is answered
        if u and cp is not None:
            back = out.get(cp)
            if back is None or back[1] != s:
                fails.append(("one-sided", "after the pass node %s is still coupled to %s, which names %s" % (
                    s, cp, "nobody" if back is None or back[1] is None else back[1])))
            else:
                paired[s] = cp
        # (2) the coupling left = the original one iff (unused, or the original partner named the node back)
        want = n["coup"]
        if n["used"] and want is not None:
            pb = inn(want)["coup"]
            if pb is None or tuple(pb) != s:
                want = None
        if cp != want:
            fails.append(("coupling", "slot %s: coupling after the pass %s, pointwise rule from the original table gives %s" % (
                s, cstr(cp), cstr(want))))
    if not ok_table:
        return fails          # positions of tables the search cannot produce: compared with the model only
    # (3) positions: both members of a pair at the same point = exact midpoint within 1 ulp; the rest untouched
    for s, (u, cp, pos) in sorted(out.items()):
        n = inn(s)
        if s in paired:
            j = paired[s]
            pj = out[j][2]
            if not all(a == b for a, b in zip(pos, pj)):
                fails.append(("pair-apart", "pair %s / %s does not coincide after the pass: %r vs %r" % (s, j, pos, pj)))
            for i in range(3):
                exact = (Fr(n["pos"][i]) + Fr(inn(j)["pos"][i])) / 2
                if abs(Fr(pos[i]) - exact) > Fr(vlib.ulp(pos[i])):
                    fails.append(("midpoint", "node %s of pair %s / %s: coordinate %d is %r, the midpoint of the input positions is %r" % (
                        s, s, j, i, pos[i], float(exact))))
                    break
        elif not same_bits(pos, n["pos"]):
            fails.append(("moved", "slot %s belongs to no pair after the pass but was moved: %r -> %r" % (s, n["pos"], pos)))
    return fails


WHAT = {
    "one-sided": "the contact phase leaves a one-sided coupling behind (a names b, b names another node or none): the position "
                 "update then moves a twice or not at all",
    "coupling": "the coupling table after the contact phase is not the pointwise symmetrisation of the table the search produced",
    "pair-apart": "the two nodes of a coupled pair do not coincide after the contact phase",
    "midpoint": "a coupled pair was not moved to the midpoint of its two nodes",
    "moved": "a node that belongs to no pair was moved by the contact phase",
    "frame": "the contact phase changed a used flag",
}


# ---------------------------------------------------------------- corpus
def _mk(mode, cells):
    return {"mode": mode, "cls": "?", "shape": {},
            "cells": [[{"used": u, "coup": cp, "pos": [float(x) for x in p]} for (u, cp, p) in c] for c in cells]}


def corpus():
    out = []
    # the table of the Lean example: chain a=(0,1) -> b=(1,0) <-> c=(0,0), mutual pair (1,1) <-> (2,0), an unused, an uncoupled slot
    out.append(_mk("g", [
        [(True, (1, 0), (0, 0, 0)), (True, (1, 0), (1, 0, 0)), (False, None, (9, 9, 9))],
        [(True, (0, 0), (0, 0, 1)), (True, (2, 0), (2, 0, 0)), (True, None, (3, 0, 0))],
        [(True, (1, 1), (2, 2, 0))]]))
    # the chain in the other visiting order: the stale node is visited AFTER the pair (1,0) -> (0,0) <-> (2,0)
    out.append(_mk("g", [
        [(True, (2, 0), (0.5, 0, 0))],
        [(True, (0, 0), (1, 0.25, 0))],
        [(True, (0, 0), (0, 0, 4))]]))
    # a 3-cycle: everything is removed, nothing moves
    out.append(_mk("g", [[(True, (1, 0), (1, 2, 3))], [(True, (2, 0), (4, 5, 6))], [(True, (0, 0), (7, 8, 9))]]))
    # search-on mode: two tetrahedra 12 apart, one mutual pair and one stale entry
    out.append(_mk("s", [
        [(True, (1, 0), (0.8, 0.8, 0.8)), (True, (1, 0), (0.8, -0.8, -0.8)), (True, None, (-0.8, 0.8, -0.8)), (True, None, (-0.8, -0.8, 0.8))],
        [(True, (0, 0), (12.8, 0.8, 0.8)), (True, None, (12.8, -0.8, -0.8)), (False, None, (11.2, 0.8, -0.8)), (True, None, (11.2, -0.8, 0.8))]]))
    for c in out:
        c["cls"] = "S" if search_ok(c["cells"]) else "X"
    return out


# ---------------------------------------------------------------- stage
def harness():
    return vlib.build_repo.build_harness(os.path.join(vlib.VERIF, "harness", "h_couplingpass.cpp"), "h_couplingpass")


def answers_equal(o, m):
    """couplings / flags exactly, positions within 0 ulp"""
    for s in o:
        if o[s][0] != m[s][0] or o[s][1] != m[s][1]:
            return "slot %s: implementation (used %s, coupling %s) model (used %s, coupling %s)" % (
                s, o[s][0], cstr(o[s][1]), m[s][0], cstr(m[s][1]))
        for a, b in zip(o[s][2], m[s][2]):
            if not (a == b or (math.isnan(a) and math.isnan(b))):
                return "slot %s: position implementation %r model %r" % (s, o[s][2], m[s][2])
    return None


def coupling_pass_stage(V, tier, seed, stats, only=None):
    """runs the correspondence + oracle of the coupling pass; reports through V; fills stats['coupling_pass']"""
    st = stats.setdefault("coupling_pass", {
        "cases": 0, "modes": {"g": 0, "s": 0}, "classes": {"S": 0, "X": 0}, "slots": 0,
        "shapes": {}, "couplings_in": 0, "couplings_removed": 0, "pairs_moved": 0,
        "bit_identical": 0, "disagreements": 0, "oracle_failures": 0, "void": 0, "distinct": 0, "samples": []})
    try:
        exe, _ = harness()
    except RuntimeError as e:
        V.fail_tie("correspondence", "coupling-pass harness does not build: %s" % str(e)[-400:])
        return
    drv = vlib.driver_path("drv_c03")
    if only is not None:
        cases = only
    else:
        n = 150 if tier == "quick" else 3000
        r = Rng(seed).fork("c03/coupling-pass")
        cases = corpus() + [gen_table(r) for _ in range(n)]
    lines = [line_of(c) for c in cases]
    st["distinct"] += len(set(lines))
    impl, rc, err = vlib.run_lines(exe, lines)
    if rc != 0 or len(impl) != len(lines):
        V.fail_input("coupling-pass harness ended abnormally (rc=%s): %s" % (rc, err[-600:]),
                     {"stage": STAGE, "line": lines[min(len(impl), len(lines) - 1)]})
    model = None
    if os.path.exists(drv):
        model, rc2, err2 = vlib.run_lines(drv, lines)
        if rc2 != 0 or len(model) != len(lines):
            V.fail_tie("correspondence", "model driver ended abnormally on the coupling pass (rc=%s) %s" % (rc2, err2[-300:]))
            model = None
    else:
        V.fail_tie("correspondence", "model driver missing (lake build failed)")
    reported = set()
    for i, c in enumerate(cases):
        if i >= len(impl):
            break
        if impl[i].strip() == "search-interfered":
            st["void"] += 1
            V.fail_tie("correspondence", "coupling-pass harness: the contact search interfered with a prescribed table", line=lines[i])
            continue
        o = parse_out(impl[i], c)
        if o is None:
            V.fail_input("coupling pass: unusable harness answer %r" % impl[i][:80], {"stage": STAGE, "line": lines[i]})
            continue
        st["cases"] += 1; st["modes"][c["mode"]] += 1; st["classes"]["S" if search_ok(c["cells"]) else "X"] += 1
        st["slots"] += len(o)
        for k, v in c.get("shape", {}).items():
            st["shapes"][k] = st["shapes"].get(k, 0) + v
        for s, (u, cp, pos) in o.items():
            n = c["cells"][s[0]][s[1]]
            if n["coup"] is not None:
                st["couplings_in"] += 1
                if cp is None:
                    st["couplings_removed"] += 1
            if cp is not None and u and not same_bits(pos, n["pos"]):
                st["pairs_moved"] += 1
        if len(st["samples"]) < 3:
            st["samples"].append({"line": lines[i][:300], "answer": impl[i][:300]})
        fails = oracle(c, o)
        if fails:
            st["oracle_failures"] += 1
            for kind, d in fails:
                if kind in reported:
                    continue
                reported.add(kind)        # one replay per kind of failure: the first case
                V.fail_input("contact phase (node-node coupling): " + WHAT[kind],
                             {"stage": STAGE, "line": lines[i], "kind": kind, "detail": d,
                              "table": [[[n["used"], cstr(n["coup"])] for n in cell] for cell in c["cells"]]})
        if model is not None:
            mo = parse_out(model[i], c)
            if mo is None:
                st["disagreements"] += 1
                if st["disagreements"] <= 2:
                    V.fail_tie("correspondence", "coupling pass: the model answers %r where the implementation answered" % model[i][:40], line=lines[i])
                continue
            d = answers_equal(o, mo)
            if d is None:
                st["bit_identical"] += 1
            else:
                st["disagreements"] += 1
                if st["disagreements"] <= 2:
                    V.fail_tie("correspondence", "coupling pass: model and implementation differ: %s" % d, line=lines[i])


def replay(ctx):
    """replay of a failing input recorded by coupling_pass_stage (failing_input.input.stage == 'coupling-pass')"""
    fi = ctx["replay"].get("failing_input", {}).get("input", {})
    line = fi.get("line")
    if not line:
        print("replay file names no input")
        return 1
    case = case_of_line(line)
    exe, _ = harness()
    out, rc, err = vlib.run_lines(exe, [line])
    o = parse_out(out[0], case) if out else None
    print("coupling pass on a table of %d cell(s): %s" % (len(case["cells"]),
          " | ".join(" ".join(cstr(n["coup"]) + ("" if n["used"] else "(unused)") for n in c) for c in case["cells"])))
    if o is None:
        print("no usable answer (rc=%s): %s %s" % (rc, out[:1], err[-300:]))
        print("VIOLATION property=C03 replay=%s" % ctx.get("replay_path", "-"))
        return 1
    fails = oracle(case, o)
    for k, d in fails[:6]:
        print("%s: %s" % (k, d))
    if fails:
        print("VIOLATION property=C03 replay=%s" % ctx.get("replay_path", "-"))
        return 1
    print("property holds on this input now")
    return 0


def prove_coupling():
    """axiom audit of THEOREMS_COUPLING.  The theorems live in SimuVerif.Properties.C03Coupling (which imports
    SimuVerif.Properties.C03 for `Mutual` / `pairTopo_of_mutual`), so they are audited through their own module:
    builds SimuVerif.Properties.C03Coupling + the generated SimuVerif.Audit.C03Coupling; same result dict as vlib.prove"""
    return vlib.prove("C03Coupling", THEOREMS_COUPLING, "Simu.C03")
