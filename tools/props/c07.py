"""C07 — contact forces are reciprocal, short-ranged and push overlapping cells apart.

Model: Gen/ContactRule.lean (the per-pair rule of the three contact models, the tests in front of it, the reversal tests, the
constructor arithmetic — regenerated from the C++ on every run by tools/gen/c07_contact.py).  Theorems: Properties/C07.lean.
Correspondence: the real apply_contact_forces / resolve_contact called on single (node, face) pairs of two real cells of every
type combination vs the Float instance of the generated rule.  Oracle on the implementation (exact fractions.Fraction kernel):
reciprocity, range, side / direction, distribution of the reaction, coupling range per pair; after a whole run() on force-free
tissues the exact sum of all node forces, and zero force on every node that has nothing within the cut-offs.
"""
import os, sys, time, json, math, re
from fractions import Fraction as Fr
import vlib
from vlib import Rng, fhex, unhex
sys.path.insert(0, os.path.dirname(os.path.abspath(__file__)))
import contact_common as cc
import c06 as c06mod

PID = "C07"
NAMESPACE = "Simu.C07"
THEOREMS = ["gating_table", "coupling_type_gate", "mkParams0_wf", "mkParams12_wf",
            "pair_forces_sum_zero_0", "pair_forces_sum_zero_1", "pair_forces_sum_zero_2",
            "reaction_distribution_0", "reaction_distribution_1", "reaction_distribution_2",
            "no_force_same_cell_0", "no_force_same_cell_1", "no_force_same_cell_2",
            "no_force_beyond_cutoff_0", "model0_branch_cutoffs", "no_force_beyond_cutoff_1", "no_force_beyond_cutoff_2",
            "coupling_only_within_adhesion_cutoff_1", "coupling_only_within_adhesion_cutoff_2",
            "node_force_toward_surface_0", "node_force_toward_surface_1", "node_force_toward_surface_2",
            "forbidden_side_force_0", "forbidden_side_force_1", "forbidden_side_force_2", "active_within_padding"]
GEN = ["BroadPhase", "ContactRule"]
NREC_D = 51


def reversed_pair(t1, t2):
    """the property's own table: the forbidden side is OUTSIDE for an epithelial node against a matrix (ECM) face and for a
    nucleus node against the face of its (epithelial) cell; INSIDE for every other combination"""
    return (t1 == 0 and t2 == 1) or (t1 == 3 and t2 == 0)


# ---------------------------------------------------------------- generator
def gen_pair_tissue(r, cm, t1, t2):
    scale = 10.0 ** r.uniform(-6, 1)
    R2 = scale
    nested = reversed_pair(t1, t2) and r.randint(0, 2) != 0
    shapes = ["ico0", "octa", "tetra", "cube"]
    lmin = scale * r.uniform(0.2, 0.8)
    cadh = scale * (10.0 ** r.uniform(math.log10(0.03), math.log10(1.6)))
    crep = scale * (10.0 ** r.uniform(math.log10(0.03), math.log10(1.6)))
    if r.randint(0, 3) == 0:
        crep = cadh
    if t1 == 0 and t2 == 0 and r.randint(0, 1):
        cadh = scale * r.uniform(0.5, 1.8)        # node-node couplings need an adhesion cut-off of the order of the node spacing
    elif t1 == 0 and t2 == 0 and r.randint(0, 1):
        # adhesion cut-off well below the node spacing, repulsion cut-off of its order: the node pairs between the two cut-offs are
        # inside the broad-phase padding (max of the two) and must NOT be coupled
        cadh = scale * r.uniform(0.05, 0.3)
        crep = scale * r.uniform(0.8, 1.6)
    pad = max(cadh, crep)
    off = [r.choice([0.0, r.uniform(-3, 3) * scale, r.uniform(-300, 300) * scale]) for _ in range(3)]
    if nested:
        R2 = scale * r.uniform(2.0, 3.0)
        pts2, f2 = cc.place(r.choice(["ico0", "cube", "octa"]), off, [R2] * 3, cc.rot_matrix(r))
        R1 = scale * r.uniform(0.4, 0.9)
        d = [r.normal() for _ in range(3)]
        n = math.sqrt(sum(x * x for x in d)) or 1.0
        # inner cell near the enclosing surface, some of its nodes outside
        D = R2 * r.uniform(0.2, 0.95)
        ctr = [off[j] + d[j] / n * D for j in range(3)]
        pts1, f1 = cc.place(r.choice(shapes), ctr, [R1] * 3, cc.rot_matrix(r))
    else:
        # one case in three: a strongly anisotropic face cell (obtuse and needle-like triangles: a node beyond the extension of an edge
        # next to an obtuse corner is far from the triangle although it is close to the LINE through that edge)
        axes = [R2 * r.uniform(0.8, 1.1) for _ in range(3)] if r.randint(0, 2) else [R2 * r.uniform(0.2, 0.5), R2 * r.uniform(0.8, 1.1), R2 * r.uniform(1.5, 2.5)]
        pts2, f2 = cc.place(r.choice(shapes), off, axes, cc.rot_matrix(r))
        R1 = scale * r.uniform(0.5, 1.2)
        d = [r.normal() for _ in range(3)]
        n = math.sqrt(sum(x * x for x in d)) or 1.0
        lam = r.choice([r.uniform(0.2, 0.9), r.uniform(0.6, 1.05), r.uniform(0.8, 1.0 + 1.2 * pad / (R1 + R2))])
        D = (R1 + R2) * lam * 0.8
        ctr = [off[j] + d[j] / n * D for j in range(3)]
        pts1, f1 = cc.place(r.choice(shapes), ctr, [R1] * 3, cc.rot_matrix(r))
    ft = lambda: [(r.choice([0.0, r.uniform(0.0, 2.0)]) * 10.0 ** r.uniform(-2, 2), r.uniform(0.1, 3.0) * 10.0 ** r.uniform(-2, 2)) for _ in range(3)]
    ids = r.choice([(0, 1), (7, 3), (1, 0), (12, 40)])
    c1 = cc.Cell(t1, ids[0], pts1, f1, ft(), [r.randint(0, 2) for _ in f1], r.choice([1e300, 1e300, r.uniform(0.5, 3.0) / scale]))
    c2 = cc.Cell(t2, ids[1], pts2, f2, ft(), [r.randint(0, 2) for _ in f2], r.choice([1e300, 1e300, r.uniform(0.5, 3.0) / scale]))
    cells = [c1, c2] if r.randint(0, 1) else [c2, c1]
    pre = (-1.0, -1.0, -1.0, -1.0)
    if cm != 0 and r.randint(0, 2) == 0:
        a2 = cadh * cadh
        pre = tuple(r.choice([-1.0, -1.0, a2 * r.uniform(0.0, 0.3), a2 * r.uniform(0.3, 1.5), scale * scale * r.uniform(0, 4)]) for _ in range(4))
    prep = 0 if cm == 0 else r.choice([0, 1, 1])
    return cc.Tissue(cells, lmin, cadh, crep, 1, prep, pre, max_pairs=r.choice([40, 80, 160]), kind="pair %s->%s%s" % (
        cc.TYPE_NAMES[t1], cc.TYPE_NAMES[t2], " nested" if nested else ""))


# ---------------------------------------------------------------- records of the pairs mode
class Rec:
    pass


def parse_pairs(ans):
    if not ans or not ans.startswith("ok"):
        return None
    out = []
    for chunk in ans.split(" ; ")[1:]:
        w = chunk.split()
        if len(w) != 8 + NREC_D + 5 + 3:
            return None
        r = Rec()
        r.i1, r.ni, r.i2, r.fi, r.t1, r.t2, r.id1, r.id2 = [int(x) for x in w[:8]]
        r.hex = w[8:8 + NREC_D]
        d = [unhex(x) for x in r.hex]
        r.p, r.a, r.b, r.c, r.fn = d[0:3], d[3:6], d[6:9], d[9:12], d[12:15]
        r.area = d[15]
        r.curv = d[28:32]
        r.mc1, r.mc2 = d[32], d[33]
        r.adh0, r.rep0, r.adh1, r.rep1 = d[34:38]
        r.F = [d[38:41], d[41:44], d[44:47], d[47:50]]      # node, face node 1, 2, 3
        r.stray = d[50]
        r.kn0, r.kn, r.ka, r.kb, r.kc = w[8 + NREC_D:8 + NREC_D + 5]
        r.fids = [int(x) for x in w[-3:]]
        out.append(r)
    return out


def rule_line(cm, t, r):
    w = ["rule", str(cm), fhex(t.cadh), fhex(t.crep), fhex(t.lmin), str(r.t1), str(r.t2), str(r.id1), str(r.id2)]
    w += r.hex[0:34]                       # p a b c fn area | four normals | four curvatures | mc1 mc2
    w += [r.hex[34], r.hex[37]]            # adherence strength of the type before the call, repulsion strength after
    w += [fhex(x) for x in t.pre]
    return " ".join(w)


def coupling_created(cm, r):
    """(fired, index 1..3 of the face node, recorded squared distance) from the coupling state of the node after the call"""
    if cm == 0 or r.kn == r.kn0:
        return False, 0, 0.0
    # the entry that names the cell of the face (position i2 in the cell list)
    ents = [e.split(":") for e in r.kn.split(",")] if r.kn != "-" else []
    old = set(r.kn0.split(",")) if r.kn0 != "-" else set()
    new = [e for e in ents if ":".join(e) not in old]
    if len(new) != 1:
        return True, -1, float("nan")
    cell, node, dist = int(new[0][0]), int(new[0][1]), unhex(new[0][2])
    idx = r.fids.index(node) + 1 if (cell == r.i2 and node in r.fids) else -1
    return True, idx, dist


def sub(u, v):
    return [u[0] - v[0], u[1] - v[1], u[2] - v[2]]


def dot(u, v):
    return u[0] * v[0] + u[1] * v[1] + u[2] * v[2]


def pair_oracle(cm, t, r, tags=None):
    """the property restated on one (node, face) pair; returns None or a failure text (tags: which clauses were exercised)"""
    tags = tags if tags is not None else {}
    Fn, F1, F2, F3 = r.F
    allF = Fn + F1 + F2 + F3
    if any(math.isnan(x) or math.isinf(x) for x in allF):
        return "non-finite contact force"
    if r.stray != 0.0:
        return "the rule added a force on a node that belongs neither to the pair's node nor to its face"
    mag = sum(abs(x) for x in allF)
    fired, idx, dist = coupling_created(cm, r)
    # reciprocity
    for k in range(3):
        s = Fr(Fn[k]) + Fr(F1[k]) + Fr(F2[k]) + Fr(F3[k])
        if abs(float(s)) > 1e-12 * mag:
            return "forces on the node and the three face nodes do not cancel: component %d sums to %g (sum of magnitudes %g)" % (k, float(s), mag)
    e2, q, feat = cc.exact_closest(r.p, r.a, r.b, r.c)
    d2 = float(e2)
    cpa = [float(x) for x in q]
    maxc = max(t.cadh, t.crep)
    eps = 1e-9
    s_exact = sum((Fr(r.p[k]) - q[k]) * Fr(r.fn[k]) for k in range(3))
    side = float(s_exact)
    gapv = sub(r.p, cpa)
    gl = math.sqrt(max(d2, 0.0))
    # range
    if d2 > maxc * maxc * (1 + eps):
        tags["beyond_cutoff"] = tags.get("beyond_cutoff", 0) + 1
        if mag != 0.0:
            return "a contact force is applied at distance %.6g, beyond both cut-offs (adhesion %.6g, repulsion %.6g)" % (gl, t.cadh, t.crep)
        if fired:
            return "a coupling is created at distance %.6g from the face, beyond the adhesion cut-off %.6g" % (gl, t.cadh)
    rev = reversed_pair(r.t1, r.t2)
    if cm == 0 and mag != 0.0 and abs(side) > 1e-9 * gl * math.sqrt(dot(r.fn, r.fn)) + 1e-300:
        adhesive = (side > 0) != rev
        cut = t.cadh if adhesive else t.crep
        if d2 > cut * cut * (1 + eps):
            return "model 0: %s force applied at distance %.6g beyond the %s cut-off %.6g" % (
                "adhesion" if adhesive else "repulsion", gl, "adhesion" if adhesive else "repulsion", cut)
    # couplings
    if fired:
        tags["coupling"] = tags.get("coupling", 0) + 1
        if r.t1 != 0 or r.t2 != 0:
            return "a coupling is created between a %s node and a %s face" % (cc.TYPE_NAMES[r.t1], cc.TYPE_NAMES[r.t2])
        if idx not in (1, 2, 3):
            return "the coupling created does not name a node of the face (%s)" % r.kn
        tgt = [r.a, r.b, r.c][idx - 1]
        true_d = float(sum((Fr(r.p[k]) - Fr(tgt[k])) ** 2 for k in range(3)))
        if not vlib.close(dist, true_d, 16, 1e-300):
            return "the coupling records squared distance %g, the coupled nodes are %g apart (squared)" % (dist, true_d)
        if true_d >= t.cadh * t.cadh * (1 + eps):
            return "a coupling is created between nodes %.6g apart, beyond the adhesion cut-off %.6g" % (math.sqrt(true_d), t.cadh)
        if mag != 0.0:
            return "the call that created a coupling also applied a force"
    # direction: whatever is applied moves the node towards the closest point of the face and the face towards the node
    if mag != 0.0 and gl > 0:
        tags["direction"] = tags.get("direction", 0) + 1
        tol = 1e-9 * gl * math.sqrt(dot(Fn, Fn))
        if -dot(Fn, gapv) < -tol:
            return "the force on the node points away from the closest point of the face (F.(cpa-p) = %g)" % (-dot(Fn, gapv))
        Rsum = [F1[k] + F2[k] + F3[k] for k in range(3)]
        if dot(Rsum, gapv) < -tol:
            return "the reaction on the face points away from the node ((F1+F2+F3).(p-cpa) = %g)" % dot(Rsum, gapv)
    # forbidden side: the exact repulsion expected
    nrm = math.sqrt(dot(r.fn, r.fn))
    clear_side = abs(side) > 1e-7 * gl * nrm and nrm > 0
    forbidden = (side < 0) != rev
    if clear_side and forbidden and not fired and gl > 0:
        cut = t.crep if cm == 0 else maxc
        inside = d2 < cut * cut * (1 - eps)
        if cm == 0:
            inside = inside and d2 < maxc * maxc * (1 - eps)
        rep = r.rep1 if cm == 0 else r.rep0
        if inside and rep > 0 and r.area > 0:
            tags["forbidden_side_%s" % ("outside" if rev else "inside")] = tags.get("forbidden_side_%s" % ("outside" if rev else "inside"), 0) + 1
            k = rep * r.area
            exp_n = [-gapv[j] * k for j in range(3)]
            tolF = 1e-7 * k * gl
            if any(abs(Fn[j] - exp_n[j]) > tolF for j in range(3)):
                return "node on the forbidden side (%s the %s cell) at distance %.6g inside the cut-off %.6g: force on the node %r, expected stiffness*area*(cpa-p) = %r" % (
                    "outside" if rev else "inside", cc.TYPE_NAMES[r.t2], gl, cut, Fn, exp_n)
            # distribution by the barycentric coordinates of the exact closest point
            ab, ac, aq = sub(r.b, r.a), sub(r.c, r.a), sub(cpa, r.a)
            A, B, C = dot(ab, ab), dot(ab, ac), dot(ac, ac)
            det = A * C - B * B
            if det > 1e-12 * A * C:
                v = (C * dot(ab, aq) - B * dot(ac, aq)) / det
                w = (A * dot(ac, aq) - B * dot(ab, aq)) / det
                u = 1.0 - v - w
                for Fi, bi, nm in ((F1, u, "first"), (F2, v, "second"), (F3, w, "third")):
                    if any(abs(Fi[j] - gapv[j] * k * bi) > 1e-6 * k * gl for j in range(3)):
                        return "the reaction on the %s face node is %r, expected stiffness*area*(p-cpa) times its barycentric coordinate %.6g" % (nm, Fi, bi)
    return None


def tissue_oracle(t, cm, ans):
    """after a whole run() on a force-free tissue: exact total force, and zero force where nothing is within the cut-offs"""
    s = cc.parse_tissue(ans) if ans else None
    if s is None:
        return "harness answered %r" % (ans[:100] if ans else ans), {}
    F = cc.vecs(s["F"])
    nodes, faces = t.nodes(), t.faces()
    tot = [sum(Fr(v[k]) for v in F) for k in range(3)]
    mag = sum(abs(x) for v in F for x in v)
    st = {"sum_abs": mag, "nonzero": sum(1 for v in F if any(x != 0.0 for x in v))}
    for k in range(3):
        if abs(float(tot[k])) > 1e-12 * mag:
            return "contact forces of the tissue do not sum to zero: component %d of the total is %g (sum of magnitudes %g)" % (k, float(tot[k]), mag), st
    # nodes that may carry a force: within the padding of a face of another cell, or corner of such a face
    req, band, _ = c06mod.required_pairs(t)
    loose = set()
    pad = t.pad()
    # add the rounding band: use the float distance with a small margin
    touched = set()
    base = [0]
    for c in t.cells:
        base.append(base[-1] + len(c.pts))
    for (ni, g, d2) in req:
        touched.add(ni)
        ci, fi, _ = faces[g]
        for k in t.cells[ci].faces[fi]:
            touched.add(base[ci] + k)
    if band == 0:
        for i, v in enumerate(F):
            if i not in touched and any(x != 0.0 for x in v):
                return "node %d of cell %d carries the contact force %r although no face of another cell is within the cut-offs of it and it belongs to no face near a node of another cell" % (
                    nodes[i][1], nodes[i][0], v), st
        for i, k in enumerate(s["K"]):
            if k != "-" and i not in touched:
                return "node %d of cell %d is coupled (%s) although nothing is within the cut-offs" % (nodes[i][1], nodes[i][0], k), st
    if len(set(c.id for c in t.cells)) == 1 and (mag != 0.0 or any(k != "-" for k in s["K"])):
        return "a cell exerts contact forces / couplings on itself", st
    return None, st


def enclosing_observation(cm, exe):
    """not a verdict, a measurement kept in the evidence: an epithelial icosahedron poking through an enclosing ECM
    icosphere (radius 3, centre of the inner cell at 2.6, both cut-offs 0.5).  Do the nodes that escaped get a force?
    (models 1 and 2 test the node normal against the face normal before the rule is reached)"""
    out = {}
    for prep in ((0,) if cm == 0 else (0, 1)):
        po, fo = cc.place("ico1", [0.0, 0.0, 0.0], [3.0, 3.0, 3.0])
        pi, fi = cc.place("ico0", [2.6, 0.0, 0.0], [1.0, 1.0, 1.0])
        ft = [(1.0, 1.0)] * 3
        t = cc.Tissue([cc.Cell(1, 0, po, fo, ft), cc.Cell(0, 1, pi, fi, ft)], 0.5, 0.5, 0.5, 1, prep)
        ans, rc, err = vlib.run_lines(exe, [t.line("tissue")])
        s = cc.parse_tissue(ans[0]) if ans else None
        if s is None:
            out["prep%d" % prep] = "no answer"
            continue
        F = cc.vecs(s["F"])
        esc = [k for k, p in enumerate(pi) if math.sqrt(sum(x * x for x in p)) > 3.0]
        pushed = [k for k in esc if sum(F[len(po) + k][j] * pi[k][j] for j in range(3)) < 0]
        out["node_normals_%s" % ("computed" if prep else "zero_as_in_iteration_0")] = {"escaped_nodes": len(esc), "pushed_back": len(pushed)}
    return out


KEY_GATE = "C07:normal-test-withholds-enclosing-contacts"


# ---------------------------------------------------------------- run
def run(ctx):
    tier, seed = ctx["tier"], ctx["seed"]
    t0 = time.time()
    V = vlib.Verdict(PID)
    gen = vlib.translate.run(GEN)
    proof = vlib.prove(PID, THEOREMS, NAMESPACE, extra_targets=("drv_c07",))
    for f in proof["failures"]:
        V.fail_tie("proof", "%s: %s" % (f["theorem"], f["reason"]), errors=proof["errors"][:5])
    if tier == "thorough" and proof["ok"]:
        ok, log = vlib.leanchecker("SimuVerif.Properties.C07")
        if not ok:
            V.fail_tie("proof", "leanchecker rejected SimuVerif.Properties.C07", log=log)
    drv = vlib.driver_path("drv_c07")
    if not os.path.exists(drv):
        V.fail_tie("correspondence", "model driver missing (lake build failed)")
    widen = 3 if not proof["ok"] else 1
    reps = (2 if tier == "quick" else 36) * widen
    ntis = (14 if tier == "quick" else 220) * widen
    stats = {"pair_tissues": 0, "pairs": 0, "pairs_with_force": 0, "pairs_coupled": 0, 
             "model_bit_identical": 0, "model_close": 0, "model_disagreements": 0, "oracle_failures": 0, "crashes": 0,
             "run_tissues": 0, "run_nonzero_nodes": 0}
    combos, per_model, samples, rebuilt_total, lines_seen = {}, {}, [], 0, set()
    tags = {}
    observations = {}
    for cm in (0, 1, 2):
        exe, rebuilt = cc.build(cm)
        rebuilt_total += rebuilt
        r = Rng(seed).fork("c07/%d" % cm)
        ts = []
        for rep_i in range(reps):
            for t1 in range(5):
                for t2 in range(5):
                    ts.append(gen_pair_tissue(r, cm, t1, t2))
        lines = [t.line("pairs") for t in ts]
        answers, crashes = cc.run_fed(exe, lines)
        for c in crashes:
            stats["crashes"] += 1
            V.fail_input("contact model %d: the per-pair rule ends abnormally (rc=%s)" % (cm, c["rc"]),
                         {"contact_model": cm, "mode": "pairs", "tissue": ts[c["index"]].describe(), "line": lines[c["index"]], "stderr": c["stderr"][:600]}, key=None)
        rule_lines, owners = [], []
        recs_all = []
        for i, t in enumerate(ts):
            lines_seen.add(lines[i])
            if answers[i] is None:
                continue
            recs = parse_pairs(answers[i])
            if recs is None:
                V.fail_input("contact model %d: unparseable harness answer %r" % (cm, answers[i][:100]), {"contact_model": cm, "mode": "pairs", "line": lines[i]})
                continue
            stats["pair_tissues"] += 1
            for rec in recs:
                recs_all.append((i, rec))
                rule_lines.append(rule_line(cm, t, rec))
        model = None
        if os.path.exists(drv) and rule_lines:
            mo, rc2, err2 = vlib.run_lines(drv, rule_lines)
            if rc2 != 0 or len(mo) != len(rule_lines):
                V.fail_tie("correspondence", "model driver ended abnormally (rc=%s) %s" % (rc2, err2[-300:]))
            else:
                model = mo
        nfail = ndis = 0
        seen_msgs = set()
        for j, (i, rec) in enumerate(recs_all):
            t = ts[i]
            stats["pairs"] += 1
            key = "%s->%s" % (cc.TYPE_NAMES[rec.t1], cc.TYPE_NAMES[rec.t2])
            combos[key] = combos.get(key, 0) + 1
            mag = sum(abs(x) for v in rec.F for x in v)
            fired, idx, dist = coupling_created(cm, rec)
            stats["pairs_with_force"] += 1 if mag != 0.0 else 0
            stats["pairs_coupled"] += 1 if fired else 0
            msg = pair_oracle(cm, t, rec, tags)
            if msg:
                nfail += 1
                stats["oracle_failures"] += 1
                mk = re.sub(r"[-+]?[0-9][-+0-9.e]*", "#", msg)[:80]
                if mk not in seen_msgs and len(seen_msgs) < 3:      # one replay per kind of failure
                    seen_msgs.add(mk)
                    V.fail_input("contact model %d: %s" % (cm, msg), {"contact_model": cm, "mode": "pairs", "tissue": t.describe(), "line": lines[i],
                                 "pair": {"node_cell": rec.i1, "node": rec.ni, "face_cell": rec.i2, "face": rec.fi, "types": [rec.t1, rec.t2],
                                          "p": rec.p, "a": rec.a, "b": rec.b, "c": rec.c, "face_normal": rec.fn, "forces_node_f1_f2_f3": rec.F}}, key=None)
            if model is not None:
                w = model[j].split()
                ok = len(w) == 15
                if ok:
                    mf = [unhex(x) for x in w[:12]]
                    impl = [x for v in rec.F for x in v]
                    sc = max([abs(x) for x in impl] + [abs(x) for x in mf])
                    same = all(fhex(a) == fhex(b) or a == b for a, b in zip(impl, mf))
                    close = all(vlib.close(a, b, 64, 1e-12 * sc) for a, b in zip(impl, mf))
                    mfired, midx, mdist = int(w[12]) == 1, int(w[13]), unhex(w[14])
                    cok = (mfired == fired) and (not fired or (midx == idx and vlib.close(mdist, dist, 4)))
                    ok = close and cok
                    if ok:
                        stats["model_bit_identical" if same else "model_close"] += 1
                if not ok:
                    ndis += 1
                    stats["model_disagreements"] += 1
                    if ndis <= 2:
                        V.fail_tie("correspondence", "contact model %d: generated rule and implementation differ on a pair (%s): impl forces %r coupling %r, model %s" % (
                            cm, key, rec.F, (fired, idx, dist), model[j][:300]), rule_line=rule_lines[j])
            if len(samples) < 3 and mag != 0.0:
                samples.append({"contact_model": cm, "types": key, "p": rec.p, "a": rec.a, "b": rec.b, "c": rec.c, "forces_node_f1_f2_f3": rec.F})
        # whole run() on force-free tissues
        rt = Rng(seed).fork("c07run/%d" % cm)
        rts = [cc.gen_tissue(rt, cm, quick=True, force_kind=k) for k in ("single", "apart", "cluster", "nested", "pairclose")]
        rts += [cc.gen_tissue(rt, cm, quick=True) for _ in range(ntis)]
        # contention: many small cells whose nodes all lie within the cut-off of the SAME two big triangles (the top of a cube), 8 threads, several
        # times: every reaction is accumulated on the same three nodes from different threads (the accumulation must be atomic for the total to vanish)
        if cm == 0:
            big = cc.place("cube", [0.0, 0.0, 0.0], [4.0, 4.0, 1.0])
            ft = [(1.0, 1.0)] * 3
            cells = [cc.Cell(0, 0, big[0], big[1], ft)]
            k = 1
            for ix in range(-3, 4):
                for iy in range(-3, 4):
                    sp, sf = cc.place("tetra", [ix * 0.9 + 0.013 * iy, iy * 0.9 - 0.011 * ix, 1.18 + 0.003 * ((ix + 5 * iy) % 7)], [0.12, 0.12, 0.12])
                    cells.append(cc.Cell(0, k, sp, sf, ft)); k += 1
            for rep in range(4 if tier == "quick" else 12):
                rts.append(cc.Tissue(cells, 0.3, 0.25, 0.25, 8, 0, kind="contention %d" % rep))
        rlines = [t.line("tissue") for t in rts]
        ra, rcr = cc.run_fed(exe, rlines)
        for c in rcr:
            stats["crashes"] += 1
            V.fail_input("contact model %d: run() ends abnormally (rc=%s)" % (cm, c["rc"]),
                         {"contact_model": cm, "mode": "tissue", "tissue": rts[c["index"]].describe(), "line": rlines[c["index"]], "stderr": c["stderr"][:600]}, key=None)
        nrf = 0
        for i, t in enumerate(rts):
            lines_seen.add(rlines[i])
            if ra[i] is None:
                continue
            stats["run_tissues"] += 1
            msg, st = tissue_oracle(t, cm, ra[i])
            stats["run_nonzero_nodes"] += st.get("nonzero", 0)
            if msg:
                nrf += 1
                stats["oracle_failures"] += 1
                if nrf <= 2:
                    V.fail_input("contact model %d: %s" % (cm, msg), {"contact_model": cm, "mode": "tissue", "tissue": t.describe(), "line": rlines[i]}, key=None)
        observations["contact_model_%d" % cm] = enclosing_observation(cm, exe)
        for prep, ob in observations["contact_model_%d" % cm].items():
            if not isinstance(ob, dict):
                V.fail_tie("correspondence", "contact model %d: the enclosing-matrix scenario gave no answer (%s)" % (cm, ob))
            elif ob["pushed_back"] < ob["escaped_nodes"]:
                gated = cm in (1, 2) and prep == "node_normals_computed"
                V.fail_input("contact model %d (%s): %d of %d nodes of an epithelial cell that crossed to the outside of the enclosing ECM cell "
                             "receive no force pointing back to its surface" % (cm, prep, ob["escaped_nodes"] - ob["pushed_back"], ob["escaped_nodes"]),
                             {"scenario": "enclosing_observation", "contact_model": cm, "node_normals": prep,
                              "outer": "ECM icosphere radius 3 at the origin", "inner": "epithelial icosahedron radius 1 centred at (2.6,0,0)", "cut_offs": 0.5},
                             key=KEY_GATE if gated else None)
        per_model[str(cm)] = {"pair_tissues": len(ts), "pairs": len(recs_all), "pair_failures": nfail, "model_disagreements": ndis,
                              "run_tissues": len(rts), "run_failures": nrf}
    rcode, nviol = V.finish()
    cov = {
        "obligations": proof["obligations"], "discharged": proof["discharged"],
        "checker_cmd": "lake build SimuVerif.Properties.C07 SimuVerif.Audit.C07 drv_c07 (+ lake env leanchecker in the thorough tier)",
        "trusted_base": vlib.TRUSTED_COMMON + [
            "tools/gen/c07_contact.py + tools/gen/c06_contact.py + tools/gen/_cemit.py (typed translator of the per-pair rules; structural slicing of resolve_contact)",
            "the polarisation notification face_is_in_contact is not modelled: the strengths of the face type enter as the numbers read at the time of use (harness reports them)",
            "node normals / curvatures / cached face normals and areas are inputs of the rule (taken from the real objects)"],
        "theorems": {k: v for k, v in proof["axioms"].items()}, "proof_failures": proof["failures"], "translator": gen,
        "evaluations": stats["pairs"] + stats["run_tissues"], "distinct_nontrivial": len(lines_seen),
        "rule": "per contact model: %d x 25 type combinations of two cells (tetrahedra/octahedra/icosahedra/cubes; side by side at generated overlaps, or nested for the reversed combinations), "
                "scales 1e-6..10, offsets up to 300 sizes, cut-offs 0.05..3 l_min, strengths 1e-2..1e2, coupling pre-states (models 1/2), up to 160 (node, face) pairs each; "
                "plus whole-run tissues of the C06 generator; distinct = distinct request lines" % reps,
        "type_combinations": combos, "oracle_clauses_exercised": tags,
        "observation_escaped_node_vs_enclosing_ecm": observations, "per_model": per_model, "totals": stats, "repo_objects_rebuilt": rebuilt_total, "samples": samples,
    }
    vlib.write_evidence(PID, tier, "proof", cov, [
        "exact arithmetic in the theorems; tolerances of the run-time oracle: 1e-12 of the sum of magnitudes (reciprocity), 1e-9 relative on cut-offs, 1e-7 / 1e-6 relative on the expected forbidden-side force",
        "non-degenerate triangles (the kernel theorems of C05 need it); non-negative strengths and areas for the direction theorems",
        "models 1/2: the normal / curvature tests in front of the rule can withhold a pair from it (then no force at all); the theorems say what is applied when the rule is reached",
    ], time.time() - t0, nviol)
    return rcode


def replay(ctx):
    rp = ctx["replay"]
    fi = rp.get("failing_input", {}).get("input", {})
    line = fi.get("line")
    if fi.get("scenario") == "enclosing_observation":
        cm = int(fi["contact_model"])
        exe, _ = cc.build(cm)
        ob = enclosing_observation(cm, exe).get(fi["node_normals"])
        print("contact model %d, %s: %s" % (cm, fi["node_normals"], json.dumps(ob)))
        if not isinstance(ob, dict) or ob["pushed_back"] < ob["escaped_nodes"]:
            print("VIOLATION property=C07 replay=%s" % ctx.get("replay_path", "-"))
            return 1
        print("property holds on this input now")
        return 0
    if not line:
        print("replay file names no input: %s" % json.dumps(rp.get("no_longer_checks", rp))[:2000])
        return 1
    cm = int(fi.get("contact_model", 1))
    exe, _ = cc.build(cm)
    mode, t = cc.from_line(line)
    answers, crashes = cc.run_fed(exe, [line])
    print("contact model %d, %s mode, tissue: %s" % (cm, mode, json.dumps(t.describe())))
    if crashes:
        print("VIOLATION property=C07 replay=%s" % ctx.get("replay_path", "-"))
        print("ends abnormally (rc=%s)\n%s" % (crashes[0]["rc"], crashes[0]["stderr"][:1200]))
        return 1
    msgs = []
    if mode == "pairs":
        for rec in parse_pairs(answers[0]) or []:
            m = pair_oracle(cm, t, rec)
            if m:
                msgs.append("%s  [node %d of cell %d, face %d of cell %d]" % (m, rec.ni, rec.i1, rec.fi, rec.i2))
    else:
        m, st = tissue_oracle(t, cm, answers[0])
        if m:
            msgs.append(m)
    if msgs:
        print("VIOLATION property=C07 replay=%s" % ctx.get("replay_path", "-"))
        for m in msgs[:5]:
            print(m)
        return 1
    print("property holds on this input now")
    return 0
