"""The differential histories shared by C01 and C11; each property applies its own oracles."""
import os, time, math, json
import vlib
from vlib import Rng, fhex, unhex
import remesh_common as RC


def swap_candidates_with_cd_edge(st):
    """edges a-b whose two opposite nodes c, d are already joined by an edge while neither a nor b has valence 3"""
    und = {(a, b): (f1, f2) for (a, b, f1, f2) in st.edges}
    val = {}
    for (a, b) in und:
        val[a] = val.get(a, 0) + 1; val[b] = val.get(b, 0) + 1
    out = []
    for (a, b), (f1, f2) in und.items():
        if f1 is None or f2 is None or f1 >= len(st.faces) or f2 >= len(st.faces):
            continue
        F1, F2 = st.faces[f1], st.faces[f2]
        if not F1["used"] or not F2["used"]:
            continue
        c = [n for n in F1["n"] if n not in (a, b)]
        d = [n for n in F2["n"] if n not in (a, b)]
        if len(c) == 1 and len(d) == 1 and c[0] != d[0]:
            if (min(c[0], d[0]), max(c[0], d[0])) in und and val.get(a, 0) > 3 and val.get(b, 0) > 3:
                out.append((a, b))
    return out


def true_score(st, f):
    """the documented quality score of a triangle, 12*sqrt(3)*area/perimeter^2 (1 for an equilateral triangle), from the node positions"""
    p, q, r = (st.nodes[i]["pos"] for i in f["n"])
    n = RC.cross(RC.sub(q, p), RC.sub(r, p))
    area = 0.5 * math.sqrt(RC.dot(n, n))
    per = sum(math.sqrt(RC.dot(RC.sub(x, y), RC.sub(x, y))) for x, y in ((p, q), (q, r), (r, p)))
    return 12.0 * math.sqrt(3.0) * area / (per * per) if per > 0 else 0.0


def score_oracle(st, answer, stats):
    bad = []
    if not answer or not answer.startswith("S"):
        return bad
    for part in answer.split(" ; ")[1:]:
        w = part.split()
        if len(w) != 4 or w[1] == "err":
            continue
        k = int(w[0])
        if k >= len(st.faces) or not st.faces[k]["used"]:
            continue
        got = vlib.unhex(w[1])
        want = true_score(st, st.faces[k])
        stats["scores_checked"] = stats.get("scores_checked", 0) + 1
        if want < 0.35:
            stats["scores_checked_below_0.35"] = stats.get("scores_checked_below_0.35", 0) + 1
        # the cached area of the face is fresh here (geom was sent): the two numbers agree to rounding
        if abs(got - want) > 1e-9 * max(1.0, abs(want)) and not bad:
            bad.append("get_triangle_score of face %d is %.12g, the quality rule 12*sqrt(3)*area/perimeter^2 gives %.12g" % (k, got, want))
        a, b = int(w[2]), int(w[3])
        P = [st.nodes[i]["pos"] for i in st.faces[k]["n"]]
        ids = st.faces[k]["n"]
        ls = {}
        for x in range(3):
            i, j = ids[x], ids[(x + 1) % 3]
            ls[(min(i, j), max(i, j))] = math.sqrt(sum((P[x][t] - P[(x + 1) % 3][t]) ** 2 for t in range(3)))
        key = (min(a, b), max(a, b))
        if key not in ls:
            if len(bad) < 2:
                bad.append("get_triangle_score of face %d names the edge %d-%d, which is not an edge of the face" % (k, a, b))
        elif ls[key] < max(ls.values()) * (1 - 1e-9) and len(bad) < 2:
            bad.append("get_triangle_score of face %d names the edge %d-%d (length %.9g) as the longest; the longest has length %.9g" % (k, a, b, ls[key], max(ls.values())))
    return bad


def run_histories(pid, tier, seed, n_hist, oracle_state, oracle_refine, oracle_single, widen=False):
    """drives histories; calls the property's oracles:
       oracle_state(st, label)                -> list of failure texts (after every dump of the implementation)
       oracle_refine(before, after, info)     -> list of failure texts (info: lmin,lmax,swap,outcome,ops,geom_fresh)
       oracle_single(op, a, b, before, after, answer) -> list of failure texts
       returns dict with statistics, failures (list of dict(what, replay lines)), disagreements, crash"""
    exe, drv, rebuilt = RC.build()

    def guarded(fn):
        """an oracle that cannot even evaluate the state of the implementation (indices out of range …) reports that"""
        def g(*a):
            try:
                return fn(*a)
            except Exception as e:
                return ["the implementation's state is so inconsistent that the oracle cannot evaluate it (%s: %s)" % (type(e).__name__, e)]
        return g
    oracle_state, oracle_refine, oracle_single = guarded(oracle_state), guarded(oracle_refine), guarded(oracle_single)
    stats = {"histories": 0, "lines": 0, "passes": 0, "splits": 0, "merges": 0, "single_split": 0, "single_merge": 0,
             "single_swap": 0, "swap_noop": 0, "rebases": 0, "faces_max": 0, "threw": 0, "conforming_passes": 0, "canmerge_false": 0,
             "merge_refinement_hyps_held": 0, "merge_refinement_hyps_not_met": 0, "merge_refinement_probe_desync": 0,
             "mesh_sizes": {}, "displacements": {}}
    failures = []
    disagreements = []
    absbad = []
    crash = None
    distinct = set()
    samples = []
    r0 = Rng(seed)
    t_start = time.time()
    budget = 55 if tier == "quick" else 540
    for h in range(n_hist):
        if time.time() - t_start > budget:
            break
        r = r0.fork("h%d" % h)
        S = RC.Session(exe, drv)
        S.new_history()
        P, T, scale = RC.make_mesh(r, 2 if tier == "quick" else 3)
        stats["mesh_sizes"][len(T)] = stats["mesh_sizes"].get(len(T), 0) + 1
        ok = True
        for l in RC.mesh_lines(P, T):
            a, b = S.send(l)
            if a is None:
                ok = False; break
        def dump(label):
            a, b = S.send("dump")
            if a is None:
                return None
            st = RC.parse_dump(a)
            if st is None:
                failures.append({"what": "unparseable dump", "replay": list(S.trace)}); return None
            stats["faces_max"] = max(stats["faces_max"], len([f for f in st.faces if f["used"]]))
            for msg in oracle_state(st, label):
                failures.append({"what": msg, "replay": list(S.trace)})
            return st
        st = dump("init") if ok else None
        le = RC.mean_edge(P, T)
        # momenta and face labels
        if st is not None:
            for i, n in enumerate(st.nodes):
                if n["used"] and r.randint(0, 1):
                    S.send("mom %d %s" % (i, " ".join(fhex(r.normal() * le) for _ in range(3))))
            for i, f in enumerate(st.faces):
                if f["used"] and r.randint(0, 2) == 0:
                    S.send("typ %d %d" % (i, r.randint(0, 3)))
            st = dump("post-setup")
        npass = r.randint(1, 5 if tier == "quick" else 12)
        for ps in range(npass):
            if st is None or S.crashed:
                break
            Pcur = [n["pos"] for n in st.nodes]
            used = [i for i, n in enumerate(st.nodes) if n["used"]]
            Tcur = RC.live_tris(st)
            kind = r.choice(["refine", "refine", "refine", "single", "rebase", "conform"])
            if kind == "refine":
                mode = r.choice(["noise", "grow", "shear", "sliver", "none"])
                stats["displacements"][mode] = stats["displacements"].get(mode, 0) + 1
                for l in RC.displace(r, used, Pcur, Tcur, le, mode):
                    S.send(l)
                geom_fresh = r.randint(0, 3) != 0
                if geom_fresh:
                    S.send("geom")
                before = dump("pre-refine")
                if before is None:
                    break
                le_now = RC.mean_edge(Pcur, Tcur) if Tcur else le
                nf = len(Tcur)
                lmin = le_now * (r.choice([0.3, 0.45, 0.6, 0.8]) if nf < 400 else r.choice([1.2, 1.5]))
                lmax = lmin * r.choice([1.8, 2.5, 3.0])
                sw = r.randint(0, 1)
                if sw == 1 and geom_fresh:
                    # the quality score and the longest edge of every face as the real get_triangle_score reports them (bit-compared with
                    # the model) and against the documented rule 12*sqrt(3)*area/perimeter^2 evaluated independently on the dumped state
                    sa, _ = S.send("scores")
                    stats["score_lines"] = stats.get("score_lines", 0) + 1
                    for msg in score_oracle(before, sa, stats):
                        failures.append({"what": msg, "replay": list(S.trace)})
                a, b = S.send("refine %s %s %d" % (fhex(lmin), fhex(lmax), sw))
                if a is None:
                    break
                ops = RC.parse_ops(b or "")
                stats["passes"] += 1
                stats["splits"] += sum(1 for o in ops if o[0] == "s"); stats["merges"] += sum(1 for o in ops if o[0] == "m")
                if a.startswith("threw"):
                    # the pass reported failure by exception: the run ends here (the cell may be left half-modified,
                    # the solver does not use it any further)
                    stats["threw"] += 1
                    stats.setdefault("threw_kinds", {})
                    stats["threw_kinds"][a] = stats["threw_kinds"].get(a, 0) + 1
                    distinct.add((len(Tcur), mode, sw, len(ops), a))
                    break
                after = dump("post-refine")
                if after is None:
                    break
                info = {"lmin": lmin, "lmax": lmax, "swap": sw, "outcome": a, "ops": ops, "geom_fresh": geom_fresh, "mode": mode}
                for msg in oracle_refine(before, after, info):
                    failures.append({"what": msg, "replay": list(S.trace)})
                distinct.add((len(Tcur), mode, sw, len(ops), a))
                st = after
                if after is not None:
                    le = max(RC.mean_edge([n["pos"] for n in after.nodes], RC.live_tris(after)), 1e-300) if RC.live_tris(after) else le
            elif kind == "conform":
                # a pass whose band contains every edge and with the quality rule switched off must change nothing
                S.send("geom")
                before = dump("pre-conform")
                if before is None:
                    break
                ls = []
                for (x, y, _, _) in before.edges:
                    if x < len(before.nodes) and y < len(before.nodes):
                        ls.append(math.sqrt(sum((before.nodes[x]["pos"][k] - before.nodes[y]["pos"][k]) ** 2 for k in range(3))))
                if not ls:
                    break
                lmin, lmax = min(ls) * 0.99, max(ls) * 1.01
                # … and with the quality rule switched ON when every triangle satisfies it (true score >= 0.2, with a margin for rounding)
                qs = [true_score(before, f) for f in before.faces if f["used"]]
                swc = 1 if (qs and min(qs) >= 0.2 * (1 + 1e-6)) else 0
                stats["conform_with_quality_rule"] = stats.get("conform_with_quality_rule", 0) + swc
                if swc:
                    stats["conform_min_true_score"] = min(stats.get("conform_min_true_score", 1.0), min(qs))
                a, b = S.send("refine %s %s %d" % (fhex(lmin), fhex(lmax), swc))
                if a is None or a.startswith("threw"):
                    failures.append({"what": "a pass over a mesh that satisfies the length band did not return normally: %s" % a, "replay": list(S.trace)})
                    break
                after = dump("post-conform")
                if after is None:
                    break
                stats["conforming_passes"] += 1
                info = {"lmin": lmin, "lmax": lmax, "swap": swc, "outcome": a, "ops": RC.parse_ops(b or ""), "geom_fresh": True, "conforming": True, "mode": "none"}
                for msg in oracle_refine(before, after, info):
                    failures.append({"what": msg, "replay": list(S.trace)})
                st = after
            elif kind == "single":
                S.send("geom")
                st = dump("pre-single")
                if st is None:
                    break
                last_op = None
                nops = r.randint(1, 6)
                for opi in range(nops):
                    if not st.edges:
                        break
                    (x, y, f1, f2) = r.choice(st.edges)
                    op = r.choice(["split", "swap", "merge", "merge"])
                    # targeted picks: (i) a swap whose opposite nodes are already joined by an edge (the guard of swap_edge),
                    # (ii) merge-then-split sequences, which leave free node slots but no free face slots before a rebase
                    if op == "swap" and r.randint(0, 1):
                        cand = swap_candidates_with_cd_edge(st)
                        if cand:
                            (x, y) = r.choice(cand)
                    if opi > 0 and last_op == "merge" and r.randint(0, 1):
                        op = "split"
                    before = st
                    if op == "merge":
                        a, b = S.send("canmerge %d %d" % (x, y))
                        if a is None:
                            break
                        if a != "true":
                            stats["canmerge_false"] += 1
                            continue
                    a, b = S.send("%s %d %d" % (op, x, y))
                    if a is None:
                        break
                    if a.startswith("err"):
                        stats["threw"] += 1
                        st = None
                        break
                    after = dump("post-" + op)
                    if after is None:
                        break
                    stats["single_" + op] += 1
                    last_op = op
                    if b and "noop" in b:
                        stats["swap_noop"] += 1
                    for msg in oracle_single(op, x, y, before, after, a):
                        failures.append({"what": msg, "replay": list(S.trace)})
                    distinct.add((op, len(RC.live_tris(before)), a))
                    st = after
                if st is not None and r.randint(0, 1):
                    a, b = S.send("rebase")
                    if a is None:
                        break
                    stats["rebases"] += 1
                    free_state = (bool(st.free_nodes), bool(st.free_faces))
                    stats.setdefault("rebase_free_states", {})
                    stats["rebase_free_states"][str(free_state)] = stats["rebase_free_states"].get(str(free_state), 0) + 1
                    st = dump("post-rebase")
            elif kind == "rebase":
                a, b = S.send("rebase")
                if a is None:
                    break
                stats["rebases"] += 1
                after = dump("post-rebase")
                if after is None:
                    break
                if after.free_nodes or after.free_faces:
                    failures.append({"what": "rebase left free slots", "replay": list(S.trace)})
                if sorted(RC.live_tris(after)) and len(RC.live_tris(after)) != len(RC.live_tris(st)):
                    failures.append({"what": "rebase changed the number of triangles", "replay": list(S.trace)})
                st = after
        if S.crashed:
            crash = dict(S.crashed); crash["replay"] = list(S.trace)
        for d in S.disagree[:2]:
            disagreements.append({"line": d[0], "impl": d[1], "model": d[2], "where": d[3], "replay": list(S.trace)})
        for d in S.absbad[:2]:
            absbad.append({"line": d[0], "model": d[1][:200], "replay": list(S.trace)})
        stats["histories"] += 1
        stats["lines"] += S.n_lines
        # executed collapses (single requests + inside refine passes) for which the model driver found the hypotheses of the
        # refinement theorem C01.merge_refines satisfied / not satisfied (the latter is not a violation: the theorem does not apply)
        stats["merge_refinement_hyps_held"] += S.mhyps_held
        stats["merge_refinement_hyps_not_met"] += S.mhyps_not_met
        stats["merge_refinement_probe_desync"] += S.mhyps_desync
        if len(samples) < 2:
            samples.append({"history": h, "faces": len(T), "requests": S.trace[:3] + ["…"] + [l for l in S.trace if not l.startswith(("n ", "t ", "pos", "mom", "typ"))][:25]})
        S.close()
        if crash or (len(failures) > 5 and not widen):
            break
    return {"stats": stats, "failures": failures, "disagreements": disagreements, "absbad": absbad, "crash": crash,
            "distinct": len(distinct), "samples": samples, "rebuilt": rebuilt}
