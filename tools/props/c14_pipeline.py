"""C14 — correspondence of the ASSEMBLED single-cell iteration (lean/SimuVerif/Model/Pipeline.lean, exe drv_c14) with the
real `solver::run_iteration`: generated single free cells are run through harness/h_solver.cpp (1 thread, every iteration
dumped) and every double of every snapshot is compared with the model started from the first snapshot.

`run_pipeline(ctx) -> dict(failures=[…], disagreements=[…], stats={…})`
   failures       the correspondence could not be established (driver missing, bad answer, scenario unusable …): tie problems
   disagreements  a dumped value of the real solver differs from the model (dict with the scenario, iteration, field, both values)
"""
import os, re, math, time
import vlib
import scenarios as SC

DRIVER = "drv_c14"
PROOF_PID = "C14Pipeline"          # lean/SimuVerif/Properties/C14Pipeline.lean, namespace Simu.C14
NAMESPACE = "Simu.C14"
THEOREMS = ["cellIteration_node", "cellIteration_closed", "cellIteration_translate", "iterC_equivariant", "cellRun_translate",
            "cellRun_translate_pipeline", "cellRun_positions", "cellRun_observables", "stepOk_translate", "runOk_translate",
            "sQ_closed", "sQ_apex"]
GEN = ["Forces", "Integrator", "CellCycle"]      # generated files the assembled model imports (in addition to those of c14.py)
MAX_ULPS = 0          # the agreement measured on the unchanged tree is bit-for-bit; anything else is reported
CONST_ORDER = ["K", "maxP", "aem", "iso", "angf", "minVol", "growth", "divVol", "density", "dt", "damping", "lmin"]


# ---------------------------------------------------------------- parameters, as parameter_reader.cpp reads them
def _tag(txt, tag, lower=False):
    m = re.search(r"<%s>([^<]*)</%s>" % (tag, tag), txt)
    if not m:
        raise KeyError(tag)
    v = m.group(1).strip()
    return v.lower() if lower else v


def _num(txt, tag, inf_ok=False):
    v = _tag(txt, tag, lower=inf_ok)
    if inf_ok and v == "inf":
        return math.inf
    return float(v)           # correctly rounded, as std::stod (glibc strtod)


def read_consts(xml, type_id):
    """the constants of Pipeline.Consts for the cell type with <global_cell_id> == type_id; only valid for the
    deterministic parameter set (std_growth_rate = std_division_volume = 0: growth_rate_ / division_volume_ are the averages)"""
    body = re.sub(r"<!--.*?-->", "", xml, flags=re.S)
    num = body[body.index("<numerical_parameters>"):body.index("</numerical_parameters>")]
    blocks = re.findall(r"<cell_type>(.*?)</cell_type>", body, flags=re.S)
    block = None
    for b in blocks:
        if int(_tag(b, "global_cell_id")) == type_id:
            block = b
    if block is None:
        raise KeyError("cell type %d" % type_id)
    if _num(block, "std_growth_rate") != 0.0 or _num(block, "std_division_volume") != 0.0:
        raise ValueError("not a deterministic parameter set")
    head = block[:block.index("<face_types>")]
    fts = [(_num(f, "surface_tension"), _num(f, "bending_modulus")) for f in re.findall(r"<face_type>(.*?)</face_type>", block, flags=re.S)]
    c = {"K": _num(head, "cell_bulk_modulus"), "maxP": _num(head, "max_inner_pressure", True), "aem": _num(head, "area_elasticity_modulus"),
         "iso": _num(head, "target_isoperimetric_ratio"), "angf": _num(head, "angle_regularization_factor"), "minVol": _num(head, "min_vol"),
         "growth": _num(head, "avg_growth_rate"), "divVol": _num(head, "avg_division_volume", True), "density": _num(head, "cell_mass_density"),
         "dt": _num(num, "time_step"), "damping": _num(num, "damping_coefficient"), "lmin": _num(num, "min_edge_length")}
    return c, fts


def request_line(consts, fts, epithelial, snap, n, every):
    """the `run` request of Driver/C14.lean from a parsed h_solver snapshot holding ONE cell"""
    cell = snap["cells"][0]
    if "-" in cell["P"] or "-" in cell["M"]:
        raise ValueError("the cell has unused node slots")
    nn, nf = cell["nn"], len(cell["T"]) // 4
    if nf != cell["nf"] or len(cell["P"]) != 3 * nn or len(cell["M"]) != 3 * nn:
        raise ValueError("the cell has unused slots or the momenta are not dumped (DYNAMIC_MODEL_INDEX != 0)")
    w = ["run", str(n), str(every), str(nn), str(nf), str(len(fts)), "1" if epithelial else "0"]
    w += [vlib.fhex(consts[k]) for k in CONST_ORDER]
    for (g, b) in fts:
        w += [vlib.fhex(g), vlib.fhex(b)]
    w += [str(snap["iter"]), vlib.fhex(snap["time"]), cell["area"], cell["vol"], cell["tvol"], cell["p"]]
    w += cell["P"] + cell["M"] + cell["T"]
    return " ".join(w)


def parse_model(lines):
    """(snapshots as SC.parse_states, {iteration: stepOk}) from the answer of drv_c14"""
    dom = {}
    for l in lines:
        if l.startswith("D "):
            w = l.split()
            dom[int(w[1])] = w[2] == "1"
    return SC.parse_states("\n".join(l for l in lines if not l.startswith("D "))), dom


# ---------------------------------------------------------------- what the model's domain means on the dumped states
def edges_in_band(cell, lmin):
    """every edge of the dumped mesh has l_min² <= |a-b|² <= l_max² with the doubles of local_mesh_refiner"""
    P = [vlib.unhex(x) for x in cell["P"]]
    T = [int(x) for x in cell["T"]]
    lmax = lmin * 3.
    lo, hi = lmin * lmin, lmax * lmax
    worst_lo, worst_hi = math.inf, 0.0
    for k in range(0, len(T), 4):
        a, b, c = T[k], T[k + 1], T[k + 2]
        for (u, v) in ((a, b), (b, c), (c, a)):
            dx, dy, dz = P[3 * u] - P[3 * v], P[3 * u + 1] - P[3 * v + 1], P[3 * u + 2] - P[3 * v + 2]
            l2 = dx * dx + dy * dy + dz * dz
            worst_lo, worst_hi = min(worst_lo, l2), max(worst_hi, l2)
    return (not worst_hi > hi) and (not worst_lo < lo), math.sqrt(worst_lo) / lmin, math.sqrt(worst_hi) / lmin


def ulps_apart(hx, hy):
    """distance in representable doubles between two bit patterns (0 = identical; +0/-0 count as 1 apart)"""
    if hx == hy:
        return 0
    a, b = int(hx, 16), int(hy, 16)
    x, y = vlib.unhex(hx), vlib.unhex(hy)
    if math.isnan(x) or math.isnan(y):
        return 0 if (math.isnan(x) and math.isnan(y)) else 1 << 62

    def key(u):
        return u if u < (1 << 63) else -(u - (1 << 63)) - 1
    return abs(key(a) - key(b))


def compare_runs(real, model, upto):
    """compare snapshots 0 … upto field by field; returns (list of disagreements, number of doubles compared, worst ulps)"""
    dis, ncmp, worst = [], 0, 0
    for k in range(upto + 1):
        if k >= len(real) or k >= len(model):
            dis.append({"iteration": k, "field": "snapshot missing", "real": k < len(real), "model": k < len(model)})
            break
        sr, sm = real[k], model[k]
        cr, cm = sr["cells"][0], sm["cells"][0]
        if sr["iter"] != sm["iter"]:
            dis.append({"iteration": k, "field": "iteration counter", "real": sr["iter"], "model": sm["iter"]})
        pairs = [("time", vlib.fhex(sr["time"]), vlib.fhex(sm["time"]))]
        pairs += [(nm, cr[key], cm[key]) for key, nm in (("area", "area"), ("vol", "volume"), ("tvol", "target volume"), ("p", "pressure"))]
        if cr["T"] != cm["T"]:
            dis.append({"iteration": sr["iter"], "field": "triangles / face types", "real": " ".join(cr["T"][:24]), "model": " ".join(cm["T"][:24])})
        for key, nm in (("P", "position"), ("M", "momentum")):
            if len(cr[key]) != len(cm[key]):
                dis.append({"iteration": sr["iter"], "field": "number of %s values" % nm, "real": len(cr[key]), "model": len(cm[key])})
                continue
            pairs += [("%s of node %d, component %d" % (nm, i // 3, i % 3), x, y) for i, (x, y) in enumerate(zip(cr[key], cm[key]))]
        for (nm, x, y) in pairs:
            ncmp += 1
            if x == y:
                continue
            u = ulps_apart(x, y) if x != "-" and y != "-" else 1 << 62
            worst = max(worst, u)
            if u > MAX_ULPS and len(dis) < 20:
                dis.append({"iteration": sr["iter"], "field": nm, "real": x, "model": y, "real_value": vlib.unhex(x) if x != "-" else None,
                            "model_value": vlib.unhex(y) if y != "-" else None, "ulps": u})
    return dis, ncmp, worst


# ---------------------------------------------------------------- scenarios
def scenarios(r, wide):
    """(name, icosphere arguments, cell type id, overrides of the first occurrence, overrides of all occurrences, iterations)"""
    out = []
    # default mechanics (bending 0, angle regularisation 0) on the egg of c14.py
    out.append(("default-egg", (2, 5e-6, (0.0, 0.0, 0.0), (1.0, 0.85, 1.2), 0.1), 0, {}, {}, 60))
    # every force term active: bending on both leading face types, angle regularisation, away from the origin
    c = [r.uniform(-3e-5, 3e-5) for _ in range(3)]
    out.append(("all-terms", (2, r.uniform(4.5e-6, 5.5e-6), tuple(c), (1.0, r.uniform(0.85, 1.0), r.uniform(1.0, 1.2)), r.uniform(0.0, 0.12)), 0,
                {"bending_modulus": "2e-18", "angle_regularization_factor": "1e-16"}, {}, r.choice([40, 60, 80])))
    # a lumen cell (base-class update_face_types / is_ready_to_divide), coarser mesh
    out.append(("lumen", (1, 2.2e-6, (r.uniform(-1e-5, 1e-5), 2e-6, -3e-6), (1.0, 0.9, 1.1), 0.05), 2, {}, {}, 40))
    if wide:
        for k in range(3):
            c = [r.uniform(-1e-4, 1e-4) for _ in range(3)]
            out.append(("random-%d" % k, (2, r.uniform(4.6e-6, 5.4e-6), tuple(c), (r.uniform(0.9, 1.0), r.uniform(0.85, 1.0), r.uniform(1.0, 1.2)), r.uniform(0.0, 0.12)), 0,
                        {"bending_modulus": r.choice(["0", "1e-18", "4e-18"]), "angle_regularization_factor": r.choice(["0", "5e-17"]),
                         "surface_tension": r.choice(["1e-3", "5e-4"])}, {}, 100))
    return out


def prove_pipeline():
    """re-check the theorems about the assembled iteration (and rebuild the model driver); same dict as vlib.prove"""
    return vlib.prove(PROOF_PID, THEOREMS, NAMESPACE, extra_targets=(DRIVER,))


def run_pipeline(ctx):
    tier, seed = ctx["tier"], ctx["seed"]
    t0 = time.time()
    failures, disagreements = [], []
    stats = {"scenarios": [], "doubles_compared": 0, "iterations_compared": 0, "worst_ulps": 0, "bit_identical": True}
    drv = vlib.driver_path(DRIVER)
    if not os.path.exists(drv):
        ok, log, _ = vlib.lake_build([DRIVER])
        if not ok or not os.path.exists(drv):
            failures.append("model driver %s does not build: %s" % (DRIVER, log[-400:]))
            return {"failures": failures, "disagreements": disagreements, "stats": stats}
    r = vlib.Rng(seed).fork("c14-pipeline")
    exe, _ = SC.build("asan")
    for (name, ico, type_id, ov, ov_all, iters) in scenarios(r, tier == "thorough"):
        lmin = "7.5e-7" if ico[0] == 2 else "6e-7"
        with SC.Workdir() as wd:
            mesh = os.path.join(wd, "t.vtk")
            SC.write_vtk(mesh, [SC.icosphere(*ico) + (type_id,)])
            allov = dict(SC.DETERMINISTIC)
            allov.update(ov_all)
            params = SC.make_params(wd, mesh, lmin, dict({"perform_initial_triangulation": "0", "enable_edge_swap_operation": "0"}, **ov), allov)
            xml = open(params).read()
            exe, _ = SC.build("asan")
            rr = SC.run(exe, params, iters, 1, 1)
        args = {"scenario": name, "icosphere": list(ico[:2]) + [list(ico[2]), list(ico[3]), ico[4]], "cell_type": type_id, "overrides": ov, "iterations": iters, "seed": seed}
        what, _key = SC.classify(rr["rc"], rr["err"])
        if what or rr["rc"] != 0:
            failures.append("scenario %s: the real solver did not run normally (%s)" % (name, what or rr["out"][-200:]))
            continue
        real = SC.parse_states(rr["out"])
        if not real or any(s["ncells"] != 1 for s in real[:1]):
            failures.append("scenario %s: no single-cell snapshot" % name)
            continue
        try:
            consts, fts = read_consts(xml, type_id)
            req = request_line(consts, fts, type_id == 0, real[0], iters, 1)
        except (KeyError, ValueError) as e:
            failures.append("scenario %s: %s" % (name, e))
            continue
        lines, rc, err = vlib.run_lines(drv, [req], timeout=600)
        if rc != 0 or not lines or lines[-1] != "END":
            failures.append("scenario %s: model driver answered %r (rc %s) %s" % (name, lines[-1:] if lines else None, rc, err[-200:]))
            continue
        model, dom = parse_model(lines)
        # the solver constructor: target volume = volume * exp(initial_pressure / bulk modulus), initial_pressure_ = 0 (never read from the file)
        c0 = real[0]["cells"][0]
        if vlib.unhex(c0["tvol"]) != vlib.unhex(c0["vol"]) * math.exp(0.0 / consts["K"]):
            disagreements.append(dict(args, iteration=0, field="target volume set by the solver constructor", real=c0["tvol"], model=c0["vol"]))
        # the domain of the model, on the REAL states: one cell, same connectivity, every edge inside the band
        upto = len(real) - 1
        left = None
        band = [math.inf, 0.0]
        for k, s in enumerate(real):
            if s["ncells"] != 1 or [x for i, x in enumerate(s["cells"][0]["T"]) if i % 4 != 3] != [x for i, x in enumerate(c0["T"]) if i % 4 != 3]:
                upto, left = k - 1, "cell count / connectivity changed"
                break
            inb, lo, hi = edges_in_band(s["cells"][0], consts["lmin"])
            if not inb:
                upto, left = k, "an edge left the band"          # the state itself is still comparable, the next iteration is not
                break
            band = [min(band[0], lo), max(band[1], hi)]
        # the model's own verdict must agree: stepOk for every compared iteration, and not-ok where the real run left the domain
        bad_dom = [k for k in range(upto) if not dom.get(real[k]["iter"], False)]
        if bad_dom:
            disagreements.append(dict(args, iteration=real[bad_dom[0]]["iter"], field="model says the state is outside its domain (stepOk = false) although the real mesh is unchanged and inside the band",
                                      real="in domain", model="stepOk false"))
        if left is not None and upto < len(real) - 1 and dom.get(real[upto]["iter"], False):
            disagreements.append(dict(args, iteration=real[upto]["iter"], field="model says stepOk although the real run left the domain (%s)" % left, real=left, model="stepOk true"))
        if upto < min(20, iters):
            failures.append("scenario %s: the run leaves the modelled domain after %d iterations (%s): choose another min_edge_length" % (name, upto, left))
        dis, ncmp, worst = compare_runs(real, model, upto)
        for d in dis:
            disagreements.append(dict(args, **d))
        stats["doubles_compared"] += ncmp
        stats["iterations_compared"] += upto
        stats["worst_ulps"] = max(stats["worst_ulps"], worst)
        stats["bit_identical"] = stats["bit_identical"] and worst == 0 and not dis
        stats["scenarios"].append({"name": name, "nodes": c0["nn"], "faces": c0["nf"], "iterations_run": iters, "iterations_compared": upto,
                                   "left_domain": left, "edge_over_lmin_range": [round(band[0], 3), round(band[1], 3)], "doubles": ncmp, "worst_ulps": worst,
                                   "real_wall": round(rr["wall"], 2)})
    stats["wall"] = round(time.time() - t0, 1)
    return {"failures": failures, "disagreements": disagreements, "stats": stats}


if __name__ == "__main__":
    import json, sys
    res = run_pipeline({"tier": sys.argv[1] if len(sys.argv) > 1 else "quick", "seed": vlib.seed()})
    print(json.dumps(res, indent=1, default=str))
