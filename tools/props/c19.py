"""C19 — output files and statistics are complete, well-formed and match the simulated state.
Model: Model/Schedule.lean (run / iteration / save_mesh / write_data discipline) parametrised by Gen/Schedule.lean
(regenerated from solver.cpp, time_integration.*, statistics_writer.cpp, mesh_data.hpp on every run).
Theorems: Properties/C19.lean.  Correspondence: the REAL solver::run() on tiny populations (harness/h_run.cpp) vs the
Float instance of the model fed the same (T, dt, S) and the observed population history.
Oracle (independent restatement of the property): directory listing, every .vtk parsed (and re-read by the real
mesh_reader), statistics table parsed and compared with the getters logged when the rows were written."""
import os, sys, time, json, math, re, shutil
from fractions import Fraction as Fr
import vlib
from vlib import Rng, fhex, unhex

PID = "C19"
NAMESPACE = "Simu.C19"
THEOREMS = ["files_contiguous", "files_written_once", "files_describe_alive", "stats_iterations", "rows_per_record",
            "recorded_before_removal", "no_division_between", "stats_times", "time_advances_generic", "loop_condition_history",
            "time_advances", "iterations_spec", "iterations_partial", "iterations_le", "empty_population_stops",
            "files_exact", "last_file_number", "K_bound_partial",
            "row_arity_eq_header_arity", "both_writers_same_table", "table_columns", "value_sources", "code_shape"]
GEN = ["Schedule"]
HARNESS = os.path.join(vlib.VERIF, "harness", "h_run.cpp")
KEY_GAP = "file-number-gap-when-sampling-period-equals-time-step"

CLASS_TEXT = {
    "run": "the run did not execute its iterations 0..N-1 on a consistent population",
    "time": "simulated time does not advance by one time step per iteration until the duration is reached (or the population is empty)",
    "numbering": "mesh files are not written in pairs numbered 1..K without gaps",
    "count": "the number of file pairs is not within one of T/S + 1",
    "content": "a mesh file is not parseable or does not describe exactly the cells alive when it was written",
    "shape": "the statistics table is not one header followed by rows with as many fields as the header",
    "records": "statistics are not recorded at every 50th iteration and at the last one with one row per cell alive when recorded",
    "values": "a statistics row does not show the cell's values to the printed precision",
}
STATS_PERIOD = 50          # the property's own numbers (NOT read from the generated file: the oracle is independent)
CHECKED = ["cell_id", "type_id", "area", "volume", "target_volume", "pressure"]


# ---------------------------------------------------------------- cases
def mk(T, dt, S, mesh="cube", n=1, instr=0, phys=1, g=0.0, minv=0.0, divv=1e30, gap=5.0, sched="", tag=""):
    return {"T": float(T), "dt": float(dt), "S": float(S), "mesh": mesh, "n": n, "instr": instr, "phys": phys, "g": g,
            "minv": minv, "divv": divv, "gap": gap, "sched": sched, "tag": tag}


CORPUS = [
    # the failure found while this check was built: dt = S = 1e-7, the accumulated time makes floor(t/S) jump from 83 to 85
    mk(90e-7, 1e-7, 1e-7, tag="corpus-gap-1e-7"),
    mk(2.0, 0.1, 0.1, phys=0, instr=1, tag="corpus-gap-0.1"),
    # K = 1 although T/S + 1 = 2.5 (the real-valued reading of "within one" fails, the integer reading holds)
    mk(1.5, 0.9, 1.0, phys=0, tag="corpus-K-real-reading"),
    # the only cell is removed in iteration 3: the loop stops, the final record is empty
    mk(40e-7, 1e-7, 2.5e-7, sched="3:0:R", tag="corpus-empty"),
    # a removal in a recorded iteration (50): the row of the removed cell is still written; first of two cells removed
    mk(70e-7, 1e-7, 7.3e-7, n=2, sched="50:0:R", instr=1, tag="corpus-removed-in-recorded-iteration"),
    # division (iteration 5 is a divider iteration), then removal of a daughter
    mk(23e-7, 1e-7, math.pi * 1e-7, mesh="ico1", n=1, sched="5:0:D,12:1:R", tag="corpus-division"),
    # division at 50 (recorded, divider iteration), later both daughters removed in the same iteration: empty population
    mk(80e-7, 1e-7, 1.5e-7, mesh="ico1", n=1, sched="50:0:D,57:0:R,57:1:R", instr=1, tag="corpus-division-extinction"),
]

RATIOS = [1.0, 1.0, 1.5, 2.0, math.pi, 7.3, 50.0001, 10.0, 1.0000000001, 3.0, 25.0]
NICE_DT = [0.1, 0.01, 0.3, 1e-3, 0.7, 1.0, 2.5e-4, 0.05]


def gen_case(r, tier):
    phys = 1 if r.randint(0, 9) < 6 else 0
    if phys:
        dt = 1e-7 if r.randint(0, 2) == 0 else 1e-7 * r.uniform(0.5, 1.5)
    else:
        dt = r.choice(NICE_DT) if r.randint(0, 1) else 10.0 ** r.uniform(-9, 2)
    ratio = r.choice(RATIOS) if r.randint(0, 3) else r.uniform(1.0, 60.0)
    S = dt * ratio
    if S < dt:          # rounding of the product: the property is quantified over S >= dt
        S = dt
    nmax = 200 if tier == "quick" else 400
    niter = r.choice([1, 2, 3, 7, 49, 50, 51, 52, 100, 101]) if r.randint(0, 3) == 0 else r.randint(1, nmax)
    frac = r.choice([0.0, 0.0, 0.5, r.uniform(0.01, 0.99)])
    T = dt * (niter - 1 + (frac if frac > 0 else 1.0))
    mesh = "ico1" if (phys and r.randint(0, 2) == 0) else "cube"
    n = r.choice([1, 1, 2, 2, 3])
    sched = []
    nev = r.choice([0, 0, 1, 1, 2, 3]) if n > 1 or mesh == "ico1" else r.choice([0, 0, 0, 1])
    for _ in range(nev):
        it = r.choice([0, 1, 49, 50, 51, 5, 10, 100, r.randint(0, max(0, niter - 1))])
        if it >= niter:
            it = r.randint(0, max(0, niter - 1))
        if mesh == "ico1" and r.randint(0, 2) > 0:
            sched.append("%d:%d:D" % (it - it % 5 if r.randint(0, 3) else it, r.randint(0, 3)))     # mostly in a divider iteration
        else:
            sched.append("%d:%d:R" % (it, r.randint(0, 3)))
    if r.randint(0, 12) == 0:      # the whole population disappears in one iteration
        it = r.randint(0, max(0, niter - 1))
        sched += ["%d:%d:R" % (it, p) for p in range(2 * (n + nev) + 1)]
    g = r.choice([0.0, 0.0, 0.4, -0.3, 1.0])
    if mesh == "ico1" and g < 0:
        g = 0.0          # shrinking daughters of the small icosphere fall below the mesh resolution: the solver stops with "unstable"
    minv = r.choice([0.0] * 9 + [0.999, 0.98]) if phys else 0.0
    gap = r.choice([5.0, 5.0, 0.15])
    return mk(T, dt, S, mesh=mesh, n=n, instr=r.randint(0, 1), phys=phys, g=g, minv=minv, gap=gap, sched=",".join(sched), tag="gen")


def request_line(c, out):
    cap = int(min(5000, math.ceil(c["T"] / c["dt"]) + 5))
    return ("run out=%s T=%s dt=%s S=%s mesh=%s n=%d gap=%r instr=%d phys=%d g=%r minv=%r divv=%r sched=%s maxit=%d"
            % (out, fhex(c["T"]), fhex(c["dt"]), fhex(c["S"]), c["mesh"], c["n"], c["gap"], c["instr"], c["phys"], c["g"], c["minv"],
               c["divv"], c["sched"], cap))


# ---------------------------------------------------------------- running the harness
def run_harness(exe, lines):
    """returns one list of answer lines per request (None when the process died on it), crash info list"""
    out = [None] * len(lines)
    crashes = []
    i = 0
    while i < len(lines):
        ans, rc, err = vlib.run_lines(exe, lines[i:], timeout=900)
        cur, k = [], i
        for l in ans:
            cur.append(l)
            if l.startswith("done ") or l.startswith("rd"):
                if k < len(lines):
                    out[k] = cur
                cur, k = [], k + 1
        if k >= len(lines):
            break
        crashes.append({"index": k, "rc": rc, "stderr": err[-1500:], "partial": cur[-5:]})
        out[k] = None
        i = k + 1
    return out, crashes


def ids_at(w, j):
    n = int(w[j])
    return [int(x) for x in w[j + 1:j + 1 + n]], j + 1 + n


def parse_obs(ans):
    o = {"its": [], "recs": [], "slines": [], "end": None, "status": None, "init": None}
    for l in ans:
        w = l.split()
        if not w:
            continue
        if w[0] == "init":
            ids, _ = ids_at(w, 3)
            o["init"] = {"v0": unhex(w[1]), "counter": int(w[2]), "ids": ids}
        elif w[0] == "it":
            k, tb, ta, fn, ctr = int(w[1]), w[2], w[3], int(w[4]), int(w[5])
            j = 7
            a, j = ids_at(w, j)
            j += 1
            if w[j] == "?":
                m, j = None, j + 1
            else:
                m, j = ids_at(w, j)
            j += 1
            e, j = ids_at(w, j)
            o["its"].append({"k": k, "tb": tb, "ta": ta, "fn": fn, "ctr": ctr, "A": a, "M": m if m is not None else a, "E": e})
        elif w[0] == "rec":
            n = int(w[3])
            cells = []
            for q in range(n):
                b = 4 + 6 * q
                cells.append({"id": int(w[b]), "type": int(w[b + 1]), "area": unhex(w[b + 2]), "volume": unhex(w[b + 3]),
                              "target_volume": unhex(w[b + 4]), "pressure": unhex(w[b + 5])})
            o["recs"].append({"it": int(w[1]), "t": w[2], "cells": cells})
        elif w[0] == "sline":
            o["slines"].append(l[6:] if len(l) > 6 else "")
        elif w[0] == "end":
            ids, _ = ids_at(w, 4)
            o["end"] = {"N": int(w[1]), "t": w[2], "fn": int(w[3]), "ids": ids}
        elif w[0] == "done":
            o["status"] = " ".join(w[1:])
    return o


# ---------------------------------------------------------------- VTK files (independent reader)
class VtkError(Exception):
    pass


def parse_vtk(path):
    txt = open(path).read()
    lines = txt.split("\n")
    if lines[:4] != ["# vtk DataFile Version 4.2", "vtk output", "ASCII", "DATASET UNSTRUCTURED_GRID"]:
        raise VtkError("header lines")
    tk = " ".join(lines[4:]).split()
    p = [0]

    def nxt():
        if p[0] >= len(tk):
            raise VtkError("unexpected end of file")
        p[0] += 1
        return tk[p[0] - 1]

    def expect(w):
        t = nxt()
        if t != w:
            raise VtkError("expected %s, found %s" % (w, t))

    def integer():
        t = nxt()
        if not re.fullmatch(r"-?\d+", t):
            raise VtkError("not an integer: %s" % t)
        return int(t)

    def number():
        t = nxt()
        try:
            v = float(t)
        except ValueError:
            raise VtkError("not a number: %s" % t)
        if math.isnan(v) or math.isinf(v):
            raise VtkError("non-finite number")
        return v

    def arrays(ntuples_expected):
        expect("FIELD"); expect("FieldData")
        m = integer()
        arr = {}
        for _ in range(m):
            name = nxt(); nc = integer(); nt = integer(); ty = nxt()
            if nt != ntuples_expected:
                raise VtkError("array %s has %d tuples for %d entities" % (name, nt, ntuples_expected))
            arr[name] = [nxt() for _ in range(nc * nt)]
        return arr

    r = {}
    expect("POINTS"); npts = integer(); nxt()
    r["points"] = [number() for _ in range(3 * npts)]
    expect("CELLS"); nc = integer(); nints = integer()
    cells, used = [], 0
    for _ in range(nc):
        size = integer()
        body = [integer() for _ in range(size)]
        used += size + 1
        cells.append(body)
    if used != nints:
        raise VtkError("CELLS announces %d integers, contains %d" % (nints, used))
    expect("CELL_TYPES")
    if integer() != nc:
        raise VtkError("CELL_TYPES count")
    r["types"] = [integer() for _ in range(nc)]
    r["cells"] = cells
    r["npts"] = npts
    r["cell_data"] = {}
    r["point_data"] = {}
    while p[0] < len(tk):
        sec = nxt()
        if sec == "CELL_DATA":
            if integer() != nc:
                raise VtkError("CELL_DATA count")
            r["cell_data"] = arrays(nc)
        elif sec == "POINT_DATA":
            if integer() != npts:
                raise VtkError("POINT_DATA count")
            r["point_data"] = arrays(npts)
        else:
            raise VtkError("unexpected section %s" % sec)
    return r


def check_cell_file(path, alive):
    v = parse_vtk(path)
    if len(v["cells"]) != len(alive):
        return "describes %d cells, %d were alive %r" % (len(v["cells"]), len(alive), alive), v
    for body in v["cells"]:
        if not body:
            return "empty cell record", v
        nf, q = body[0], 1
        for _ in range(nf):
            if q >= len(body):
                return "truncated polyhedron", v
            m = body[q]
            idx = body[q + 1:q + 1 + m]
            if len(idx) != m or any(i < 0 or i >= v["npts"] for i in idx):
                return "face refers to a point that does not exist", v
            q += 1 + m
        if q != len(body):
            return "polyhedron record length", v
    if any(t != 42 for t in v["types"]):
        return "cell type is not polyhedron", v
    ids = v["cell_data"].get("cell_id")
    if ids is None or [int(x) for x in ids] != list(alive):
        return "cell_id array %r, alive %r" % (ids, alive), v
    return None, v


def check_face_file(path, alive, cellv):
    v = parse_vtk(path)
    if v["npts"] != cellv["npts"]:
        return "face file has %d points, cell file %d" % (v["npts"], cellv["npts"])
    for body in v["cells"]:
        if len(body) != 3 or any(i < 0 or i >= v["npts"] for i in body):
            return "face record %r" % (body,)
    if any(t != 7 for t in v["types"]):
        return "face type is not polygon"
    nfaces = sum(b[0] for b in cellv["cells"])
    if len(v["cells"]) != nfaces:
        return "face file has %d faces, cell file %d" % (len(v["cells"]), nfaces)
    fid = v["cell_data"].get("face_cell_id")
    if fid is None:
        return "no face_cell_id array"
    seq = []
    for x in fid:
        if not seq or seq[-1] != int(x):
            seq.append(int(x))
    if seq != list(alive):
        return "faces belong to cells %r, alive %r" % (seq, alive)
    return None


# ---------------------------------------------------------------- the oracle
def parse_table(lines):
    """-> (header fields, rows as lists of fields).  Every line ends with the separator: the empty last field is dropped"""
    if not lines:
        return None, []
    rows = []
    for l in lines:
        f = l.split(",")
        if f and f[-1] == "":
            f = f[:-1]
        rows.append(f)
    return rows[0], rows[1:]


def oracle(c, o, out, stats):
    """list of failure texts for one run (empty = the property holds on it)"""
    bad = []
    T, dt, S = Fr(c["T"]), Fr(c["dt"]), Fr(c["S"])
    if o["status"] != "ok" or o["end"] is None:
        return [("run", "run ended with status %r" % o["status"])]
    its, end = o["its"], o["end"]
    N = end["N"]
    # ---- iterations and time
    if [x["k"] for x in its] != list(range(N)):
        bad.append(("run", "iterations executed: %r..., final counter %d" % ([x["k"] for x in its][:5], N)))
        return bad
    t = 0.0
    alive = list(o["init"]["ids"])
    for x in its:
        if unhex(x["tb"]) != t:
            bad.append(("time", "iteration %d starts at time %r, expected %r" % (x["k"], unhex(x["tb"]), t))); break
        if unhex(x["ta"]) != t + c["dt"]:
            bad.append(("time", "iteration %d: time advanced from %r to %r, time step %r" % (x["k"], t, unhex(x["ta"]), c["dt"]))); break
        if not (t < c["T"]) or not alive:
            bad.append(("time", "iteration %d executed at time %r with %d cells (duration %r)" % (x["k"], t, len(alive), c["T"]))); break
        if x["A"] != alive:
            bad.append(("run", "iteration %d starts with cells %r, previous one ended with %r" % (x["k"], x["A"], alive))); break
        t, alive = unhex(x["ta"]), x["E"]
    if unhex(end["t"]) != t or end["ids"] != alive:
        bad.append(("time", "final state (t=%r, cells %r) is not the state after the last iteration (t=%r, %r)" % (unhex(end["t"]), end["ids"], t, alive)))
    if t < c["T"] and alive:
        bad.append(("time", "run stopped at time %r < duration %r with %d cells alive" % (t, c["T"], len(alive))))
    ended_by_time = bool(alive) or (its and not (unhex(its[-1]["ta"]) < c["T"]))
    # ---- files
    K = end["fn"]
    listing = {}
    for sub in ("cell_data", "face_data"):
        d = os.path.join(out, sub)
        names = sorted(os.listdir(d)) if os.path.isdir(d) else None
        listing[sub] = names
        want = sorted("result_%d.vtk" % i for i in range(1, K + 1))
        if names != want:
            nums = sorted(int(m.group(1)) for m in (re.fullmatch(r"result_(\d+)\.vtk", x) for x in (names or [])) if m)
            missing = sorted(set(range(1, (max(nums) if nums else 0) + 1)) - set(nums))
            bad.append(("numbering", "%s holds files numbered %s (last number %d): missing %r, unexpected %r"
                       % (sub, _ranges(nums), K, missing[:6], [x for x in (names or []) if x not in want][:4])))
    if its and N >= 1:
        Fl = math.floor(T / S)
        if ended_by_time and abs(K - (Fl + 1)) > 1:
            bad.append(("count", "%d file pairs for T/S = %.6g (floor(T/S)+1 = %d)" % (K, float(T / S), Fl + 1)))
    written = {}          # file number -> (iteration, cells at its start)
    prev = 0
    for x in its:
        for nb in range(prev + 1, x["fn"] + 1):
            written[nb] = (x["k"], x["A"])
        if x["fn"] < prev:
            bad.append(("numbering", "file number decreased at iteration %d" % x["k"]))
        prev = max(prev, x["fn"])
    stats["files"] += len(written)
    nparsed = 0
    for nb, (k, a) in sorted(written.items()):
        cp = os.path.join(out, "cell_data", "result_%d.vtk" % nb)
        fp = os.path.join(out, "face_data", "result_%d.vtk" % nb)
        if not (os.path.exists(cp) and os.path.exists(fp)):
            continue          # reported by the listing
        try:
            msg, cv = check_cell_file(cp, a)
            if msg:
                bad.append(("content", "cell_data/result_%d.vtk (written in iteration %d): %s" % (nb, k, msg)))
            else:
                msg = check_face_file(fp, a, cv)
                if msg:
                    bad.append(("content", "face_data/result_%d.vtk (written in iteration %d): %s" % (nb, k, msg)))
            nparsed += 2
        except VtkError as e:
            bad.append(("content", "result_%d.vtk is not parseable: %s" % (nb, e)))
        if len(bad) > 8:
            break
    stats["files_parsed"] += nparsed
    # ---- statistics
    if c["instr"]:
        lines = o["slines"]
        if os.path.exists(os.path.join(out, "simulation_statistics.csv")):
            pass
    else:
        p = os.path.join(out, "simulation_statistics.csv")
        if not os.path.exists(p):
            bad.append(("shape", "simulation_statistics.csv is missing"))
            return bad
        txt = open(p).read()
        if txt and not txt.endswith("\n"):
            bad.append(("shape", "statistics file does not end with a line end"))
        lines = txt.split("\n")[:-1]
    header, rows = parse_table(lines)
    if header is None:
        bad.append(("shape", "statistics table is empty (no header)"))
        return bad
    if any(r == header for r in rows):
        bad.append(("shape", "header line repeated"))
    col = {nm: i for i, nm in enumerate(header)}
    for need in ["iteration", "simulation_time"] + CHECKED:
        if need not in col:
            bad.append(("shape", "statistics header has no column %r: %r" % (need, header)))
            return bad
    for r in rows:
        if len(r) != len(header):
            bad.append(("shape", "a row has %d fields, the header %d: %r" % (len(r), len(header), ",".join(r)[:120])))
            return bad
    expect_recs = [k for k in range(N) if k % STATS_PERIOD == 0] + [N]
    mids = {x["k"]: x["M"] for x in its}
    exp_cells = [mids[k] for k in expect_recs[:-1]] + [end["ids"]]
    # the rows, grouped by record with the logged write_data calls
    recs = o["recs"]
    if [r["it"] for r in recs] != expect_recs:
        bad.append(("records", "statistics recorded at iterations %r, expected %r" % ([r["it"] for r in recs][:12], expect_recs[:12])))
    pos = 0
    for ri, k in enumerate(expect_recs):
        want_ids = exp_cells[ri]
        grp = []
        while pos < len(rows) and rows[pos][col["iteration"]] == str(k) and len(grp) < len(want_ids):
            grp.append(rows[pos]); pos += 1
        got_ids = [g[col["cell_id"]] for g in grp]
        if got_ids != [str(i) for i in want_ids]:
            nxt_rows = [r[col["iteration"]] + ":" + r[col["cell_id"]] for r in rows[pos:pos + 4]]
            bad.append(("records", "record of iteration %d has rows for cells %r, alive when recorded: %r (next rows %r)" % (k, got_ids, want_ids, nxt_rows)))
            break
        stats["rows"] += len(grp)
        rec = recs[ri] if ri < len(recs) and recs[ri]["it"] == k else None
        if rec is None:
            continue
        if [q["id"] for q in rec["cells"]] != want_ids:
            bad.append(("records", "write_data of iteration %d received cells %r, alive when recorded: %r" % (k, [q["id"] for q in rec["cells"]], want_ids)))
            break
        for g, q in zip(grp, rec["cells"]):
            if g[col["simulation_time"]] != "%.2e" % unhex(rec["t"]):
                bad.append(("values", "iteration %d: time column %s, simulation time %r" % (k, g[col["simulation_time"]], unhex(rec["t"]))))
            if g[col["type_id"]] != str(q["type"]):
                bad.append(("values", "iteration %d cell %d: type column %s, cell type %d" % (k, q["id"], g[col["type_id"]], q["type"])))
            for nm in ("area", "volume", "target_volume", "pressure"):
                if g[col[nm]] != "%.3e" % q[nm]:
                    bad.append(("values", "iteration %d cell %d: column %s = %s, the cell says %r (%s)" % (k, q["id"], nm, g[col[nm]], q[nm], "%.3e" % q[nm])))
            stats["values"] += 7
        if len(bad) > 8:
            break
    else:
        if pos != len(rows):
            bad.append(("records", "%d unexpected extra rows, first: %r" % (len(rows) - pos, ",".join(rows[pos])[:100])))
    return bad


def _ranges(nums):
    if not nums:
        return "(none)"
    out, a, b = [], nums[0], nums[0]
    for x in nums[1:]:
        if x == b + 1:
            b = x
        else:
            out.append((a, b)); a = b = x
    out.append((a, b))
    return ",".join("%d-%d" % r if r[0] != r[1] else "%d" % r[0] for r in out)


# ---------------------------------------------------------------- the model
def model_line(c, o):
    its = o["its"]
    w = ["run", fhex(c["T"]), fhex(c["dt"]), fhex(c["S"]), str(len(its) + 8)]
    w += [str(len(o["init"]["ids"]))] + [str(i) for i in o["init"]["ids"]]
    w.append(str(len(its)))
    for x in its:
        dead = [i for i in x["M"] if i not in x["E"]]
        w += [str(len(x["M"]))] + [str(i) for i in x["M"]] + [str(len(dead))] + [str(i) for i in dead]
    return " ".join(w)


def model_compare(c, o, ans):
    """differences between the model's answer and the observed run"""
    if ans is None or not ans or ans[0] == "bad-op":
        return ["model driver rejected the request"]
    diff = []
    mit = [l.split() for l in ans if l.startswith("it ")]
    mfile = [l.split() for l in ans if l.startswith("file ")]
    mstat = [l.split() for l in ans if l.startswith("stat ")]
    mend = [l.split() for l in ans if l.startswith("end ")]
    its, end = o["its"], o["end"]
    if len(mit) != len(its):
        diff.append("model runs %d iterations, implementation %d" % (len(mit), len(its)))
    for m, x in zip(mit, its):
        e, _ = ids_at(m, 5)
        if int(m[1]) != x["k"] or m[2] != x["tb"] or m[3] != x["ta"] or int(m[4]) != x["fn"] or e != x["E"]:
            diff.append("iteration %d: model (tb %s ta %s file %s cells %r), implementation (tb %s ta %s file %d cells %r)"
                        % (x["k"], m[2], m[3], m[4], e, x["tb"], x["ta"], x["fn"], x["E"]))
            break
    obs_files, prev = [], 0
    for x in its:
        for nb in range(prev + 1, x["fn"] + 1):
            obs_files.append((x["k"], nb, x["A"]))
        prev = max(prev, x["fn"])
    mf = [(int(m[1]), int(m[2]), ids_at(m, 3)[0]) for m in mfile]
    if mf != obs_files:
        d = next((i for i, (a, b) in enumerate(zip(mf, obs_files)) if a != b), min(len(mf), len(obs_files)))
        diff.append("files (iteration, number, cells): model %r, implementation %r" % (mf[d:d + 2], obs_files[d:d + 2]))
    ms = [(int(m[1]), m[2], ids_at(m, 3)[0]) for m in mstat]
    os_ = [(r["it"], r["t"], [q["id"] for q in r["cells"]]) for r in o["recs"]]
    if ms != os_:
        d = next((i for i, (a, b) in enumerate(zip(ms, os_)) if a != b), min(len(ms), len(os_)))
        diff.append("statistics records (iteration, time, cells): model %r, implementation %r" % (ms[d:d + 2], os_[d:d + 2]))
    if not mend:
        diff.append("model gave no final state")
    elif end is not None:
        m = mend[0]
        e, _ = ids_at(m, 5)
        if int(m[1]) != end["N"] or m[2] != end["t"] or int(m[3]) != end["fn"] or m[4] != "1" or e != end["ids"]:
            diff.append("final state: model (N %s t %s file %s finished %s cells %r), implementation (N %d t %s file %d cells %r)"
                        % (m[1], m[2], m[3], m[4], e, end["N"], end["t"], end["fn"], end["ids"]))
    return diff


def split_done(lines):
    out, cur = [], []
    for l in lines:
        if l == "done":
            out.append(cur); cur = []
        else:
            cur.append(l)
    return out


# ---------------------------------------------------------------- evaluation of a set of cases
def evaluate(cases, exe, drv, V, tag):
    root = "/tmp/c19_%s_%d" % (tag, os.getpid())
    shutil.rmtree(root, ignore_errors=True)
    os.makedirs(root)
    outs = [os.path.join(root, "r%d" % i) for i in range(len(cases))]
    # every third output folder already exists and holds what a previous (longer) run left there — with or without its statistics
    # file (a run with in-memory statistics writes none): the files of THIS run must still be exactly the pairs 1..K
    stale_dirs = 0
    for i, o in enumerate(outs):
        if i % 3 == 1:
            stale_dirs += 1
            for sub in ("cell_data", "face_data"):
                os.makedirs(os.path.join(o, sub), exist_ok=True)
                for k in (1, 2, 3, 40, 41):
                    open(os.path.join(o, sub, "result_%d.vtk" % k), "w").write("# stale file of a previous run\n")
            if i % 6 == 4:
                open(os.path.join(o, "simulation_statistics.csv"), "w").write("stale\n")
    lines = [request_line(c, o) for c, o in zip(cases, outs)]
    st = {"stale_dirs": stale_dirs, "files": 0, "files_parsed": 0, "rows": 0, "values": 0, "iterations": 0, "runs_ok": 0, "oracle_failures": 0,
          "model_disagreements": 0, "crashes": 0, "unstable": 0, "reread": 0, "events": {"division": 0, "removal": 0, "empty": 0, "growth": 0},
          "ratio_classes": {}, "distinct": set(), "samples": []}
    try:
        answers, crashes = run_harness(exe, lines)
        obs = [parse_obs(a) if a is not None else None for a in answers]
        for cr in crashes:
            st["crashes"] += 1
            V.fail_input("real solver::run ended abnormally (rc=%s): %s" % (cr["rc"], cr["stderr"][-500:].replace("\n", " | ")),
                         {"line": lines[cr["index"]], "case": cases[cr["index"]]}, key=None)
        mlines, midx = [], []
        for i, o in enumerate(obs):
            if o is not None and o["status"] == "ok" and o["end"] is not None and o["init"] is not None:
                mlines.append(model_line(cases[i], o)); midx.append(i)
        model = {}
        if drv and mlines:
            mans, rc2, err2 = vlib.run_lines(drv, mlines, timeout=1200)
            blocks = split_done(mans)
            if rc2 != 0 or len(blocks) != len(mlines):
                V.fail_tie("correspondence", "model driver ended abnormally (rc=%s) %s" % (rc2, err2[-300:]))
            else:
                model = dict(zip(midx, blocks))
        # re-read a sample of the written cell files with the real mesh_reader
        reread = []
        for i, o in enumerate(obs):
            if o is None or o["end"] is None:
                continue
            prev = 0
            for x in o["its"]:
                if x["fn"] > prev and (x["fn"] <= 3 or x["fn"] % 7 == 0 or x is o["its"][-1]):
                    reread.append((i, x["fn"], len(x["A"])))
                prev = max(prev, x["fn"])
        reread = reread[:4000]
        if reread:
            ra, rcr = run_harness(exe, ["read %s" % os.path.join(outs[i], "cell_data", "result_%d.vtk" % nb) for i, nb, _ in reread])
            for (i, nb, na), a in zip(reread, ra):
                st["reread"] += 1
                if a is None or not a or not a[0].startswith("rd "):
                    if os.path.exists(os.path.join(outs[i], "cell_data", "result_%d.vtk" % nb)):
                        V.fail_input("the real mesh_reader cannot read back cell_data/result_%d.vtk: %s" % (nb, (a or ["crash"])[0][:200]),
                                     {"line": lines[i], "case": cases[i]}, key=None)
                elif int(a[0].split()[1]) != na:
                    V.fail_input("cell_data/result_%d.vtk read back by the real mesh_reader holds %s cells, %d were alive" % (nb, a[0].split()[1], na),
                                 {"line": lines[i], "case": cases[i]}, key=None)
        fails = []
        for i, (c, o) in enumerate(zip(cases, obs)):
            if o is None:
                continue
            if o["status"] != "ok":
                if "The simulation is unstable" in o["status"]:
                    st["unstable"] += 1          # the solver's own verdict on the mechanics of this parameter set: not a run of the property
                else:
                    V.fail_input("real solver::run did not complete: %s" % o["status"], {"line": lines[i], "case": c}, key=None)
                continue
            st["runs_ok"] += 1
            st["iterations"] += len(o["its"])
            bad = oracle(c, o, outs[i], st)
            ratio = c["S"] / c["dt"]
            cls = "1" if ratio == 1.0 else ("integer" if ratio == int(ratio) else "non-integer")
            st["ratio_classes"][cls] = st["ratio_classes"].get(cls, 0) + 1
            ndiv = sum(1 for x in o["its"] if any(j not in x["A"] for j in x["M"]))
            nrem = sum(1 for x in o["its"] if len(x["E"]) < len(x["M"]))
            st["events"]["division"] += ndiv
            st["events"]["removal"] += nrem
            st["events"]["empty"] += 1 if (o["end"] and not o["end"]["ids"]) else 0
            st["events"]["growth"] += 1 if c["g"] != 0 else 0
            st["distinct"].add((cls, len(o["its"]), o["end"]["fn"] if o["end"] else -1, ndiv, nrem, c["instr"], c["mesh"], c["n"]))
            if len(st["samples"]) < 3:
                st["samples"].append({"line": lines[i], "iterations": len(o["its"]), "file_pairs": o["end"]["fn"] if o["end"] else None,
                                      "records": [r["it"] for r in o["recs"]][:6], "final_cells": o["end"]["ids"] if o["end"] else None})
            if bad:
                st["oracle_failures"] += 1
                fails.append((len(o["its"]), i, bad))
            if i in model:
                d = model_compare(c, o, model[i])
                if d:
                    st["model_disagreements"] += 1
                    if st["model_disagreements"] <= 3:
                        V.fail_tie("correspondence", "model and implementation differ on `%s`: %s" % (lines[i], d[0]), case=c, all=d[:4])
        if st["unstable"] > max(2, len(cases) // 30):
            V.fail_tie("correspondence", "%d of %d runs were stopped by the solver as unstable: the generated parameter sets no longer exercise the property" % (st["unstable"], len(cases)))
        # one report per kind of failure, on the shortest run that shows it
        for _, i, bad in sorted(fails, key=lambda f: (f[0], f[1])):
            cls, detail = bad[0]
            gap = cls == "numbering" and "missing []" not in detail and cases[i]["S"] == cases[i]["dt"]
            V.fail_input(CLASS_TEXT[cls], {"line": lines[i], "case": cases[i], "detail": detail, "all": [d for _, d in bad[:6]]},
                         key=KEY_GAP if gap else None)
    finally:
        shutil.rmtree(root, ignore_errors=True)
    st["distinct"] = len(st["distinct"])
    return st


def run(ctx):
    tier, seed = ctx["tier"], ctx["seed"]
    t0 = time.time()
    V = vlib.Verdict(PID)
    gen = vlib.translate.run(GEN)
    proof = vlib.prove(PID, THEOREMS, NAMESPACE, extra_targets=("drv_c19",))
    for f in proof["failures"]:
        V.fail_tie("proof", "%s: %s" % (f["theorem"], f["reason"]), errors=proof["errors"][:5])
    if tier == "thorough" and proof["ok"]:
        ok, log = vlib.leanchecker("SimuVerif.Properties.C19")
        if not ok:
            V.fail_tie("proof", "leanchecker rejected SimuVerif.Properties.C19", log=log)
    exe, rebuilt = vlib.build_repo.build_harness(HARNESS, "h_run")
    drv = vlib.driver_path("drv_c19")
    if not os.path.exists(drv) or (gen.get("Schedule", {}).get("error")):
        V.fail_tie("correspondence", "model driver missing (lake build failed)")
        drv = None
    n = 120 if tier == "quick" else 1200
    if not proof["ok"]:
        n = max(n, 120)          # a proof broke: widen the search for a concrete failing input
    r = Rng(seed)
    cases = list(CORPUS) + [gen_case(r, tier) for _ in range(n)]
    st = evaluate(cases, exe, drv, V, "run")
    rcode, nviol = V.finish()
    cov = {
        "obligations": proof["obligations"], "discharged": proof["discharged"],
        "checker_cmd": "lake build SimuVerif.Properties.C19 SimuVerif.Audit.C19 drv_c19 (+ lake env leanchecker in the thorough tier)",
        "trusted_base": vlib.TRUSTED_COMMON + [
            "tools/gen/c19_schedule.py (pattern extraction of the schedule-relevant statements; unrecognised shapes stop the check)",
            "the physics of an iteration is abstracted to its effect on the cell list (history = observed lists); "
            "harness observation points: virtual run_iteration() override, first virtual update_face_types() call, forwarding statistics writer",
            "Python reading of the VTK/CSV text and of printf formatting (%.3e / %.2e of a double)"],
        "theorems": proof["axioms"], "proof_failures": proof["failures"], "translator": gen,
        "evaluations": st["runs_ok"], "distinct_nontrivial": st["distinct"],
        "output_folders_with_stale_files_of_a_previous_run": st["stale_dirs"],
        "rule": "seeded runs of the real solver::run: S/dt in {1, 1.5, 2, 3, pi, 7.3, 10, 25, 50.0001, 1+1e-10, uniform[1,60]}, dt physical (1e-7 scale, real forces) "
                "or arbitrary (1e-9..1e2, decimal fractions, inert cells), 1..%d iterations with T/dt integer / half-integer / random, 1-3 cells (cube, icosphere), "
                "forced removals / divisions at first, last, recorded (0, 50, 100) and random iterations, whole population removed, growth, natural shrinking below the "
                "minimum volume, file and in-memory statistics + corpus; distinct = distinct (ratio class, iterations, file pairs, divisions, removals, writer, mesh, cells)"
                % (200 if tier == "quick" else 400),
        "iterations_executed": st["iterations"], "file_pairs_written": st["files"], "vtk_files_parsed": st["files_parsed"],
        "files_reread_by_real_reader": st["reread"], "statistics_rows_checked": st["rows"], "values_compared": st["values"],
        "population_events": st["events"], "ratio_classes": st["ratio_classes"],
        "model_vs_impl_disagreements": st["model_disagreements"], "oracle_failures": st["oracle_failures"], "crashes": st["crashes"], "runs_stopped_as_unstable_by_the_solver": st["unstable"],
        "repo_objects_rebuilt": rebuilt, "samples": st["samples"],
    }
    vlib.write_evidence(PID, tier, "proof", cov, [
        "exact-arithmetic theorems (iterations, K bound, slot of each file) do not cover the rounding of the accumulated time; "
        "contiguity, recorded iterations, rows per record hold for every scalar type (also Float)",
        "one OpenMP thread; default build configuration (contact model 1, dynamic model 0, polarization mode 1)",
        "iteration counter and file number below 2^32",
        "wall-clock column (computation time) only checked for its presence"], time.time() - t0, nviol)
    return rcode


def replay(ctx):
    """re-run the stored failing input on the current implementation"""
    rp = ctx["replay"]
    fi = rp.get("failing_input", {}).get("input", {})
    case = fi.get("case")
    if not case:
        for b in rp.get("no_longer_checks", []):
            case = b.get("case") or case
    if not case:
        print("replay file names no input: %s" % json.dumps(rp.get("no_longer_checks", rp))[:2000])
        return 1
    exe, _ = vlib.build_repo.build_harness(HARNESS, "h_run")
    drv = vlib.driver_path("drv_c19")
    V = vlib.Verdict(PID)
    st = evaluate([case], exe, drv if os.path.exists(drv) else None, V, "replay")
    print("case:", json.dumps(case))
    print("iterations %d, file pairs %d, rows %d" % (st["iterations"], st["files"], st["rows"]))
    for c in V.concrete:
        print("FAILS:", c["what"])
        for a in c["input"].get("all", []):
            print("      ", a)
    for b in V.broken:
        print("MODEL:", b["what"])
    if V.concrete or V.broken:
        print("VIOLATION property=C19 replay=%s" % ctx.get("replay_path", "-"))
        return 1
    print("property holds on this input now")
    return 0
