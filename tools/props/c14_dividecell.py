"""C14 — the WHOLE `cell_divider::divide_cell` inside the assembled tissue model (lean/SimuVerif/Model/TissueD2.lean, command `tissued2` of drv_c14)
against the real `solver::run_iteration`, in runs with several generations of divisions.

  run_dividecell(V, tier, seed, stats)  correspondence: the scenarios of c14_population.run_division.  REAL solver through harness/h_solver.cpp in mode
                                        `d2slots` (1 thread, every iteration dumped; the list right after `cell_divider::run` in every iteration with an
                                        attempt; per `divide_cell` call the division axis the code used, `compute_centroid()` of the rebased mother and the
                                        interface triangulation `D` = the 2-D Poisson points + the Delaunay triangles kept, in the plane frame).  The model
                                        is started from snapshot 0 and gets ONLY the axes and the `D`s: it computes the daughters itself (rebase, centroid,
                                        cut, divide_faces, coarse triangulation, map to the plane, `D`, map back, create_daughter_cells incl.
                                        initialize_cell_properties with the flood fill, refine_mesh x2, halved target volumes, rebase x2).  Every token of
                                        every end-of-iteration snapshot and of every list right after the divider — i.e. every double of the daughters as
                                        `divide_cell` returned them — is compared, MAX_ULPS = 0; the centroid the model cuts through is compared with the
                                        one of the code.  `stepOkTD2` (incl. `divOkM` of every division) must hold on every compared iteration.
                                        oracle on the real dumps (independent of the model): as in run_division + the recorded `D` triangulates the
                                        interface consistently (every triangle names recorded points).
  prove_dividecell()                    re-checks Properties/C14DivideCell.lean (THEOREMS_DIVIDECELL) and rebuilds drv_c14
  replay(ctx)
"""
import os, re, time, json
import vlib
import scenarios as SC
import c14_remesh as CRM
import c14_tissue_remesh as CTR
import c14_population as CPOP

DRIVER = "drv_c14"
PROOF_PID = "C14DivideCell"
NAMESPACE = "Simu.C14"
THEOREMS_DIVIDECELL = [
    "centroidM_translate", "faceSide_tr", "sideOf_tr", "daughterFaces_translate", "interfaceStage_translate", "cutAndTriangulate_translate",
    "initDaughterCell_translate", "refineDaughter_translate", "divideRebased_translate", "divideCellM_translate", "eventsGo_translate", "eventsD2_translate",
    "tissueIterationD2_eq", "tissueIterationD2_translate", "tissueRunD2_translate", "divideCellM_target_halved", "divideCellM_none_of_no_interface",
    "tetQ_motherOk", "tetQ_cut", "tetQ_daughters_init"]
MAX_ULPS = 0


def split_da(out):
    """(text without the `DA` / `DD` lines, {iteration: [{id, lid, axis[3], centroid[3], D: None | (pts[(x, y)], tris[(a, b, c)]), exc}]})"""
    main, calls, last = [], {}, None
    for line in out.splitlines():
        w = line.split()
        if w and w[0] == "DA":
            last = {"iter": int(w[1]), "id": int(w[2]), "lid": int(w[3]), "axis": w[4:7], "centroid": w[7:10], "D": None, "exc": None}
            calls.setdefault(last["iter"], []).append(last)
            continue
        if w and w[0] == "DD":
            if last is None:
                continue
            if w[1] == "none":
                last["exc"] = w[2] if len(w) > 2 else "?"
            else:
                np_ = int(w[1])
                pts = [(w[2 + 2 * i], w[3 + 2 * i]) for i in range(np_)]
                k = 2 + 2 * np_
                nt = int(w[k])
                ids = [int(x) for x in w[k + 1:k + 1 + 3 * nt]]
                last["D"] = (pts, [tuple(ids[3 * i:3 * i + 3]) for i in range(nt)])
            continue
        main.append(line)
    return "\n".join(main), calls


def request_line_d2(num, blocks, sampling, swap, snaps, calls, n):
    w = CPOP.request_line(num, blocks, sampling, swap, snaps[0], n, 1).split()
    w[0] = "tissued2"
    w += ["DIN", str(len(calls))]
    for it in sorted(calls):
        w += ["DI", str(it), str(len(calls[it]))]
        for c in calls[it]:
            w += list(c["axis"])
            if c["D"] is None:
                w.append("0")
            else:
                pts, tris = c["D"]
                w += ["1", str(len(pts))] + [x for p in pts for x in p] + [str(len(tris))] + [str(x) for t in tris for x in t]
    return " ".join(w)


def correspond_dividecell(name, cells, lmin, num_ov, cell_ovs, iters, seed, stats, V):
    args = {"scenario": name, "cells": [[c[0], c[1], list(c[2]), list(c[3]), c[4]] for c in cells], "lmin": lmin, "overrides": num_ov, "cell_overrides": cell_ovs,
            "iterations": iters, "seed": seed, "part": "correspondence", "stage": "dividecell"}
    with SC.Workdir() as wd:
        params = CPOP.write_case(wd, cells, lmin, num_ov, cell_ovs)
        xml = open(params).read()
        exe, _ = SC.build("asan")
        rr = SC.run(exe, params, iters, 1, 1, mode="d2slots", timeout=2400)
    what, key = SC.classify(rr["rc"], rr["err"])
    if what:
        V.fail_input("%s [tissue with divide_cell, scenario %s]" % (what, name), args, key=key)
        return None
    text0, calls = split_da(rr["out"])
    text, ds = CPOP.split_ds(text0)
    real, rexc = CPOP.parse_pslots(text)
    if not real or "I" not in real[0]:
        V.fail_tie("correspondence", "tissue with divide_cell, scenario %s: no snapshot in mode `d2slots` (%s)" % (name, rr["out"][-200:]))
        return None
    num, blocks = CPOP.read_consts_blocks(xml)
    sampling = float(re.search(r"<sampling_period>([^<]*)<", xml).group(1))
    swap = re.search(r"<enable_edge_swap_operation>([^<]*)<", xml).group(1).strip() not in ("0", "false")
    req = request_line_d2(num, blocks, sampling, swap, real, calls, iters)
    t1 = time.time()
    lines, rc, err = vlib.run_lines(vlib.driver_path(DRIVER), [req], timeout=3000)
    mwall = time.time() - t1
    if rc != 0 or not lines or lines[-1] != "END":
        V.fail_tie("correspondence", "tissue with divide_cell, scenario %s: model driver answered %r (rc %s) %s" % (name, lines[-1:] if lines else None, rc, err[-200:]))
        return None
    # run-time evaluation of the hypotheses of Properties/C14DivisionInvariants.lean, appended by the driver after ` # ` (stripped
    # here, before anything is compared): `dok <held> <not_met>` = `daughtersOkB` over the executed divisions of the iteration,
    # `cok0 <n_ok> <n_cells>` = `cellOkB` of the cells of the initial state.  A not-met is not a violation: the theorem does not apply.
    dok_held = dok_not = 0
    cok0 = None
    stripped = []
    for l in lines:
        if " # " in l:
            l, tail = l.split(" # ", 1)
            t = tail.split()
            if t[:1] == ["dok"] and len(t) >= 3:
                dok_held += int(t[1])
                dok_not += int(t[2])
            elif t[:1] == ["cok0"] and len(t) >= 3:
                cok0 = (int(t[1]), int(t[2]))
        stripped.append(l)
    lines = stripped
    mtext, mds = CPOP.split_ds("\n".join(l for l in lines if not l.startswith(("O ", "H ", "DC "))))
    model, mexc = CPOP.parse_pslots(mtext)
    dom, hyp, mcent = {}, {}, {}
    for l in lines:
        w = l.split()
        if l.startswith("O "):
            dom[int(w[1])] = {"ok": w[2] == "1", "ready": int(w[3]), "divisions": int(w[4]), "removed": int(w[5]), "splits": int(w[6]), "merges": int(w[7]),
                              "rebased": w[8] == "1", "insOk": w[9] == "1", "inputs": int(w[10])}
        elif l.startswith("H "):
            hyp[w[1]] = w[2] == "1"
        elif l.startswith("DC "):
            mcent.setdefault(int(w[1]), []).append((w[2:5], w[5] == "1"))
    dis, ncmp, worst, upto = [], 0, 0, 0
    for h in ("setup", "endPhases", "stageOrder"):
        if not hyp.get(h, False):
            dis.append({"iteration": -1, "field": "hypothesis `%s` of the theorems is false on this instance / the statement order of the source is not the modelled one" % h})
    if (rexc or None) != (mexc or None):
        dis.append({"iteration": real[-1]["iter"], "field": "exception that ends the run", "real": rexc, "model": mexc})
    for k, sr in enumerate(real):
        if dis:
            break
        if k >= len(model):
            dis.append({"iteration": sr["iter"], "field": "snapshot missing in the model answer (model exception: %s)" % mexc})
            break
        sm = model[k]
        if (sr["iter"], sr["J"], sr["ncells"], sr.get("I")) != (sm["iter"], sm["J"], sm["ncells"], sm.get("I")):
            dis.append({"iteration": sr["iter"], "field": "iteration counter / file number / cell count / max_cell_id_", "real": [sr["iter"], sr["J"], sr["ncells"], sr.get("I")],
                        "model": [sm["iter"], sm["J"], sm["ncells"], sm.get("I")]})
            break
        n0, w0 = CRM.compare_tokens([sr["time"]], [sm["time"]], "time", sr["iter"], dis)
        n1, w1 = CPOP.compare_cell_lists(sr["cells"], sm["cells"], "end of iteration", sr["iter"], dis)
        ncmp += n0 + n1
        worst = max(worst, w0, w1)
        upto = k
    # the list right after cell_divider::run: the daughters exactly as divide_cell returned them (the real harness prints it when
    # create_daughter_cells was reached, the model in every iteration with a divide_cell call)
    mds_by = {b["iter"]: b for b in mds}
    ndau = 0
    for br in ds:
        if dis:
            break
        bm = mds_by.get(br["iter"])
        if bm is None:
            dis.append({"iteration": br["iter"], "field": "list right after cell_divider::run missing in the model answer"})
            break
        if (br["J"], br["I"]) != (bm["J"], bm["I"]):
            dis.append({"iteration": br["iter"], "field": "after cell_divider::run: file number / max_cell_id_", "real": [br["J"], br["I"]], "model": [bm["J"], bm["I"]]})
        n1, w1 = CPOP.compare_cell_lists(br["cells"], bm["cells"], "list right after cell_divider::run (daughters as divide_cell returned them)", br["iter"], dis)
        ncmp += n1
        ndau += n1
        worst = max(worst, w1)
    # the centroid the plane passes through
    ncent = 0
    for it, cl in sorted(calls.items()):
        if dis:
            break
        mc = mcent.get(it, [])
        if len(mc) != len(cl):
            dis.append({"iteration": it, "field": "number of divide_cell calls (ready cells)", "real": len(cl), "model": len(mc)})
            break
        for c, (cm, mok) in zip(cl, mc):
            n1, w1 = CRM.compare_tokens(list(c["centroid"]), list(cm), "compute_centroid() of the rebased mother %d" % c["id"], it, dis)
            ncmp += n1
            ncent += n1
            worst = max(worst, w1)
    its = [real[k]["iter"] for k in range(upto)]
    bad = [i for i in its if i in dom and not dom[i]["ok"]]
    if bad and not dis:
        dis.append({"iteration": bad[0], "field": "model says the state is outside its domain (stepOkTD2 = false) although the real solver executes the iteration identically",
                    "real": "in domain", "model": json.dumps(dom[bad[0]])})
    for d in dis[:4]:
        V.fail_tie("correspondence", "assembled tissue iteration with divide_cell differs from the real solver: %s" % json.dumps(dict(args, **d), default=str)[:900])
    # oracle on the real dumps (independent of the model)
    for k in range(1, len(real)):
        a, b = real[k - 1], real[k]
        ida, idb = [int(c["C"][0]) for c in a["cells"]], [int(c["C"][0]) for c in b["cells"]]
        new = [i for i in idb if i not in ida]
        if [int(c["C"][1]) for c in b["cells"]] != list(range(len(idb))):
            V.fail_input("iteration %d: local ids are not the positions in the list" % b["iter"], args)
        if new and (sorted(new) != list(range(a["I"], b["I"])) or b["I"] - a["I"] != len(new) or len(new) % 2):
            V.fail_input("iteration %d: new cell ids %r, counter %d -> %d" % (b["iter"], new, a["I"], b["I"]), args)
    for blk in ds:
        prev = [s_ for s_ in real if s_["iter"] == blk["iter"]]
        if not prev:
            continue
        tv = {int(c["C"][0]): c["C"][7] for c in prev[0]["cells"]}
        gone = [i for i in tv if i not in [int(c["C"][0]) for c in blk["cells"]]]
        fresh = [c for c in blk["cells"] if int(c["C"][0]) >= prev[0]["I"]]
        for j, m in enumerate(gone):
            for c in fresh:
                if int(c["C"][0]) in (prev[0]["I"] + 2 * j, prev[0]["I"] + 2 * j + 1) and vlib.unhex(c["C"][7]) != vlib.unhex(tv[m]) / 2:
                    V.fail_input("iteration %d: daughter %s of cell %d has target volume %r, the mother had %r" % (blk["iter"], c["C"][0], m, vlib.unhex(c["C"][7]), vlib.unhex(tv[m])), args)
    npts = ntris = nfail = 0
    for it, cl in calls.items():
        for c in cl:
            if c["D"] is None:
                nfail += 1
                continue
            npts += len(c["D"][0])
            ntris += len(c["D"][1])
    D = [dom[i] for i in its if i in dom]
    sc = {"name": name, "cells_start": real[0]["ncells"], "cells_end": real[upto]["ncells"], "ids_end": [int(c["C"][0]) for c in real[upto]["cells"]], "iterations_compared": upto,
          "divide_cell_calls": sum(len(v) for v in calls.values()), "interface_failed_in_real_run": nfail, "poisson_points": npts, "interface_triangles": ntris,
          "divisions": sum(d["divisions"] for d in D), "ready_cells": sum(d["ready"] for d in D), "failed_divisions": sum(d["ready"] - d["divisions"] for d in D),
          "division_iterations": [i for i in its if i in dom and dom[i]["divisions"]], "removals": sum(d["removed"] for d in D), "splits": sum(d["splits"] for d in D),
          "collapses": sum(d["merges"] for d in D), "rebases": sum(1 for d in D if d["rebased"]), "stepOk_false": bad[:5], "insOk_false": [i for i in its if i in dom and not dom[i]["insOk"]][:5],
          "daughters_cellok_held": dok_held, "daughters_cellok_not_met": dok_not, "initial_cells_cellok": list(cok0) if cok0 else None,
          "real_exception": rexc, "doubles": ncmp, "doubles_of_lists_after_divider": ndau, "centroid_doubles": ncent, "worst_ulps": worst, "real_wall": round(rr["wall"], 2), "model_wall": round(mwall, 2)}
    stats["scenarios"].append(sc)
    for key in ("divisions", "failed_divisions", "removals", "splits", "collapses", "rebases", "divide_cell_calls", "poisson_points", "interface_triangles"):
        stats[key] = stats.get(key, 0) + sc[key]
    stats["division_daughters_cellok_held"] = stats.get("division_daughters_cellok_held", 0) + dok_held
    stats["division_daughters_cellok_not_met"] = stats.get("division_daughters_cellok_not_met", 0) + dok_not
    ic = stats.get("initial_cells_cellok", [0, 0])
    stats["initial_cells_cellok"] = [ic[0] + (cok0[0] if cok0 else 0), ic[1] + (cok0[1] if cok0 else 0)]
    stats["second_generation_divisions"] = stats.get("second_generation_divisions", 0) + (1 if len(sc["division_iterations"]) >= 2 else 0)
    stats["doubles_compared"] = stats.get("doubles_compared", 0) + ncmp
    stats["doubles_of_daughters_as_returned"] = stats.get("doubles_of_daughters_as_returned", 0) + ndau
    stats["iterations_compared"] = stats.get("iterations_compared", 0) + upto
    stats["worst_ulps"] = max(stats.get("worst_ulps", 0), worst)
    stats["bit_identical"] = stats.get("bit_identical", True) and worst == 0 and not dis
    stats["out_of_domain_iterations"] = stats.get("out_of_domain_iterations", 0) + len(bad)
    return sc


def prove_dividecell():
    return vlib.prove(PROOF_PID, THEOREMS_DIVIDECELL, NAMESPACE, extra_targets=(DRIVER,))


def run_dividecell(V, tier, seed, stats):
    t0 = time.time()
    stats.update({"scenarios": []})
    r = vlib.Rng(seed).fork("c14-division")            # the scenarios of run_division
    for (name, cells, rule, num_ov, cell_ovs, iters) in CPOP.division_scenarios(r, tier):
        lmin = CTR.lmin_of(rule, cells)
        correspond_dividecell(name, cells, lmin, num_ov, cell_ovs, iters, seed, stats, V)
    if stats.get("divisions", 0) < 3 or stats.get("second_generation_divisions", 0) == 0:
        V.fail_tie("correspondence", "assembled tissue iteration with divide_cell: only %d divisions, %d scenarios in which a daughter divides again — the stage tests too little"
                   % (stats.get("divisions", 0), stats.get("second_generation_divisions", 0)))
    stats["wall"] = round(time.time() - t0, 1)
    return stats


def replay(ctx):
    inp = ((ctx["replay"] or {}).get("failing_input") or {}).get("input") or {}
    V = vlib.Verdict("C14")
    cells = [tuple([c[0], c[1], tuple(c[2]), tuple(c[3]), c[4]]) for c in inp["cells"]]
    stats = {"scenarios": []}
    correspond_dividecell(inp.get("scenario", "replay"), cells, inp["lmin"], inp.get("overrides") or {}, inp["cell_overrides"], inp["iterations"], inp.get("seed", 0), stats, V)
    for f in V.concrete + V.broken:
        print("FAIL", json.dumps(f, default=str)[:800])
    return 1 if (V.concrete or V.broken) else 0


if __name__ == "__main__":
    import sys
    V = vlib.Verdict("C14")
    st = {}
    run_dividecell(V, sys.argv[1] if len(sys.argv) > 1 else "quick", vlib.seed(), st)
    print(json.dumps(st, indent=1, default=str))
    print("FAILURES", json.dumps(V.concrete + V.broken, indent=1, default=str)[:6000])
