"""C08 — cell identities and cross-references stay valid as the population changes.

Model: lean/SimuVerif/Model/Population.lean (hand-written) interpreted over the code SHAPE that
tools/gen/c08_population.py extracts from solver.cpp / cell_divider.cpp / contact_node_node_via_coupling.cpp
on every run (Gen/Population.lean).  Theorems: Properties/C08.lean (core Lean, no Mathlib).
Correspondence: harness/h_population.cpp drives the REAL solver; the driver (a) replays the OBSERVED
events (who divided, who was removed) and must predict ids / local ids / counter at the division and
end points of every iteration, (b) evaluates the model's invariant checkers and dereference lists on
every observed state.  Oracle (this file, independent of the model): resolves every stored reference."""
import os, sys, time, json, math, struct
import vlib
from vlib import Rng

PID = "C08"
NAMESPACE = "Simu.C08"
THEOREMS = ["code_as_modelled", "epi_types_admissible", "admission_gate", "init_inv", "remesh_inv", "division_inv", "faceTypes_inv", "contact_inv",
            "polarise_inv", "removal_inv", "removal_exact", "erase_alone_breaks", "iteration_inv", "reach_inv",
            "use_inv", "deref_safe", "reach_deref_safe", "ids_never_reused", "id_designates_one_cell", "stateAfter_eq", "checker_sound",
            "cells0_ok"]
GEN = ["Population"]
HARNESS = os.path.join(vlib.VERIF, "harness", "h_population.cpp")

KEY_ORDER = ["mesh", "n", "nx", "gap", "lmin", "cutoff", "iters", "sp", "threads", "axis", "kinds", "nft", "sched"]


# ---------------------------------------------------------------- scenarios
def line_of(sc):
    return "scen " + " ".join("%s=%s" % (k, sc[k]) for k in KEY_ORDER if k in sc)


CORPUS = [
    # the known past failure: four cubes, the first one removed in iteration 0 (stale local ids -> cell_lst[3] of 3 cells)
    {"mesh": "cube", "n": 4, "nx": 2, "gap": "1e-6", "lmin": "4e-6", "cutoff": "1.2e-6", "iters": 4, "kinds": "0", "nft": "2", "sched": "0:0:R"},
    # removal in the middle, then a division, then the last one removed
    {"mesh": "cube", "n": 5, "nx": 3, "gap": "1e-6", "lmin": "4e-6", "cutoff": "1.2e-6", "iters": 12, "kinds": "0,0,1,0,2", "nft": "2,3,1,2,1", "sched": "1:2:R,4:0:D,7:3:R", "axis": "1"},
    # rounded cells divide; a removal before and after
    {"mesh": "ico1", "n": 3, "nx": 2, "gap": "3e-7", "lmin": "7.5e-7", "cutoff": "5e-7", "iters": 8, "kinds": "0", "nft": "2", "sched": "0:1:D,2:0:R,4:0:D", "axis": "1"},
    # an epithelial cell type with a single face type: must be refused at start-up (lateral faces would index face_types_[1])
    {"mesh": "cube", "n": 4, "nx": 2, "gap": "1e-6", "lmin": "4e-6", "cutoff": "1.2e-6", "iters": 3, "kinds": "0", "nft": "1", "sched": ""},
]


def gen_scenario(r, k):
    mesh = r.choice(["cube", "cube", "ico1", "ico1", "ico2"])
    n = r.choice([2, 3, 4, 4, 5, 6, 7, 8, 9, 10, 12]) if mesh != "ico2" else r.choice([2, 3, 4, 5])
    if mesh == "cube":
        geo = {"gap": "1e-6", "lmin": "4e-6", "cutoff": "1.2e-6"}
    else:
        geo = {"gap": r.choice(["3e-7", "4e-7"]), "lmin": "7.5e-7", "cutoff": "5e-7"}
    iters = r.randint(3, 13)
    kinds, nfts = [], []
    for i in range(n):
        kd = r.choice([0, 0, 0, 0, 0, 1, 2, 4, 3])
        kinds.append(kd)
        nfts.append(r.choice([2, 2, 3]) if kd == 0 else r.choice([1, 1, 2, 3]))
    if 0 not in kinds:
        kinds[r.randint(0, n - 1)] = 0
        nfts = [max(nf, 2) if kd == 0 else nf for kd, nf in zip(kinds, nfts)]
    sched = []
    nev = r.randint(1, 7)
    for _ in range(nev):
        it = r.randint(0, iters - 1)
        # positions: first, last, middle, anywhere (the harness reduces modulo the current length)
        pos = r.choice([0, 0, 1, n - 1, n - 1, n // 2, r.randint(0, 2 * n)])
        act = r.choice("RRDD")
        if act == "D":
            it = r.choice([0, 0, 3, 5, 8, 10]) if iters > 5 else 0
            if r.randint(0, 3) == 0:       # several mothers in the same round
                sched.append("%d:%d:D" % (it, r.randint(0, 2 * n)))
        elif r.randint(0, 5) == 0:         # a cell removed in the very iteration a division round runs
            it = r.choice([0, 5, 10]) if iters > 10 else 0
        sched.append("%d:%d:%s" % (it, pos, act))
    sc = {"mesh": mesh, "n": n, "nx": r.choice([2, 3]), "iters": iters, "kinds": ",".join(map(str, kinds)),
          "nft": ",".join(map(str, nfts)), "sched": ",".join(sched), "sp": r.choice(["1", "1", "2.5e-7"]),
          "axis": r.choice(["1", "1", "1", "0", "1,0,0", "0,0,1", "0,0,-1"])}
    sc.update(geo)
    return sc


# ---------------------------------------------------------------- parsing
def parse_obs(w):
    """w: tokens after 'obs' (all naturals) -> dict"""
    v = list(map(int, w))
    it, pt, ln, counter = v[0:4]
    p = 4
    cells = []
    for _ in range(ln):
        obj, cid, lid, kind, nft, st, nn, nf = v[p:p + 8]
        p += 8
        nodes = []
        for _ in range(nn):
            nid, used, has, c, n = v[p:p + 5]
            p += 5
            nodes.append((nid, used, (c, n) if has else None))
        faces = []
        for _ in range(nf):
            faces.append(tuple(v[p:p + 6]))
            p += 6
        cells.append({"obj": obj, "id": cid, "lid": lid, "kind": kind, "nft": nft, "static": st, "nodes": nodes, "faces": faces})
    if p != len(v):
        raise ValueError("obs line has %d trailing tokens" % (len(v) - p))
    return {"it": it, "pt": pt, "counter": counter, "cells": cells, "raw": " ".join(w)}


def split_scenarios(lines):
    """group harness output by scenario; returns list of (records, status|None)"""
    out, cur = [], []
    for ln in lines:
        w = ln.split()
        if not w:
            continue
        if w[0] == "done":
            out.append((cur, " ".join(w[1:])))
            cur = []
        else:
            cur.append(w)
    if cur:
        out.append((cur, None))
    return out


def unhex(s):
    return struct.unpack("<d", struct.pack("<Q", int(s, 16)))[0]


# ---------------------------------------------------------------- oracle (independent of the Lean model)
def oracle_state(o, hist, cutoff, pos=None):
    """returns (list of violation texts, base_ok, couplings_ok, deref counts/flags) for one observed state.
    hist: per-scenario memory {'alive': set, 'dead': set, 'counter': int}"""
    viol, assum = [], []
    cells = o["cells"]
    n = len(cells)
    pt = o["pt"]
    base_ok = True
    # position index = place in the list
    for i, c in enumerate(cells):
        if c["lid"] != i:
            viol.append(("the position index (local id) of a cell differs from its place in the population list", "cell at list position %d (id %d) has local id %d" % (i, c["id"], c["lid"])))
            base_ok = False
            break
    ids = [c["id"] for c in cells]
    if len(set(ids)) != len(ids):
        viol.append(("persistent cell ids are not unique", "ids %r" % sorted(ids)))
        base_ok = False
    if any(i >= o["counter"] for i in ids):
        viol.append(("a persistent cell id is not below the id counter", "ids %r counter %d" % (ids, o["counter"])))
        base_ok = False
    # never reused
    if hist is not None:
        for i in ids:
            if i in hist["dead"]:
                viol.append(("a persistent cell id is reused", "id %d re-appears after it had left the population" % i))
            elif i not in hist["alive"] and i < hist["counter"]:
                viol.append(("a persistent cell id is reused", "id %d appears although the counter had already passed it (counter was %d)" % (i, hist["counter"])))
        for c in cells:
            prev = hist["obj_of_id"].get(c["id"])
            if prev is not None and prev != c["obj"]:
                viol.append(("a persistent cell id is reused", "id %d designated cell object %d and now designates cell object %d" % (c["id"], prev, c["obj"])))
            hist["obj_of_id"][c["id"]] = c["obj"]
        if o["counter"] < hist["counter"]:
            viol.append(("the id counter went back", "from %d to %d" % (hist["counter"], o["counter"])))
        for i in list(hist["alive"]):
            if i not in ids:
                hist["dead"].add(i)
        for i in range(hist["counter"], o["counter"]):
            if i not in ids:
                hist["dead"].add(i)          # issued and gone within the interval
        hist["alive"] = set(ids)
        hist["counter"] = max(hist["counter"], o["counter"])
    objs = [c["obj"] for c in cells]
    if len(set(objs)) != len(objs):
        viol.append(("the same cell object is twice in the list", ""))
        base_ok = False
    nfr = nft_bad = 0
    for i, c in enumerate(cells):
        nodes, faces = c["nodes"], c["faces"]
        if c["nft"] < (2 if c["kind"] == 0 else 1):
            viol.append(("a cell type admitted at start-up has fewer face types than its cell class writes", "cell id %d (kind %d) has %d face types" % (c["id"], c["kind"], c["nft"])))
            base_ok = False
        for k, nd in enumerate(nodes):
            if nd[0] != k:
                assum.append("node %d of cell %d has node id %d" % (k, c["id"], nd[0]))
                base_ok = False
                break
        for j, f in enumerate(faces):
            used, ty, ow, n1, n2, n3 = f
            if not used:
                continue
            nfr += 1
            if ow != c["obj"] + 1:
                viol.append(("the owner pointer of a face does not designate its cell", "face %d of cell id %d: owner is %s" % (j, c["id"], "null" if ow == 0 else "object %d" % (ow - 1))))
                base_ok = False
            if ty >= c["nft"]:
                nft_bad += 1
                if nft_bad <= 1:
                    viol.append(("the face-type index of a face is outside the face-type table of its cell type", "face %d of cell id %d has index %d, the cell type has %d face types" % (j, c["id"], ty, c["nft"])))
                base_ok = False
            for q in (n1, n2, n3):
                if q >= len(nodes) or not nodes[q][1]:
                    assum.append("used face %d of cell %d references node %d which is %s" % (j, c["id"], q, "out of range" if q >= len(nodes) else "unused"))
                    base_ok = False
    res = {"base_ok": base_ok, "forces": nfr, "forces_ok": nft_bad == 0}
    # couplings and the dereferences of the use window
    coup_ok = True
    npost = nint = npol = 0
    post_ok = int_ok = pol_ok = True
    offs = []
    if pos is not None:
        t = 0
        for c in cells:
            offs.append(t)
            t += len(c["nodes"])

    def target_ok(c2, n2):
        return c2 < n and n2 < len(cells[c2]["nodes"]) and cells[c2]["nodes"][n2][1] == 1

    far = 0
    for i, c in enumerate(cells):
        for k, nd in enumerate(c["nodes"]):
            if not nd[1] or nd[2] is None:
                continue
            c2, n2 = nd[2]
            ok = target_ok(c2, n2) and c2 != i
            if not ok:
                coup_ok = False
                if pt == 1:
                    viol.append(("a stored coupling does not designate a live node of another cell of the list",
                                 "node %d of the cell at position %d (id %d) is coupled to (cell %d, node %d): %s" % (
                        k, i, c["id"], c2, n2,
                        "no such cell (%d cells)" % n if c2 >= n else "its own cell" if c2 == i else "no such node" if n2 >= len(cells[c2]["nodes"]) else "an unused node")))
            elif pt == 1 and pos is not None:
                a = pos[offs[i] + k]
                b = pos[offs[c2] + n2]
                d = math.sqrt(sum((x - y) ** 2 for x, y in zip(a, b)))
                if d > 3.0 * cutoff:
                    far += 1
                    if far <= 1:
                        viol.append(("a stored coupling designates a node far beyond the adhesion cut-off (not a node of the intended cell)",
                                     "node %d of the cell at position %d is coupled to (cell %d, node %d) which is %.3g away (cut-off %.3g)" % (k, i, c2, n2, d, cutoff)))
            if i > c2:
                npost += 2
                post_ok = post_ok and target_ok(c2, n2)
            if not c["static"] and c["lid"] > c2:
                nint += 2
                int_ok = int_ok and target_ok(c2, n2)
    for i, c in enumerate(cells):
        if c["kind"] != 0:
            continue
        nodes = c["nodes"]
        for f in c["faces"]:
            if not f[0]:
                continue
            npol += 3
            tri = f[3:6]
            if any(q >= len(nodes) or not nodes[q][1] for q in tri):
                pol_ok = False
                continue
            cp = [nodes[q][2] for q in tri]
            if all(x is not None for x in cp) and cp[0][0] == cp[1][0] == cp[2][0]:
                npol += 1
                if cp[0][0] >= n:
                    pol_ok = False
    res.update({"coup_ok": coup_ok, "post": npost, "post_ok": post_ok, "pol": npol, "pol_ok": pol_ok, "int": nint, "int_ok": int_ok})
    return viol, assum, res


# ---------------------------------------------------------------- events of a scenario and driver requests
def derive(records):
    """records of one scenario -> (obs list, per-iteration events, init obs, positions by (it,pt))"""
    obs, evs, rdy, pos = [], {}, {}, {}
    for w in records:
        if w[0] == "obs":
            obs.append(parse_obs(w[1:]))
        elif w[0] == "ev":
            v = list(map(int, w[1:]))
            evs[v[0]] = [tuple(v[2 + 7 * k: 2 + 7 * k + 7]) for k in range(v[1])]
        elif w[0] == "rdy":
            rdy[int(w[1])] = list(map(int, w[2:]))
        elif w[0] == "pos":
            vals = [unhex(x) for x in w[3:]]
            pos[(int(w[1]), int(w[2]))] = [tuple(vals[i:i + 3]) for i in range(0, len(vals), 3)]
    return obs, evs, rdy, pos


def replay_request(obs, evs):
    """builds the driver's replay line from the OBSERVED events; returns (line, expected list) or (None, reason)"""
    init = [o for o in obs if o["pt"] == 3]
    if not init:
        return None, "no initial observation"
    init = init[0]
    by = {}
    for o in obs:
        by[(o["it"], o["pt"])] = o
    req = [len(init["cells"])]
    for c in init["cells"]:
        req += [c["kind"], c["nft"], c["static"]]
    expected = [init]
    before = init
    its = []
    it = 0
    while (it, 2) in by and it in evs:
        end = by[(it, 2)]
        bobj = [c["obj"] for c in before["cells"]]
        bid = {c["obj"]: c["id"] for c in before["cells"]}
        succ = []
        for (mo, d1o, d2o, d1id, d2id, _, _) in evs[it]:
            if mo in bid and d1id != bid[mo]:
                succ.append((d1id, mo, d1o, d2o))
        succ.sort()
        mothers = [bobj.index(mo) for (_, mo, _, _) in succ]
        if (it, 0) in by:
            post = [c["obj"] for c in by[(it, 0)]["cells"]]
        else:
            post = [x for x in bobj if x not in [m for (_, m, _, _) in succ]]
            for (_, _, a, b) in succ:
                post += [a, b]
        eobj = set(c["obj"] for c in end["cells"])
        removed = [i for i, x in enumerate(post) if x not in eobj]
        its.append((mothers, removed))
        expected.append(by.get((it, 0)))
        expected.append(end)
        before = end
        it += 1
    req.append(len(its))
    for m, rm in its:
        req += [len(m)] + m + [len(rm)] + rm
    return "replay " + " ".join(map(str, req)), (expected, its)


def cmp_replay(answer, expected):
    """driver answer 'len counter id lid ... | ...' against the observations; returns None or text"""
    segs = [s.split() for s in answer.split("|")]
    if len(segs) != len(expected):
        return "driver answered %d states for %d observations (%s)" % (len(segs), len(expected), answer[:80])
    for k, (sg, o) in enumerate(zip(segs, expected)):
        if o is None:
            continue
        v = list(map(int, sg))
        want = [len(o["cells"]), o["counter"]]
        for c in o["cells"]:
            want += [c["id"], c["lid"]]
        if v != want:
            return "state %d (iteration %d, point %d): model predicts len/counter/(id,lid) %r, the code produced %r" % (k, o["it"], o["pt"], v, want)
    return None


# ---------------------------------------------------------------- running
def run_harness(exe, scenarios):
    """returns list aligned with scenarios: (records, status, stderr_tail)"""
    res = [None] * len(scenarios)
    i = 0
    guard = 0
    while i < len(scenarios) and guard < len(scenarios) + 2:
        guard += 1
        lines, rc, err = vlib.run_lines(exe, [line_of(s) for s in scenarios[i:]], timeout=1500)
        groups = split_scenarios(lines)
        for g in groups:
            if i >= len(scenarios):
                break
            rec, st = g
            if st is None:
                res[i] = (rec, "crash rc=%s" % rc, err[:6000])
            else:
                res[i] = (rec, st, "")
            i += 1
        if rc == 0 and i < len(scenarios) and not groups:
            break
        if rc != 0 and groups and groups[-1][1] is not None and i < len(scenarios):
            # died between scenarios / before printing anything of the next one
            res[i] = ([], "crash rc=%s" % rc, err[:6000])
            i += 1
    for k in range(len(scenarios)):
        if res[k] is None:
            res[k] = ([], "not-run", "")
    return res


def analyse(sc, rec, status, errtail, drv, stats, V, widen=False):
    """oracle + correspondence for one scenario; returns number of oracle failures"""
    line = line_of(sc)
    nfail = 0
    cutoff = float(sc.get("cutoff", "1.2e-6"))
    try:
        obs, evs, rdy, pos = derive(rec)
    except Exception as e:
        V.fail_input("unparseable harness output (%s)" % e, {"line": line}, key=None)
        return 1
    stats["scenarios"] += 1
    stats["status"][status.split()[0]] = stats["status"].get(status.split()[0], 0) + 1
    if status.startswith("rejected"):
        return 0
    hist = {"alive": set(), "dead": set(), "counter": 0, "obj_of_id": {}}
    seen_what = set()
    checks = []
    nextobj = 0
    for o in obs:
        nextobj = max([nextobj] + [c["obj"] + 1 for c in o["cells"]] + [f[2] for c in o["cells"] for f in c["faces"]])
        viol, assum, res = oracle_state(o, hist, cutoff, pos.get((o["it"], o["pt"])))
        o["oracle"] = res
        stats["states"] += 1
        stats["cells_max"] = max(stats["cells_max"], len(o["cells"]))
        if o["pt"] == 1:
            stats["use_states"] += 1
            stats["couplings"] += sum(1 for c in o["cells"] for nd in c["nodes"] if nd[1] and nd[2] is not None)
            stats["derefs"] += res["post"] + res["pol"] + res["forces"] + res["int"]
        else:
            viol = [x for x in viol if "coupling" not in x[0]]       # couplings are only claimed where they are used
        point = ["after the division round", "after the contact phase", "end of the iteration", "after start-up"][o["pt"]]
        for cat, detail in viol:
            if cat in seen_what:
                continue
            seen_what.add(cat)
            nfail += 1
            V.fail_input(cat, {"line": line, "iteration": o["it"], "point": point, "detail": detail}, key=None)
        for x in assum[:1]:
            if "assum" not in seen_what:
                seen_what.add("assum")
                nfail += 1
                V.fail_input("the mesh contract assumed by the theorems does not hold (node ids / face nodes)",
                             {"line": line, "iteration": o["it"], "point": point, "detail": x}, key=None)
        checks.append("check %d %d %s" % (o["pt"], nextobj, o["raw"]))
    # the model of the polarisation: a face of an epithelial cell becomes lateral (1) only if its three nodes were coupled
    # at the use point; a face whose nodes were not all coupled keeps its type
    by = {(o["it"], o["pt"]): o for o in obs}
    for (it, pt), o2 in by.items():
        if pt != 2 or (it, 1) not in by:
            continue
        o1 = by[(it, 1)]
        c1 = {c["obj"]: c for c in o1["cells"]}
        for c in o2["cells"]:
            a = c1.get(c["obj"])
            if a is None or a["kind"] != 0 or len(a["faces"]) != len(c["faces"]):
                continue
            for fa, fb in zip(a["faces"], c["faces"]):
                if not fa[0]:
                    continue
                allc = all(q < len(a["nodes"]) and a["nodes"][q][1] and a["nodes"][q][2] is not None for q in fa[3:6])
                stats["polar_faces"] += 1
                if (not allc and fb[1] != fa[1]) or (allc and fb[1] not in (0, 1)):
                    V.fail_tie("correspondence", "polarisation model: face of cell id %d went from type %d to %d with all-nodes-coupled=%s (iteration %d)" % (c["id"], fa[1], fb[1], allc, it), line=line)
                    stats["disagreements"] += 1
                    break
                if allc:
                    stats["polar_lateral"] += fb[1]
    if status.startswith("crash") or status == "not-run":
        # a sanitizer report is charged to this property when it comes from one of the places that dereference a stored
        # reference (or when the states observed before it already violate the property); a crash elsewhere (mesh
        # refinement, triangulation ...) belongs to another property and is only counted
        top = crash_top(errtail)
        if nfail or any(m in top for m in DEREF_SITES):
            nfail += 1
            V.fail_input("the run of the real solver ended abnormally (sanitizer report / crash) where a stored reference is dereferenced",
                         {"line": line, "status": status, "detail": " ".join(top.split())[:700]}, key=None)
        else:
            stats["foreign_crashes"].append({"line": line, "where": " ".join(top.split())[:300]})
    # events actually exercised
    for it, at in evs.items():
        stats["div_attempts"] += len(at)
    # correspondence
    if drv is not None and obs:
        rq, exp = replay_request(obs, evs)
        if rq is None:
            V.fail_tie("correspondence", "cannot build the replay request: %s" % exp, line=line)
        else:
            expected, its = exp
            for m, rm in its:
                stats["divisions"] += len(m)
                stats["removals"] += len(rm)
                for p in rm:
                    stats["rm_pos"]["first" if p == 0 else "other"] += 1

            out, rc, err = vlib.run_lines(drv, [rq] + checks, timeout=600)
            if rc != 0 or len(out) != 1 + len(checks):
                V.fail_tie("correspondence", "model driver ended abnormally (rc=%s, %d answers for %d requests) %s" % (rc, len(out), 1 + len(checks), err[-200:]), line=line)
            else:
                msg = cmp_replay(out[0], expected)
                stats["replayed_states"] += len([e for e in expected if e is not None])
                if msg:
                    stats["disagreements"] += 1
                    V.fail_tie("correspondence", msg, line=line, explained_by_known=False)
                for o, ans in zip(obs, out[1:]):
                    a = ans.split()
                    r = o["oracle"]
                    if len(a) != 10:
                        stats["disagreements"] += 1
                        V.fail_tie("correspondence", "driver could not read an observed state: %s" % ans, line=line)
                        break
                    want = [int(r["base_ok"]), int(r["coup_ok"]), r["post"], int(r["post_ok"]), r["pol"], int(r["pol_ok"]),
                            r["forces"], int(r["forces_ok"]), r["int"], int(r["int_ok"])]
                    got = list(map(int, a))
                    if o["pt"] != 1:
                        # outside the use window only the base invariant and the face-type dereferences are claimed
                        want = [want[0], want[6], want[7]]
                        got = [got[0], got[6], got[7]]
                    stats["checked_states"] += 1
                    if got != want:
                        stats["disagreements"] += 1
                        V.fail_tie("correspondence", "model checkers and oracle disagree at iteration %d point %d: model %r oracle %r" % (o["it"], o["pt"], got, want), line=line)
                        break
    return nfail


DEREF_SITES = ("special_polarization_update", "update_nodes_positions", "resolve_contact", "resolve_all_contacts",
               "contact_node_node_via_coupling::run", "apply_surface_tension_and_membrane_elasticity", "apply_bending_forces",
               "get_face_type", "cell_divider::run", "epithelial_cell.hpp", "time_integration.cpp")


def crash_top(err):
    """the location line and the three innermost frames of the first sanitizer report"""
    keep = []
    for ln in err.splitlines():
        t = ln.strip()
        if "runtime error" in t or t.startswith("SUMMARY") or t.startswith("==") and "ERROR" in t:
            keep.append(t)
        elif t.startswith(("#0 ", "#1 ", "#2 ")) and sum(1 for k in keep if k.startswith("#")) < 3:
            keep.append(t)
        if len(keep) >= 6:
            break
    return "\n".join(keep) if keep else err[:400]


def build_harness():
    """the object cache is shared with the other checks, whose pruning can remove an object between compile and link: retry"""
    for attempt in range(3):
        try:
            return vlib.build_repo.build_harness(HARNESS, "h_population", link_repo=True)
        except RuntimeError as e:
            if "cannot find" not in str(e) or attempt == 2:
                raise
            time.sleep(1.0)


def new_stats():
    return {"scenarios": 0, "states": 0, "use_states": 0, "couplings": 0, "derefs": 0, "divisions": 0, "removals": 0,
            "div_attempts": 0, "replayed_states": 0, "checked_states": 0, "disagreements": 0, "cells_max": 0,
            "status": {}, "rm_pos": {"first": 0, "other": 0}, "polar_faces": 0, "polar_lateral": 0, "foreign_crashes": []}


def bystander_rounds(V, r, n):
    """Division rounds of the real solver (many threads) in which the mothers do NOT report in list order and a cell that does not divide
    sits between them: a finely meshed mother first (slow), a small bystander below its division volume, a coarsely meshed mother last (fast).
    After the round: index = position for every cell, the bystander still there, ids unique, daughters' ids fresh."""
    import scenarios as SC
    exe, _ = SC.build("asan")
    st = {"rounds": 0, "divisions_seen": 0, "bystanders_kept": 0, "failures": 0}
    for k in range(n):
        with SC.Workdir() as wd:
            layout = r.choice([[3, 0, 1], [3, 0, 0, 1], [3, 1, 0, 1], [0, 3, 0, 1]])      # subdivision level of a mother, 0 = bystander
            cells = []
            for i, lv in enumerate(layout):
                ctr = (i * 4.1e-5, 0.0, 0.0)
                if lv == 0:
                    cells.append(SC.icosphere(2, 2.5e-6, ctr, (1.0, 0.9, 1.2), 0.17) + (0,))       # volume ~ 7e-17 < division volume 3e-16
                else:
                    cells.append(SC.icosphere(lv, 5e-6, ctr, (1.0, 0.85, 1.3), 0.17) + (0,))      # volume ~ 5.8e-16 > 3e-16
            mesh = os.path.join(wd, "t.vtk")
            SC.write_vtk(mesh, cells)
            params = SC.make_params(wd, mesh, "7.5e-7", {"perform_initial_triangulation": "0", "avg_division_volume": "3e-16", "std_division_volume": "0",
                                                         "min_vol": "1e-19", "std_growth_rate": "0"}, {})
            th = r.choice([4, 8, 16])
            res = SC.run(exe, params, 1, th, 1)
            st["rounds"] += 1
            args = {"layout_subdivision_levels_0_is_bystander": layout, "threads": th, "scenario": "division round with a bystander between mothers of different mesh sizes"}
            what, key = SC.classify(res["rc"], res["err"])
            if what:
                st["failures"] += 1
                V.fail_input("division round with a bystander: %s" % what, args, key=key); continue
            snaps = SC.parse_states(res["out"])
            if len(snaps) < 2:
                continue
            ids0 = [c["id"] for c in snaps[0]["cells"]]
            ids1 = [c["id"] for c in snaps[1]["cells"]]
            loc1 = [c["local"] for c in snaps[1]["cells"]]
            mothers = [i for i in ids0 if i not in ids1]
            st["divisions_seen"] += len(mothers)
            by = [ids0[i] for i, lv in enumerate(layout) if lv == 0]
            st["bystanders_kept"] += sum(1 for b in by if b in ids1)
            bad = None
            if loc1 != list(range(len(loc1))):
                bad = "the position index (local id) of a cell differs from its place in the population list after a division round: local ids %r (cell ids %r -> %r)" % (loc1, ids0, ids1)
            elif any(b not in ids1 for b in by):
                bad = "a cell that did not divide disappeared in a division round: %r -> %r" % (ids0, ids1)
            elif len(set(ids1)) != len(ids1) or any(i <= max(ids0) for i in ids1 if i not in ids0):
                bad = "persistent cell ids are not unique / fresh after a division round: %r -> %r" % (ids0, ids1)
            if bad:
                st["failures"] += 1
                V.fail_input(bad, args, key=None)
    return st


def run(ctx):
    tier, seed = ctx["tier"], ctx["seed"]
    t0 = time.time()
    V = vlib.Verdict(PID)
    gen = vlib.translate.run(GEN)
    proof = vlib.prove(PID, THEOREMS, NAMESPACE, extra_targets=("drv_c08",))
    for f in proof["failures"]:
        V.fail_tie("proof", "%s: %s" % (f["theorem"], f["reason"]), errors=proof["errors"][:5])
    if gen.get("Population", {}).get("error"):
        V.fail_tie("proof", "translator: %s" % gen["Population"]["error"])
    if tier == "thorough" and proof["ok"]:
        ok, log = vlib.leanchecker("SimuVerif.Properties.C08")
        if not ok:
            V.fail_tie("proof", "leanchecker rejected SimuVerif.Properties.C08", log=log)
    exe, rebuilt = build_harness()
    n = 60 if tier == "quick" else 1500
    if not proof["ok"]:
        n = max(n, 200)        # a proof broke: widen the search for a concrete failing input
    r = Rng(seed)
    scenarios = [dict(c) for c in CORPUS] + [gen_scenario(r, k) for k in range(n)]
    results = run_harness(exe, scenarios)
    drv = vlib.driver_path("drv_c08")
    if gen.get("Population", {}).get("error"):
        V.fail_tie("correspondence", "the model driver could not be rebuilt for the current source (translation failed)")
        drv = None
    elif not os.path.exists(drv):
        V.fail_tie("correspondence", "model driver missing (lake build failed)")
        drv = None
    stats = new_stats()
    oracle_fail = 0
    samples = []
    for k, (sc, (rec, status, errtail)) in enumerate(zip(scenarios, results)):
        nf = analyse(sc, rec, status, errtail, drv, stats, V)
        oracle_fail += nf
        if k < 3:
            samples.append({"line": line_of(sc), "status": status, "records": len(rec), "oracle_failures": nf})
    stats["bystander_rounds"] = bystander_rounds(V, Rng(seed).fork("bystander"), 3 if (tier == "quick" and proof["ok"]) else 8)
    rcode, nviol = V.finish()
    import glob, shutil
    for d in glob.glob("/tmp/c08_out_*"):          # output folders of runs that ended in a sanitizer abort / time-out
        shutil.rmtree(d, ignore_errors=True)
    lines = [line_of(s) for s in scenarios]
    cov = {
        "obligations": proof["obligations"], "discharged": proof["discharged"],
        "checker_cmd": "lake build SimuVerif.Properties.C08 SimuVerif.Audit.C08 drv_c08 (+ lake env leanchecker in the thorough tier)",
        "trusted_base": vlib.TRUSTED_COMMON[:1] + [
            "tools/gen/c08_population.py (pattern extraction of the phase order, the divider's statements and the stored coupling keys; its output is hashed into this file)",
            "harness/h_population.cpp (probe subclasses of epithelial_cell and solver that only forward to the real code) + tools/props/c08.py (event derivation, oracle)",
            "the abstraction: geometry and mechanics enter the model as arbitrary parameters; mesh operations are assumed to satisfy the mesh contract MeshFor (checked at run time on every observed state)",
        ],
        "theorems": {k: v for k, v in proof["axioms"].items()},
        "proof_failures": proof["failures"],
        "translator": gen,
        "evaluations": stats["states"], "distinct_nontrivial": len(set(lines)),
        "rule": "seeded scenarios (2-12 cubes or icospheres on a grid, 5 cell kinds, 1-3 face types, 3-13 iterations, 1-6 forced removals / division triggers at first / last / middle / random list positions, save period, division axis) + corpus of past failures; evaluations = observed population states, distinct = distinct scenario lines",
        "scenarios": stats["scenarios"], "scenario_status": stats["status"], "use_point_states": stats["use_states"],
        "couplings_resolved": stats["couplings"], "dereferences_resolved": stats["derefs"],
        "divisions_observed": stats["divisions"], "division_attempts": stats["div_attempts"], "removals_observed": stats["removals"],
        "removed_positions": stats["rm_pos"], "max_cells": stats["cells_max"],
        "polarisation_faces_checked": stats["polar_faces"], "faces_marked_lateral": stats["polar_lateral"],
        "replayed_states": stats["replayed_states"], "checker_states": stats["checked_states"],
        "model_vs_impl_disagreements": stats["disagreements"], "oracle_failures": oracle_fail,
        "bystander_division_rounds": stats.get("bystander_rounds"),
        "crashes_outside_the_dereference_sites": stats["foreign_crashes"][:5], "n_crashes_outside": len(stats["foreign_crashes"]),
        "repo_objects_rebuilt": rebuilt, "samples": samples,
    }
    vlib.write_evidence(PID, tier, "proof", cov, [
        "contact model 1 / polarisation mode 1 (the shipped configuration); one OpenMP thread in the harness (the order of critical sections is a parameter of the theorems)",
        "mesh operations deliver meshes satisfying MeshFor (node id = position, used faces point to their cell and to used nodes, face types inherited or 0); checked on every observed state",
        "remove_index / erase(remove_if) are modelled by their specification (order-preserving removal of the listed positions)",
        "overflow of the unsigned counter is not modelled",
    ], time.time() - t0, nviol)
    return rcode


def replay(ctx):
    """re-run the stored failing scenario on the current implementation"""
    rp = ctx["replay"]
    fi = rp.get("failing_input", {}).get("input", {})
    line = fi.get("line")
    if not line:
        print("replay file names no input: %s" % json.dumps(rp.get("no_longer_checks", rp))[:2000])
        return 1
    exe, _ = build_harness()
    sc = dict(kv.split("=", 1) for kv in line.split()[1:])
    (rec, status, errtail), = run_harness(exe, [sc])
    V = vlib.Verdict(PID)
    stats = new_stats()
    nf = analyse(sc, rec, status, errtail, None, stats, V)
    print("scenario:", line)
    print("status:", status, "| states observed:", stats["states"])
    for c in V.concrete[:8]:
        print(" - %s | %s" % (c["what"], c["input"].get("detail", "")))
    if nf:
        print("VIOLATION property=C08 replay=%s" % ctx.get("replay_path", "-"))
        return 1
    print("property holds on this input now")
    return 0
