"""C14 — the ASSEMBLED iteration of a tissue WITH REMOVAL of the cells below their minimum volume (lean/SimuVerif/Model/TissueP.lean, command
`tissuep` of drv_c14) against the real `solver::run_iteration`, in runs in which cells ARE removed mid-run while their neighbours adhere
to them, are remeshed and rebased.

  run_population(V, tier, seed, stats)  (1) correspondence: tissues of 3–5 epithelial cells, EVERY cell with its own parameter block (all of class
                                            `epithelial_cell`), growth rate 0 for the cells to be removed: their volume relaxes below the initial
                                            one under the surface tension; a PROBE run of the real solver (minimum volumes tiny) yields the volume
                                            of every cell in every iteration, `min_vol` of the chosen cells is then placed between two consecutive
                                            volumes, so that the cell is removed in a chosen iteration (first / middle / last position of the list,
                                            two cells in one iteration, a cell coupled to its neighbours).  REAL solver through harness/h_solver.cpp
                                            in mode `pslots` (1 thread, every iteration dumped: `S`, `J`, `I <max_cell_id_>`, per cell `C <id> <local
                                            id> …`, the whole bookkeeping line `R` and the raw attribute line `B` with the couplings of every slot),
                                            model started from snapshot 0: every token of every snapshot is compared (MAX_ULPS = 0), cell ids, local
                                            ids and the (stale) couplings of the survivors included, over the iterations that FOLLOW the removals.
                                        (2) oracle on the real code (independent of the model): the tissue and its translate: the same cells are
                                            removed in the same iterations, same ids / local ids, and the policy of c14_tissue_remesh.py on the rest;
                                            plus the population clauses on every dumped state (local id = position, ids of survivors unchanged and in
                                            order, a removed id never reappears, removed ⇔ volume < min_vol on the previous dump's successor).
  prove_population()                    re-checks Properties/C14Population.lean (THEOREMS_POPULATION) and rebuilds drv_c14
  run_division(V, tier, seed, stats)    stage 2 (partial): the division ROUND of cell_divider::run inside the assembled model (Model/TissueD.lean, command `tissued`),
                                        the two daughters of every successful divide_cell recorded by the harness (mode `dslots`: the whole list right after
                                        cell_divider::run) and fed to the model; every end-of-iteration snapshot and every list after the divider compared bit for bit
                                        in runs in which cells grow, divide (three generations), are remeshed and adhere; oracle: fresh ids, counter, halved target volume
  prove_division()                      re-checks Properties/C14Division.lean (THEOREMS_DIVISION)
  replay(ctx)
"""
import os, re, math, time, json
import vlib
import scenarios as SC
import c14_pipeline as CP
import c14_tissue as CT
import c14_remesh as CRM
import c14_tissue_remesh as CTR

DRIVER = "drv_c14"
PROOF_PID = "C14Population"
NAMESPACE = "Simu.C14"
THEOREMS_POPULATION = [
    "endPhases_as_modelled", "removedP_translate", "removalP_translate", "tissueIterationR_translate_P", "tissueIterationP_translate", "stepOkTP_translate",
    "domainTP_translate", "tissueRunP_translate", "tissueRunP_observables", "removal_is_C08_removal", "population_after_removal", "removalP_identsOk",
    "removed_exactly_P", "tissueIterationP_invariants", "tissueRunP_invariants", "stepOkTP_of_invariants", "tripleP_setup", "tripleP_stepOk", "tripleP_removes_middle"]
GEN_POPULATION = CTR.GEN_TISSUER + ["Population"]
MAX_ULPS = 0
SIZE = 1e-5
HEX = CRM.HEX
TINY = "1e-30"


# ---------------------------------------------------------------- parameter files with one epithelial block per cell
def make_params_multi(wd, mesh, lmin, num_ov, cell_ovs):
    """the template with its cell types replaced by len(cell_ovs) copies of the epithelial block (global_cell_id 0 = class epithelial_cell;
    the type of a cell of the mesh file is the POSITION of the block), each with its own overrides"""
    x = open(SC.TEMPLATE).read()
    a, b = x.index("<cell_types>") + len("<cell_types>"), x.index("</cell_types>")
    m = re.search(r"<cell_type>.*?</cell_type>", x[a:b], flags=re.S)
    block = m.group(0)
    blocks = []
    for ov in cell_ovs:
        bl = block
        for k, v in dict(SC.DETERMINISTIC, **ov).items():
            bl = SC.setp(bl, k, v, None)
        blocks.append(bl)
    x = x[:a] + "\n" + "\n".join(blocks) + "\n" + x[b:]
    x = SC.setp(x, "input_mesh_file_path", mesh)
    x = SC.setp(x, "output_mesh_folder_path", os.path.join(wd, "out"))
    x = SC.setp(x, "min_edge_length", repr(lmin))
    x = SC.setp(x, "sampling_period", "1e-5")
    for k, v in dict({"perform_initial_triangulation": "0", "enable_edge_swap_operation": "0"}, **(num_ov or {})).items():
        x = SC.setp(x, k, v)
    p = os.path.join(wd, "p.xml")
    open(p, "w").write(x)
    return p


def read_consts_blocks(xml):
    """(numerical parameters, [(cell constants, face types) per parameter block, in file order])"""
    body = re.sub(r"<!--.*?-->", "", xml, flags=re.S)
    num = body[body.index("<numerical_parameters>"):body.index("</numerical_parameters>")]
    out = []
    for block in re.findall(r"<cell_type>(.*?)</cell_type>", body, flags=re.S):
        if CP._num(block, "std_growth_rate") != 0.0 or CP._num(block, "std_division_volume") != 0.0:
            raise ValueError("not a deterministic parameter set")
        head = block[:block.index("<face_types>")]
        fts = [(CP._num(f, "surface_tension"), CP._num(f, "bending_modulus"), CP._num(f, "repulsion_strength"))
               for f in re.findall(r"<face_type>(.*?)</face_type>", block, flags=re.S)]
        c = {"K": CP._num(head, "cell_bulk_modulus"), "maxP": CP._num(head, "max_inner_pressure", True), "aem": CP._num(head, "area_elasticity_modulus"),
             "iso": CP._num(head, "target_isoperimetric_ratio"), "angf": CP._num(head, "angle_regularization_factor"), "minVol": CP._num(head, "min_vol"),
             "growth": CP._num(head, "avg_growth_rate"), "divVol": CP._num(head, "avg_division_volume", True), "density": CP._num(head, "cell_mass_density"),
             "maxCurv": CP._num(head, "surface_coupling_max_curvature"), "kind": int(CP._tag(head, "global_cell_id"))}
        out.append((c, fts))
    n = {"dt": CP._num(num, "time_step"), "damping": CP._num(num, "damping_coefficient"), "lmin": CP._num(num, "min_edge_length"),
         "cutAdh": CP._num(num, "contact_cutoff_adhesion"), "cutRep": CP._num(num, "contact_cutoff_repulsion")}
    return n, out


def write_case(wd, cells, lmin, num_ov, cell_ovs, shift=(0.0, 0.0, 0.0)):
    mesh = os.path.join(wd, "t.vtk")
    SC.write_vtk(mesh, [(P, T, i) for i, (P, T) in enumerate(CTR.meshes_of(cells, shift))])
    return make_params_multi(wd, mesh, lmin, num_ov, cell_ovs)


def real_run(cells, lmin, num_ov, cell_ovs, iters, shift=(0.0, 0.0, 0.0)):
    with SC.Workdir() as wd:
        params = write_case(wd, cells, lmin, num_ov, cell_ovs, shift)
        xml = open(params).read()
        exe, _ = SC.build("asan")
        rr = SC.run(exe, params, iters, 1, 1, mode="pslots", timeout=2400)
    return rr, xml


# ---------------------------------------------------------------- snapshots of `h_solver … pslots` / `drv_c14 tissuep`
def parse_pslots(out):
    snaps, exc = CTR.parse_tslots(out)
    k = -1
    for line in out.splitlines():
        if line.startswith("S "):
            k += 1
        elif line.startswith("I ") and 0 <= k < len(snaps):
            snaps[k]["I"] = int(line.split()[1])
    return snaps, exc


def request_line(num, blocks, sampling, swap, snap, n, every):
    w = ["tissuep", str(n), str(every), str(len(snap["cells"])), "1" if swap else "0"]
    w += [vlib.fhex(num[k]) for k in CT.NUM_ORDER] + [vlib.fhex(sampling)]
    w += [str(snap["iter"]), str(snap["J"]), str(snap["I"]), snap["time"]]
    for cell in snap["cells"]:
        C = cell["C"]          # id local type nn nf area vol tvol p
        c, fts = blocks[int(C[0])]          # snapshot 0: cell id = position in the mesh file = parameter block
        w += [C[0], C[1], C[2], str(len(fts))]
        w += [vlib.fhex(c[k]) for k in CT.CELL_ORDER]
        for t in fts:
            w += [vlib.fhex(x) for x in t]
        w += [C[5], C[6], C[7], C[8]]
        w += cell["R"] + ["|"] + cell["B"]
    return " ".join(w)


def parse_model(lines):
    snaps, exc = parse_pslots("\n".join(l for l in lines if not l.startswith(("O ", "H "))))
    dom, hyp = {}, {}
    for l in lines:
        w = l.split()
        if l.startswith("O "):
            semi = w.index(";")
            dom[int(w[1])] = {"ok": w[2] == "1", "live": w[3] == "1", "mesh": w[4] == "1", "splits": int(w[5]), "merges": int(w[6]),
                              "rebased": w[7] == "1", "swaps": int(w[8]), "coupled": int(w[9]), "near": int(w[10]), "removed": int(w[11]),
                              "stale_to_removed": int(w[12]), "stale_to_moved": int(w[13]), "positions": [int(x) for x in w[semi + 1:]]}
        elif l.startswith("H "):
            hyp[w[1]] = w[2] == "1"
    return snaps, dom, hyp, exc


def volumes(snaps):
    """per snapshot: {cell id: volume_ as dumped}"""
    return [{int(c["C"][0]): vlib.unhex(c["C"][6]) for c in s["cells"]} for s in snaps]


# ---------------------------------------------------------------- scenarios
def tissue(r, kind):
    """icosphere arguments (c14_tissue_remesh.ico): big fine cells (162 nodes) and small coarse ones (42 nodes) in contact"""
    j = lambda a: r.uniform(-a, a)
    small = lambda c: CTR.ico(1, 3e-6, c, (1.0, 0.95, 1.05), 0.04)
    big = lambda c: CTR.ico(2, 5e-6, c)
    if kind == "row4":
        # big – small – big in a row, a second small cell on top of the first small one
        return [big((0, 0, 0)), small((7.6e-6 + j(1e-7), 1e-7 + j(1e-7), 0)), big((15.2e-6 + j(1e-7), 2e-7, 0)), small((7.6e-6, 5.7e-6 + j(1e-7), 1e-7))]
    if kind == "small-first":
        return [small((0, 0, 0)), big((7.6e-6 + j(1e-7), j(1e-7), 0)), small((15.2e-6 + j(1e-7), 1e-7, 0)), small((7.6e-6, 7.7e-6 + j(1e-7), 0))]
    if kind == "five":
        return [small((0, 0, 0)), small((5.7e-6 + j(1e-7), j(1e-7), 0)), big((13.3e-6, j(1e-7), 0)), small((20.9e-6 + j(1e-7), 0, 0)), small((26.6e-6 + j(1e-7), j(1e-7), 0))]
    raise ValueError(kind)


def scenario_list(r, tier):
    """(name, tissue, lmin rule, numerical overrides, growth rate per cell, events [(iteration, [cell ids])], iterations after the last event)
    an event = the listed cells are removed at the END of that iteration (0-based), i.e. they are absent from snapshot iteration+1 on"""
    g = "6e-11"
    out = [
        # the coupled middle cell goes first (the couplings of both neighbours name it; the cells behind it are renumbered), then the FIRST cell of the list
        ("middle-then-first", "row4", ("max", 0.93), {"sampling_period": "7e-7"}, ["0", "0", g, g], [(6, [1]), (13, [0])], 14),
        # two cells in ONE iteration (positions 1 and 3 = middle and last), then the last cell of what is left
        ("two-at-once-then-last", "row4", ("min", 0.95), {"sampling_period": "1e-6"}, [g, "0", "0", "0"], [(8, [1, 3]), (15, [2])], 12),
        # the first cell is a small one: removed first; later the last
        ("first-then-last", "small-first", ("min", 1.04), {"sampling_period": "5e-7", "enable_edge_swap_operation": "1"}, ["0", g, g, "0"], [(5, [0]), (10, [3])], 14),
    ]
    if tier == "thorough":
        out += [
            ("five-three-events", "five", ("min", 0.9), {"sampling_period": "6e-7"}, ["0", "0", g, "0", "0"], [(5, [1]), (9, [0, 4]), (14, [3])], 16),
            ("far-row4", "row4", ("min", 0.93), {"sampling_period": "9e-7"}, ["0", "0", "0", g], [(7, [0, 1]), (12, [2])], 14),
            ("random-order", "row4", ("min", r.uniform(0.88, 0.96)), {"sampling_period": "8e-7"}, ["0", "0", "0", "0"],
             [(r.randint(4, 7), [r.choice([1, 3])]), (r.randint(9, 12), [r.choice([0, 2])])], 12),
        ]
    return out


def plan_min_vols(cells, lmin, num_ov, growth, events, V, args):
    """min_vol per cell such that the real solver removes the cells of each event at the end of the event's iteration: probe runs of the REAL
    solver with the thresholds fixed so far; the threshold of a cell is placed half way between the volume tested in the event's iteration and
    the smallest volume tested before (the volume must reach a new minimum there; otherwise the event is moved to the next iteration where it
    does).  Returns (min_vol strings, events as realised, probe runs)"""
    n = len(cells)
    minv = [TINY] * n
    done = []
    runs = 0
    for (k, ids) in events:
        k = max(k, (done[-1][0] + 2) if done else 0)
        ovs = [{"min_vol": minv[i], "avg_growth_rate": growth[i]} for i in range(n)]
        rr, _xml = real_run(cells, lmin, num_ov, ovs, k + 8)
        runs += 1
        what, key = SC.classify(rr["rc"], rr["err"])
        if what:
            V.fail_input("%s [tissue with removal, probe run]" % what, dict(args, min_vol=minv), key=key)
            return None
        snaps, _exc = parse_pslots(rr["out"])
        # the events fixed so far must happen in this run exactly as placed (same solver, same input up to the thresholds)
        seen = []
        for j in range(1, len(snaps)):
            a, b = [int(c["C"][0]) for c in snaps[j - 1]["cells"]], [int(c["C"][0]) for c in snaps[j]["cells"]]
            if a != b:
                seen.append((snaps[j - 1]["iter"] - snaps[0]["iter"], sorted(set(a) - set(b))))
            if [int(c["C"][1]) for c in snaps[j]["cells"]] != list(range(len(b))):
                V.fail_input("iteration %d: local ids %r of the cell list with ids %r are not the positions in the list"
                             % (snaps[j]["iter"], [int(c["C"][1]) for c in snaps[j]["cells"]], b), dict(args, min_vol=minv, iterations=k + 8))
                return None
        if seen != [(kk_, sorted(ids_)) for (kk_, ids_) in done]:
            V.fail_input("cells are removed in iterations %r, but their volume falls below min_vol (placed between two consecutive volumes of a probe run of the same "
                         "solver) in iterations %r" % (seen, done), dict(args, min_vol=minv, iterations=k + 8))
            return None
        vs = volumes(snaps)
        kk = None
        for cand in range(k, min(k + 6, len(vs) - 1)):
            if all(i in vs[cand + 1] and vs[cand + 1][i] < min(vs[j][i] for j in range(1, cand + 1)) for i in ids):
                kk = cand
                break
        if kk is None:
            return None
        for i in ids:
            lo, hi = vs[kk + 1][i], min(vs[j][i] for j in range(1, kk + 1))
            minv[i] = repr(0.5 * (lo + hi))
        done.append((kk, list(ids)))
    return minv, done, runs


# ---------------------------------------------------------------- population clauses on the dumps of the real solver (independent of the model)
def population_oracle(real, blocks, planned, V, args):
    """local id = position; `max_cell_id_` constant; ids of the survivors = the previous ids without the removed ones, in order; a removed id never
    comes back; no survivor below its minimum volume; the cells are removed exactly in the planned iterations"""
    gone = set()
    seen = []
    ok = True
    for k, s in enumerate(real):
        ids = [int(c["C"][0]) for c in s["cells"]]
        lids = [int(c["C"][1]) for c in s["cells"]]
        if lids != list(range(len(ids))):
            V.fail_input("iteration %d: local ids %r of the cell list with ids %r are not the positions in the list" % (s["iter"], lids, ids), args)
            return False
        if s.get("I") != real[0].get("I"):
            V.fail_input("iteration %d: max_cell_id_ changed from %r to %r without a division" % (s["iter"], real[0].get("I"), s.get("I")), args)
            return False
        if k > 0:
            prev = [int(c["C"][0]) for c in real[k - 1]["cells"]]
            if [i for i in prev if i in ids] != ids:
                V.fail_input("iteration %d: the ids %r are not the ids %r of the previous list without the removed cells, in order" % (s["iter"], ids, prev), args)
                return False
            removed = [i for i in prev if i not in ids]
            if removed:
                seen.append((real[k - 1]["iter"], removed))
            gone |= set(removed)
        if gone & set(ids):
            V.fail_input("iteration %d: a removed cell id reappears (%r)" % (s["iter"], sorted(gone & set(ids))), args)
            return False
        if k > 0:
            for c in s["cells"]:
                v, mv = vlib.unhex(c["C"][6]), blocks[int(c["C"][0])][0]["minVol"]
                if v < mv:
                    V.fail_input("iteration %d: cell %s has volume %r below its minimum volume %r and is still in the list" % (s["iter"], c["C"][0], v, mv), args)
                    return False
    it0 = real[0]["iter"]
    want = [(it0 + k, sorted(ids)) for (k, ids) in planned]
    got = [(k, sorted(ids)) for (k, ids) in seen]
    if want != got and len(real) > (max(k for k, _ in planned) + 1 if planned else 0):
        V.fail_input("cells are removed in iterations %r, but their volume falls below min_vol (placed between two consecutive volumes of a probe run of "
                     "the same solver) in iterations %r" % (got, want), args)
        ok = False
    return ok


# ---------------------------------------------------------------- (1) model against the real solver
def correspond(name, cells, lmin, num_ov, cell_ovs, planned, iters, seed, stats, V):
    args = {"scenario": name, "cells": [[c[0], c[1], list(c[2]), list(c[3]), c[4]] for c in cells], "lmin": lmin, "overrides": num_ov, "cell_overrides": cell_ovs,
            "planned_removals": planned, "iterations": iters, "seed": seed, "part": "correspondence", "stage": "population"}
    rr, xml = real_run(cells, lmin, num_ov, cell_ovs, iters)
    what, key = SC.classify(rr["rc"], rr["err"])
    if what:
        V.fail_input("%s [tissue with removal, scenario %s]" % (what, name), args, key=key)
        return None
    real, rexc = parse_pslots(rr["out"])
    if not real or real[0]["ncells"] < 2 or any(c["R"] is None or c["B"] is None for c in real[0]["cells"]) or "I" not in real[0]:
        V.fail_tie("correspondence", "tissue with removal, scenario %s: no snapshot in mode `pslots` (%s)" % (name, rr["out"][-200:]))
        return None
    num, blocks = read_consts_blocks(xml)
    population_oracle(real, blocks, planned, V, args)
    sampling = float(re.search(r"<sampling_period>([^<]*)<", xml).group(1))
    swap = re.search(r"<enable_edge_swap_operation>([^<]*)<", xml).group(1).strip() not in ("0", "false")
    req = request_line(num, blocks, sampling, swap, real[0], iters, 1)
    t1 = time.time()
    lines, rc, err = vlib.run_lines(vlib.driver_path(DRIVER), [req], timeout=3000)
    mwall = time.time() - t1
    if rc != 0 or not lines or lines[-1] != "END":
        V.fail_tie("correspondence", "tissue with removal, scenario %s: model driver answered %r (rc %s) %s" % (name, lines[-1:] if lines else None, rc, err[-200:]))
        return None
    model, dom, hyp, mexc = parse_model(lines)
    dis, ncmp, worst = [], 0, 0
    if not hyp.get("setup") or not hyp.get("endPhases"):
        dis.append({"iteration": real[0]["iter"], "field": "hypotheses TissueSetup / endPhases_as_modelled evaluated by the driver", "real": "expected to hold", "model": hyp})
    upto, left = 0, None
    for k, sr in enumerate(real):
        if sr.get("I") != real[0].get("I"):
            left = "max_cell_id_ changed (division)"
            break
        if k >= len(model):
            dis.append({"iteration": sr["iter"], "field": "snapshot missing in the model answer (model exception: %s)" % mexc})
            break
        sm = model[k]
        if sr["iter"] != sm["iter"] or sr["J"] != sm["J"] or sm["ncells"] != sr["ncells"] or sr.get("I") != sm.get("I"):
            dis.append({"iteration": sr["iter"], "field": "iteration counter / file number / cell count / max_cell_id_", "real": [sr["iter"], sr["J"], sr["ncells"], sr.get("I")],
                        "model": [sm["iter"], sm["J"], sm["ncells"], sm.get("I")]})
            break
        n0, w0 = CRM.compare_tokens([sr["time"]], [sm["time"]], "time", sr["iter"], dis)
        ncmp += n0
        worst = max(worst, w0)
        for ci, (cr, cm) in enumerate(zip(sr["cells"], sm["cells"])):
            if cr["C"][:2] != cm["C"][:2]:
                dis.append({"iteration": sr["iter"], "field": "position %d of the cell list: (cell id, local id)" % ci, "real": cr["C"][:2], "model": cm["C"][:2]})
                break
            n1, w1 = CRM.compare_tokens(cr["C"][2:], cm["C"][2:], "cell at position %d (id %s): type, slot counts, area, volume, target volume, pressure" % (ci, cr["C"][0]), sr["iter"], dis)
            n2, w2 = CRM.compare_tokens(cr["R"], cm["R"], "cell at position %d (id %s): bookkeeping state" % (ci, cr["C"][0]), sr["iter"], dis)
            n3, w3 = CTR.compare_B(cr["B"], cm["B"], "cell at position %d (id %s): node attributes" % (ci, cr["C"][0]), sr["iter"], dis)
            ncmp += n1 + n2 + n3
            worst = max(worst, w1, w2, w3)
        upto = k
        if dis:
            break
    if (rexc or None) != (mexc or None) and left is None and not dis:
        dis.append({"iteration": real[-1]["iter"], "field": "exception that ends the run", "real": rexc, "model": mexc})
    its = [real[k]["iter"] for k in range(upto)]
    bad = [i for i in its if i in dom and not dom[i]["ok"]]
    notlive = [i for i in its if i in dom and not dom[i]["live"]]
    if bad and not dis:
        dis.append({"iteration": bad[0], "field": "model says the state is outside its domain (stepOkTP = false) although the real solver executes the iteration identically",
                    "real": "in domain", "model": json.dumps(dom[bad[0]])})
    for d in dis[:4]:
        V.fail_tie("correspondence", "assembled tissue iteration with removal differs from the real solver: %s" % json.dumps(dict(args, **d), default=str)[:900])
    if notlive and not dis:
        V.fail_tie("correspondence", "tissue with removal, scenario %s: the hypothesis refineLive / replayOk is FALSE on an executed pass (iterations %s)" % (name, notlive[:5]), detail=args)
    D = [dom[i] for i in its if i in dom]
    ev = [(i, dom[i]["positions"]) for i in its if i in dom and dom[i]["removed"]]
    sc = {"name": name, "lmin": lmin, "cells_start": real[0]["ncells"], "cells_end": real[upto]["ncells"], "ids_end": [int(c["C"][0]) for c in real[upto]["cells"]],
          "iterations_run": iters, "iterations_compared": upto, "removal_events": [{"iteration": i, "positions": p} for i, p in ev],
          "removals": sum(d["removed"] for d in D), "events_with_two_removals": sum(1 for d in D if d["removed"] >= 2),
          "removed_first": sum(1 for i, p in ev if 0 in p), "removed_last": sum(1 for i, p in ev if (dom[i]["removed"] and max(p) == len([0 for _ in real[its.index(i)]["cells"]]) - 1)),
          "removed_middle": sum(1 for i, p in ev if any(0 < q < len(real[its.index(i)]["cells"]) - 1 for q in p)),
          "stale_couplings_to_removed_cells": sum(d["stale_to_removed"] for d in D), "stale_couplings_to_renumbered_cells": sum(d["stale_to_moved"] for d in D),
          "iterations_after_first_removal": (upto - its.index(ev[0][0]) - 1) if ev else 0,
          "splits": sum(d["splits"] for d in D), "collapses": sum(d["merges"] for d in D), "swaps": sum(d["swaps"] for d in D), "rebases": sum(1 for d in D if d["rebased"]),
          "iterations_with_couplings": sum(1 for d in D if d["coupled"] > 0), "max_coupled_nodes": max([d["coupled"] for d in D] or [0]),
          "stepOk_false": bad[:5], "refineLive_false": notlive[:5], "real_exception": rexc, "left": left, "doubles": ncmp, "worst_ulps": worst,
          "real_wall": round(rr["wall"], 2), "model_wall": round(mwall, 2)}
    stats["scenarios"].append(sc)
    for key in ("removals", "events_with_two_removals", "removed_first", "removed_last", "removed_middle", "stale_couplings_to_removed_cells",
                "stale_couplings_to_renumbered_cells", "iterations_after_first_removal", "splits", "collapses", "swaps", "rebases", "iterations_with_couplings"):
        stats[key] += sc[key]
    stats["doubles_compared"] += ncmp
    stats["iterations_compared"] += upto
    stats["out_of_domain_iterations"] += len(bad)
    stats["worst_ulps"] = max(stats["worst_ulps"], worst)
    stats["bit_identical"] = stats["bit_identical"] and worst == 0 and not dis
    return sc


# ---------------------------------------------------------------- (2) oracle: two real runs that differ by a translation
def oracle(name, cells, lmin, num_ov, cell_ovs, planned, iters, t, ratio, seed, stats, V):
    args = {"scenario": name, "cells": [[c[0], c[1], list(c[2]), list(c[3]), c[4]] for c in cells], "lmin": lmin, "overrides": num_ov, "cell_overrides": cell_ovs,
            "planned_removals": planned, "iterations": iters, "translation": list(t), "offset_over_size": ratio, "seed": seed, "part": "oracle", "stage": "population"}
    runs = []
    for shift in ((0.0, 0.0, 0.0), t):
        rr, xml = real_run(cells, lmin, num_ov, cell_ovs, iters, shift)
        what, key = SC.classify(rr["rc"], rr["err"])
        if what:
            V.fail_input("%s [tissue with removal %s, shift %r]" % (what, name, list(shift)), args, key=key)
            return
        runs.append(parse_pslots(rr["out"]))
    (ref, xa), (tr, xb) = runs
    stats["oracle_runs"] += 2
    _num, blocks = read_consts_blocks(xml)
    tolr = CTR.tol_rel(ratio, iters)
    tol = tolr * SIZE
    swap = str((num_ov or {}).get("enable_edge_swap_operation", "0")) not in ("0", "false")
    cut = float((num_ov or {}).get("contact_cutoff_adhesion", "5e-7"))
    worst = 0.0
    for k, (sa, sb) in enumerate(zip(ref, tr)):
        ida = [c["C"][:2] for c in sa["cells"]]
        idb = [c["C"][:2] for c in sb["cells"]]
        if ida != idb:
            # a removal decision that flips by rounding: the volume of the cell was within rounding of its minimum volume
            close = False
            if k > 0:
                for c in tr[k - 1]["cells"] + ref[k - 1]["cells"]:
                    mv = blocks[int(c["C"][0])][0]["minVol"]
                    close = close or abs(vlib.unhex(c["C"][6]) - mv) <= 1e3 * tolr * mv
            if close:
                stats["oracle_threshold_flips"] += 1
                return
            V.fail_input("iteration %d: the cell list (id, local id) is %r in the reference run and %r in the run translated by %.3g cell sizes: different cells are removed"
                         % (sa["iter"], ida, idb, ratio), args)
            return
        for ci, (ca, cb) in enumerate(zip(sa["cells"], sb["cells"])):
            Ra, Rb = ca["R"], cb["R"]
            (booka, typesa), (bookb, typesb) = CTR.split_book(Ra), CTR.split_book(Rb)
            if booka != bookb or sa["J"] != sb["J"]:
                prev = [c for c in (ref[k - 1]["cells"] if k > 0 else sa["cells"]) if c["C"][0] == ca["C"][0]]
                margin = CRM.threshold_margin(prev[0]["R"] if prev else Ra, lmin, swap)
                if k == 0 or margin > 1e3 * tolr:
                    V.fail_input("iteration %d, cell id %s: the bookkeeping state of the run translated by %.3g cell sizes differs from the reference run although no edge length / "
                                 "triangle score was within %.2g (relative) of a threshold" % (sa["iter"], ca["C"][0], ratio, margin), args)
                else:
                    stats["oracle_threshold_flips"] += 1
                return
            qa = [x for i, x in enumerate(ca["B"]) if i % 10 in (7, 8)]
            qb = [x for i, x in enumerate(cb["B"]) if i % 10 in (7, 8)]
            if qa != qb or typesa != typesb:
                prevs = [c_["R"] for c_ in (ref[k - 1]["cells"] if k > 0 else sa["cells"])]
                cm = CTR.coupling_margin(prevs, cut)
                if sa["iter"] > CTR.STRICT_ITERS or ratio >= 30.0 or cm < 1e3 * tolr:
                    stats["oracle_late_divergences"] += 1
                    return
                V.fail_input("iteration %d, cell id %s: node couplings / face types differ between the reference run and the run translated by %.3g cell sizes (closest pair %.2g away "
                             "from the cut-off, relative)" % (sa["iter"], ca["C"][0], ratio, cm), args)
                return
            for (ua, pa, ma), (ub, pb, mb) in zip(CRM.node_positions(Ra), CRM.node_positions(Rb)):
                if not ua:
                    if pb != pa:
                        V.fail_input("iteration %d, cell id %s: a released node slot holds %r in the translated run and %r in the reference" % (sa["iter"], ca["C"][0], pb, pa), args)
                        return
                    continue
                for j in range(3):
                    d = abs(pb[j] - t[j] - pa[j])
                    worst = max(worst, d)
                    if d > tol:
                        V.fail_input("iteration %d, cell id %s: a node of the translated run is off by %.3g cell sizes (allowed %.3g) from the translate of the reference"
                                     % (sa["iter"], ca["C"][0], d / SIZE, tol / SIZE), args)
                        return
            for key, nm in ((5, "area"), (6, "volume"), (7, "target volume")):
                x, y = vlib.unhex(ca["C"][key]), vlib.unhex(cb["C"][key])
                if not (abs(x - y) <= (1e-9 + 1e3 * tolr) * max(abs(x), abs(y), 1e-300)):
                    V.fail_input("iteration %d, cell id %s: %s %r vs %r in the translated run" % (sa["iter"], ca["C"][0], nm, x, y), args)
                    return
    else:
        if (xa or None) != (xb or None) or len(ref) != len(tr):
            V.fail_input("the run translated by %.3g cell sizes ends after %d iterations with %r, the reference run after %d iterations with %r"
                         % (ratio, len(tr) - 1, xb, len(ref) - 1, xa), args)
            return
    stats["oracle_removals_in_both_runs"] += ref[0]["ncells"] - ref[-1]["ncells"]
    stats["oracle_worst_deviation_over_size"][str(ratio)] = max(stats["oracle_worst_deviation_over_size"].get(str(ratio), 0.0), worst / SIZE)


# ---------------------------------------------------------------- entry points
def prove_population():
    return vlib.prove(PROOF_PID, THEOREMS_POPULATION, NAMESPACE, extra_targets=(DRIVER,))


def new_stats():
    return {"scenarios": [], "doubles_compared": 0, "iterations_compared": 0, "worst_ulps": 0, "bit_identical": True, "removals": 0, "events_with_two_removals": 0,
            "removed_first": 0, "removed_last": 0, "removed_middle": 0, "stale_couplings_to_removed_cells": 0, "stale_couplings_to_renumbered_cells": 0,
            "iterations_after_first_removal": 0, "splits": 0, "collapses": 0, "swaps": 0, "rebases": 0, "iterations_with_couplings": 0, "out_of_domain_iterations": 0,
            "probe_runs": 0, "unplanned_scenarios": 0, "oracle_runs": 0, "oracle_threshold_flips": 0, "oracle_late_divergences": 0, "oracle_removals_in_both_runs": 0,
            "oracle_worst_deviation_over_size": {}}


def run_population(V, tier, seed, stats):
    t0 = time.time()
    stats.update(new_stats())
    drv = vlib.driver_path(DRIVER)
    if not os.path.exists(drv):
        ok, log, _ = vlib.lake_build([DRIVER])
        if not ok or not os.path.exists(drv):
            V.fail_tie("correspondence", "assembled tissue iteration with removal: model driver %s does not build: %s" % (DRIVER, log[-400:]))
            return stats
    r = vlib.Rng(seed).fork("c14-population")
    cases = []
    for (name, kind, rule, num_ov, growth, events, tail) in scenario_list(r, tier):
        cells = tissue(r, kind)
        if name.startswith("far-"):
            cells = [(c[0], c[1], (c[2][0] + 3e-4, c[2][1] - 2e-4, c[2][2] + 1e-4), c[3], c[4]) for c in cells]
        lmin = CTR.lmin_of(rule, cells)
        args = {"scenario": name, "cells": [[c[0], c[1], list(c[2]), list(c[3]), c[4]] for c in cells], "lmin": lmin, "overrides": num_ov, "seed": seed, "stage": "population"}
        plan = plan_min_vols(cells, lmin, num_ov, growth, events, V, args)
        if plan is None:
            stats["unplanned_scenarios"] += 1
            continue
        minv, done, runs = plan
        stats["probe_runs"] += runs
        cell_ovs = [{"min_vol": minv[i], "avg_growth_rate": growth[i]} for i in range(len(cells))]
        iters = done[-1][0] + 1 + tail
        cases.append((name, cells, lmin, num_ov, cell_ovs, done, iters))
        correspond(name, cells, lmin, num_ov, cell_ovs, done, iters, seed, stats, V)
    if (stats["removals"] < 5 or stats["events_with_two_removals"] == 0 or stats["removed_first"] == 0 or stats["removed_last"] == 0 or stats["removed_middle"] == 0
            or stats["stale_couplings_to_removed_cells"] == 0 or stats["stale_couplings_to_renumbered_cells"] == 0 or stats["iterations_after_first_removal"] < 20):
        V.fail_tie("correspondence", "assembled tissue iteration with removal: the scenario set executed %d removals (%d events with two, first %d, middle %d, last %d), %d / %d stale "
                   "couplings to removed / renumbered cells, %d iterations after a removal — the stage tests too little (unplanned scenarios: %d)" % (
                       stats["removals"], stats["events_with_two_removals"], stats["removed_first"], stats["removed_middle"], stats["removed_last"],
                       stats["stale_couplings_to_removed_cells"], stats["stale_couplings_to_renumbered_cells"], stats["iterations_after_first_removal"], stats["unplanned_scenarios"]))
    ro = vlib.Rng(seed).fork("c14-population-oracle")
    ratios = (1e-2, 1.0, 30.0, 1e3)
    picks = cases[:2] if tier != "thorough" else cases[:4]
    for i, (name, cells, lmin, num_ov, cell_ovs, done, iters) in enumerate(picks):
        rs = ratios if tier == "thorough" else (ratios[(2 * i + 1) % 4], ratios[(2 * i + 2) % 4])
        for ratio in rs:
            d = [ro.normal() for _ in range(3)]
            n = math.sqrt(sum(x * x for x in d))
            t = [x / n * ratio * SIZE for x in d]
            oracle(name, cells, lmin, num_ov, cell_ovs, done, iters, t, ratio, seed, stats, V)
    stats["wall"] = round(time.time() - t0, 1)
    return stats


def replay(ctx):
    rp = ctx["replay"]
    inp = {}
    if isinstance(rp, dict):
        inp = (rp.get("failing_input") or {}).get("input") or rp.get("input") or rp
    print(json.dumps(rp, indent=1, default=str)[:3000])
    if not isinstance(inp, dict) or "cells" not in inp or "cell_overrides" not in inp:
        print("re-run: VERIF_SEED=<seed of the replay> python3 tools/check.py C14")
        return 1
    cells = [(c[0], c[1], tuple(c[2]), tuple(c[3]), c[4]) for c in inp["cells"]]
    planned = [(k, list(ids)) for k, ids in inp.get("planned_removals", [])]
    V = vlib.Verdict("C14")
    stats = new_stats()
    if inp.get("stage") == "division":
        correspond_division(inp.get("scenario", "replay"), cells, inp["lmin"], inp.get("overrides") or {}, inp["cell_overrides"], inp["iterations"], inp.get("seed", 0), stats, V)
    elif inp.get("part") == "oracle":
        oracle(inp.get("scenario", "replay"), cells, inp["lmin"], inp.get("overrides") or {}, inp["cell_overrides"], planned, inp["iterations"], inp["translation"],
               inp["offset_over_size"], inp.get("seed", 0), stats, V)
    else:
        correspond(inp.get("scenario", "replay"), cells, inp["lmin"], inp.get("overrides") or {}, inp["cell_overrides"], planned, inp["iterations"], inp.get("seed", 0), stats, V)
    for f in V.concrete + V.broken:
        print("FAIL", json.dumps(f, default=str)[:800])
    return 1 if (V.concrete or V.broken) else 0


# ================================================================ stage 2 (partial): the DIVISION ROUND inside the assembled model
THEOREMS_DIVISION = ["removeIdx_translate_D", "rebaseReady_translate", "daughters_flat_translate", "divisionRoundD_translate", "refineStageT_translate",
                     "afterDividerD_translate", "restD_translate", "tissueIterationD_translate_partial", "tissueRunD_translate_partial", "divisionRoundD_population"]
PROOF_PID_D = "C14Division"


def split_ds(out):
    """(text without the `DS … DE` blocks, [block: iter, J, I, cells[{C, R, B}]])"""
    main, blocks, cur = [], [], None
    for line in out.splitlines():
        w = line.split()
        if w and w[0] == "DS":
            cur = {"iter": int(w[1]), "J": None, "I": None, "cells": []}
            continue
        if cur is not None:
            if w and w[0] == "DE":
                blocks.append(cur)
                cur = None
            elif w and w[0] == "J":
                cur["J"] = int(w[1])
            elif w and w[0] == "I":
                cur["I"] = int(w[1])
            elif w and w[0] == "C":
                cur["cells"].append({"C": w[1:], "R": None, "B": None})
            elif w and w[0] in ("R", "B") and cur["cells"]:
                cur["cells"][-1][w[0]] = w[1:]
            continue
        main.append(line)
    return "\n".join(main), blocks


def request_line_d(num, blocks, sampling, swap, snaps, ds, n):
    w = request_line(num, blocks, sampling, swap, snaps[0], n, 1).split()
    w[0] = "tissued"
    prevI = {s["iter"]: s["I"] for s in snaps}
    w += ["DSN", str(len(ds))]
    for b in ds:
        fresh = [c for c in b["cells"] if int(c["C"][0]) >= prevI.get(b["iter"], 0)]
        w += ["DS", str(b["iter"]), str(len(b["cells"]))] + [c["C"][0] for c in b["cells"]] + [str(len(fresh))]
        for c in fresh:
            C = c["C"]
            w += [C[0], C[5], C[6], C[7], C[8]] + c["R"] + ["|"] + c["B"]
    return " ".join(w)


def compare_cell_lists(real_cells, model_cells, what, it, dis):
    ncmp, worst = 0, 0
    if len(real_cells) != len(model_cells):
        dis.append({"iteration": it, "field": "%s: number of cells" % what, "real": len(real_cells), "model": len(model_cells)})
        return 0, 0
    for ci, (cr, cm) in enumerate(zip(real_cells, model_cells)):
        if cr["C"][:2] != cm["C"][:2]:
            dis.append({"iteration": it, "field": "%s, position %d of the cell list: (cell id, local id)" % (what, ci), "real": cr["C"][:2], "model": cm["C"][:2]})
            break
        n1, w1 = CRM.compare_tokens(cr["C"][2:], cm["C"][2:], "%s, position %d (id %s): type, slot counts, area, volume, target volume, pressure" % (what, ci, cr["C"][0]), it, dis)
        n2, w2 = CRM.compare_tokens(cr["R"], cm["R"], "%s, position %d (id %s): bookkeeping state" % (what, ci, cr["C"][0]), it, dis)
        n3, w3 = CTR.compare_B(cr["B"], cm["B"], "%s, position %d (id %s): node attributes" % (what, ci, cr["C"][0]), it, dis)
        ncmp += n1 + n2 + n3
        worst = max(worst, w1, w2, w3)
    return ncmp, worst


def correspond_division(name, cells, lmin, num_ov, cell_ovs, iters, seed, stats, V):
    args = {"scenario": name, "cells": [[c[0], c[1], list(c[2]), list(c[3]), c[4]] for c in cells], "lmin": lmin, "overrides": num_ov, "cell_overrides": cell_ovs,
            "iterations": iters, "seed": seed, "part": "correspondence", "stage": "division"}
    with SC.Workdir() as wd:
        params = write_case(wd, cells, lmin, num_ov, cell_ovs)
        xml = open(params).read()
        exe, _ = SC.build("asan")
        rr = SC.run(exe, params, iters, 1, 1, mode="dslots", timeout=2400)
    what, key = SC.classify(rr["rc"], rr["err"])
    if what:
        V.fail_input("%s [tissue with division, scenario %s]" % (what, name), args, key=key)
        return None
    text, ds = split_ds(rr["out"])
    real, rexc = parse_pslots(text)
    if not real or "I" not in real[0]:
        V.fail_tie("correspondence", "tissue with division, scenario %s: no snapshot in mode `dslots` (%s)" % (name, rr["out"][-200:]))
        return None
    num, blocks = read_consts_blocks(xml)
    sampling = float(re.search(r"<sampling_period>([^<]*)<", xml).group(1))
    swap = re.search(r"<enable_edge_swap_operation>([^<]*)<", xml).group(1).strip() not in ("0", "false")
    req = request_line_d(num, blocks, sampling, swap, real, ds, iters)
    t1 = time.time()
    lines, rc, err = vlib.run_lines(vlib.driver_path(DRIVER), [req], timeout=3000)
    mwall = time.time() - t1
    if rc != 0 or not lines or lines[-1] != "END":
        V.fail_tie("correspondence", "tissue with division, scenario %s: model driver answered %r (rc %s) %s" % (name, lines[-1:] if lines else None, rc, err[-200:]))
        return None
    mtext, mds = split_ds("\n".join(l for l in lines if not l.startswith(("O ", "H "))))
    model, mexc = parse_pslots(mtext)
    dom = {}
    for l in lines:
        w = l.split()
        if l.startswith("O "):
            dom[int(w[1])] = {"ok": w[2] == "1", "ready": int(w[3]), "divisions": int(w[4]), "removed": int(w[5]), "splits": int(w[6]), "merges": int(w[7]), "rebased": w[8] == "1"}
    dis, ncmp, worst, upto = [], 0, 0, 0
    if (rexc or None) != (mexc or None):
        dis.append({"iteration": real[-1]["iter"], "field": "exception that ends the run", "real": rexc, "model": mexc})
    for k, sr in enumerate(real):
        if dis:
            break
        if k >= len(model):
            dis.append({"iteration": sr["iter"], "field": "snapshot missing in the model answer (model exception: %s)" % mexc})
            break
        sm = model[k]
        if (sr["iter"], sr["J"], sr["ncells"], sr.get("I")) != (sm["iter"], sm["J"], sm["ncells"], sm.get("I")):
            dis.append({"iteration": sr["iter"], "field": "iteration counter / file number / cell count / max_cell_id_", "real": [sr["iter"], sr["J"], sr["ncells"], sr.get("I")],
                        "model": [sm["iter"], sm["J"], sm["ncells"], sm.get("I")]})
            break
        n0, w0 = CRM.compare_tokens([sr["time"]], [sm["time"]], "time", sr["iter"], dis)
        n1, w1 = compare_cell_lists(sr["cells"], sm["cells"], "end of iteration", sr["iter"], dis)
        ncmp += n0 + n1
        worst = max(worst, w0, w1)
        upto = k
    if [b["iter"] for b in ds] != [b["iter"] for b in mds] and not dis:
        dis.append({"iteration": -1, "field": "iterations with a list printed right after cell_divider::run", "real": [b["iter"] for b in ds], "model": [b["iter"] for b in mds]})
    for br, bm in zip(ds, mds):
        if dis:
            break
        if (br["J"], br["I"]) != (bm["J"], bm["I"]):
            dis.append({"iteration": br["iter"], "field": "after cell_divider::run: file number / max_cell_id_", "real": [br["J"], br["I"]], "model": [bm["J"], bm["I"]]})
        n1, w1 = compare_cell_lists(br["cells"], bm["cells"], "list right after cell_divider::run", br["iter"], dis)
        ncmp += n1
        worst = max(worst, w1)
    its = [real[k]["iter"] for k in range(upto)]
    bad = [i for i in its if i in dom and not dom[i]["ok"]]
    if bad and not dis:
        dis.append({"iteration": bad[0], "field": "model says the state is outside its domain (stepOkTD = false) although the real solver executes the iteration identically",
                    "real": "in domain", "model": json.dumps(dom[bad[0]])})
    for d in dis[:4]:
        V.fail_tie("correspondence", "assembled tissue iteration with division round differs from the real solver: %s" % json.dumps(dict(args, **d), default=str)[:900])
    # oracle on the real dumps (independent of the model): ids fresh, counter + 2 per division, local ids = positions, daughters' target volume = half the mother's
    for k in range(1, len(real)):
        a, b = real[k - 1], real[k]
        ida, idb = [int(c["C"][0]) for c in a["cells"]], [int(c["C"][0]) for c in b["cells"]]
        new = [i for i in idb if i not in ida]
        if [int(c["C"][1]) for c in b["cells"]] != list(range(len(idb))):
            V.fail_input("iteration %d: local ids are not the positions in the list" % b["iter"], args)
        if new and (sorted(new) != list(range(a["I"], b["I"])) or b["I"] - a["I"] != len(new) or len(new) % 2):
            V.fail_input("iteration %d: new cell ids %r, counter %d -> %d" % (b["iter"], new, a["I"], b["I"]), args)
    for blk in ds:
        prev = [s_ for s_ in real if s_["iter"] == blk["iter"]]
        if not prev:
            continue
        tv = {int(c["C"][0]): c["C"][7] for c in prev[0]["cells"]}
        gone = [i for i in tv if i not in [int(c["C"][0]) for c in blk["cells"]]]
        fresh = [c for c in blk["cells"] if int(c["C"][0]) >= prev[0]["I"]]
        for j, m in enumerate(gone):
            for c in fresh:
                if int(c["C"][0]) in (prev[0]["I"] + 2 * j, prev[0]["I"] + 2 * j + 1) and vlib.unhex(c["C"][7]) != vlib.unhex(tv[m]) / 2:
                    V.fail_input("iteration %d: daughter %s of cell %d has target volume %r, the mother had %r" % (blk["iter"], c["C"][0], m, vlib.unhex(c["C"][7]), vlib.unhex(tv[m])), args)
    D = [dom[i] for i in its if i in dom]
    sc = {"name": name, "cells_start": real[0]["ncells"], "cells_end": real[upto]["ncells"], "ids_end": [int(c["C"][0]) for c in real[upto]["cells"]], "iterations_compared": upto,
          "division_rounds_with_attempts": len(ds), "divisions": sum(d["divisions"] for d in D), "ready_cells": sum(d["ready"] for d in D),
          "failed_divisions": sum(d["ready"] - d["divisions"] for d in D), "division_iterations": [i for i in its if i in dom and dom[i]["divisions"]],
          "removals": sum(d["removed"] for d in D), "splits": sum(d["splits"] for d in D), "collapses": sum(d["merges"] for d in D), "rebases": sum(1 for d in D if d["rebased"]),
          "stepOk_false": bad[:5], "real_exception": rexc, "doubles": ncmp, "worst_ulps": worst, "real_wall": round(rr["wall"], 2), "model_wall": round(mwall, 2)}
    stats["scenarios"].append(sc)
    for key in ("divisions", "failed_divisions", "removals", "splits", "collapses", "rebases", "division_rounds_with_attempts"):
        stats[key] = stats.get(key, 0) + sc[key]
    stats["second_generation_divisions"] = stats.get("second_generation_divisions", 0) + (1 if len(sc["division_iterations"]) >= 2 else 0)
    stats["doubles_compared"] = stats.get("doubles_compared", 0) + ncmp
    stats["iterations_compared"] = stats.get("iterations_compared", 0) + upto
    stats["worst_ulps"] = max(stats.get("worst_ulps", 0), worst)
    stats["bit_identical"] = stats.get("bit_identical", True) and worst == 0 and not dis
    return sc


def division_scenarios(r, tier):
    """(name, cells, lmin rule, numerical overrides, per-cell overrides, iterations); V0 ≈ volume of a 5e-6 icosphere"""
    V0 = 4.6e-16
    j = lambda a: r.uniform(-a, a)
    big = lambda c: CTR.ico(2, 5e-6, c)
    g = "3e-10"
    out = [
        # cell 0 divides in iteration 0, cell 1 never; the daughters grow and divide again (iterations ≡ 0 mod 5) while they adhere to cell 1 and are remeshed
        ("divide-then-again", [big((0, 0, 0)), big((9.6e-6 + j(1e-7), 1e-7, 0))], ("min", 0.9), {"sampling_period": "1e-6"},
         [{"min_vol": TINY, "avg_growth_rate": g, "avg_division_volume": repr(0.6 * V0)}, {"min_vol": TINY, "avg_growth_rate": g, "avg_division_volume": "1"}], 32),
        # both cells divide in the same round
        ("two-mothers-one-round", [big((0, 0, 0)), big((9.7e-6 + j(1e-7), j(1e-7), 0))], ("min", 0.95), {"sampling_period": "8e-7"},
         [{"min_vol": TINY, "avg_growth_rate": g, "avg_division_volume": repr(0.7 * V0)}, {"min_vol": TINY, "avg_growth_rate": g, "avg_division_volume": repr(0.7 * V0)}], 22),
    ]
    if tier == "thorough":
        out += [
            ("three-cells-middle-divides", [big((0, 0, 0)), big((9.6e-6, j(1e-7), 0)), big((19.2e-6, j(1e-7), 0))], ("min", 0.9), {"sampling_period": "1e-6"},
             [{"min_vol": TINY, "avg_growth_rate": g, "avg_division_volume": "1"}, {"min_vol": TINY, "avg_growth_rate": g, "avg_division_volume": repr(0.6 * V0)},
              {"min_vol": TINY, "avg_growth_rate": g, "avg_division_volume": "1"}], 32),
        ]
    return out


def prove_division():
    return vlib.prove(PROOF_PID_D, THEOREMS_DIVISION, NAMESPACE, extra_targets=(DRIVER,))


def run_division(V, tier, seed, stats):
    t0 = time.time()
    stats.update({"scenarios": []})
    r = vlib.Rng(seed).fork("c14-division")
    for (name, cells, rule, num_ov, cell_ovs, iters) in division_scenarios(r, tier):
        lmin = CTR.lmin_of(rule, cells)
        correspond_division(name, cells, lmin, num_ov, cell_ovs, iters, seed, stats, V)
    if stats.get("divisions", 0) < 3 or stats.get("second_generation_divisions", 0) == 0:
        V.fail_tie("correspondence", "assembled tissue iteration with division round: only %d divisions, %d scenarios in which a daughter divides again — the stage tests too little"
                   % (stats.get("divisions", 0), stats.get("second_generation_divisions", 0)))
    stats["wall"] = round(time.time() - t0, 1)
    return stats


if __name__ == "__main__":
    import sys
    if len(sys.argv) > 1 and sys.argv[1] == "probe":
        cells = [CTR.ico(2, 5e-6, (0, 0, 0)), CTR.ico(1, 3e-6, (7.6e-6, 1e-7, 0), (1.0, 0.95, 1.05), 0.04), CTR.ico(2, 5e-6, (15.2e-6, 2e-7, 0)),
                 CTR.ico(1, 3e-6, (7.6e-6, 7.0e-6, 1e-7), (1.0, 0.95, 1.05), 0.04)]
        lmin = CTR.lmin_of(("min", 0.9), cells)
        ovs = [{"min_vol": TINY, "avg_growth_rate": "0"} for _ in cells]
        rr, xml = real_run(cells, lmin, {"sampling_period": "3e-6"}, ovs, int(sys.argv[2]) if len(sys.argv) > 2 else 60)
        print(rr["rc"], rr["err"][-500:], round(rr["wall"], 1))
        snaps, exc = parse_pslots(rr["out"])
        vs = volumes(snaps)
        for k, v in enumerate(vs):
            if k % 5 == 0:
                print(k, snaps[k]["I"], ["%.4f" % (v[i] / vs[0][i]) for i in sorted(v)], [CTR.count_state(c)[0] for c in snaps[k]["cells"]])
        sys.exit(0)
    if len(sys.argv) > 1 and sys.argv[1] == "division":
        V = vlib.Verdict("C14")
        st = {}
        run_division(V, sys.argv[2] if len(sys.argv) > 2 else "quick", vlib.seed(), st)
        print(json.dumps(st, indent=1, default=str))
        print("FAILURES", json.dumps(V.concrete + V.broken, indent=1, default=str)[:6000])
        sys.exit(0)
    V = vlib.Verdict("C14")
    st = {}
    run_population(V, sys.argv[1] if len(sys.argv) > 1 else "quick", vlib.seed(), st)
    print(json.dumps(st, indent=1, default=str))
    print("FAILURES", json.dumps(V.concrete + V.broken, indent=1, default=str)[:6000])
