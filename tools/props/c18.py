"""C18 — every XML parameter reaches the simulation with its value and meaning intact.

Tie      translator: tools/gen/c18_params.py re-extracts the parameter tables from parameter_reader.cpp
         (Gen/ParamTable.lean); correspondence: real parameter_reader (harness/h_params.cpp) vs the model
         Params.readParams run by drv_c18 on the element tree that tinyxml2 itself reports for the file.
Proofs   lean/SimuVerif/Properties/C18.lean (tables against the specification by `decide`; round trip,
         order, INF, missing tag, sign violation, duplicates for every well-formed table).
Oracle   independent restatement: files are generated from parameter structures following the
         SPECIFICATION rows of Properties/C18.lean (not the extracted tables); what the real reader
         returns is compared member by member with the generated values / the expected rejection.
Run      `run` cases drive simulation_initializer + solver with generated (dt, T, S): iteration count,
         file count, final time and the parameter values sitting in the solver / the first cell's type.
"""
import os, sys, re, time, json, math, shutil, tempfile
import vlib
from vlib import Rng, fhex, unhex

PID = "C18"
NAMESPACE = "Simu.C18"
THEOREMS = ["tables_match_spec", "order_checks_match_spec", "tables_wf", "tags_distinct_across_sections",
            "structure_names", "unread_members", "doc_agrees", "values_consumed",
            "readValue_str", "readValue_dbl", "readValue_int", "readValue_bool", "convInt_id", "inf_maps", "inf_entries",
            "roundtrip_section", "order_and_unknown_tags_irrelevant", "duplicate_first_wins",
            "missing_tag_rejected", "sign_violation_rejected", "single_omitted_tag", "single_sign_violation",
            "single_order_violation", "readCell_roundtrip", "roundtrip", "order_of_types_preserved",
            "order_of_face_types_preserved", "missing_structure_rejected"]
GEN = ["ParamTable"]
KEY_CURV = "curvature-sign-check-wrong-member"
# the solver runs hit the missing virtual destructors of the statistics writer / contact model (DESIGN §7, C10): not C18's subject
HENV = dict(vlib.ENV)
HENV["ASAN_OPTIONS"] = vlib.ENV["ASAN_OPTIONS"] + ":new_delete_type_mismatch=0"


# ------------------------------------------------------------------------------------------ specification (single source: the Lean file)
def load_spec():
    txt = open(os.path.join(vlib.LEAN, "SimuVerif", "Properties", "C18.lean")).read()
    spec = {}
    for m in re.finditer(r"-- SPEC-BEGIN (\w+).*?\n(.*?)-- SPEC-END", txt, re.S):
        rows = []
        for r in re.finditer(r'⟨"([^"]+)",\s*"([^"]+)",\s*\.(\w+),\s*\.(\w+),\s*(true|false)⟩', m.group(2)):
            rows.append({"tag": r.group(1), "field": r.group(2), "kind": r.group(3), "sign": r.group(4), "inf": r.group(5) == "true"})
        spec[m.group(1)] = rows
    if sorted(spec) != ["cell", "face", "numerical"] or not all(spec.values()):
        raise RuntimeError("specification rows of Properties/C18.lean could not be read")
    return spec


# ------------------------------------------------------------------------------------------ number texts
def num_text(r, v):
    """a decimal rendering of the double v (the value the file MEANS is float(text) of what is returned)"""
    if v == 0:
        return r.choice(["0", "0.0", "0.", "0e0", "0.0e-10", "-0.0"]) if math.copysign(1, v) > 0 else r.choice(["-0.0", "-0", "-0e5"])
    f = r.randint(0, 7)
    if f == 0:
        return repr(v)
    if f == 1:
        return "%e" % v
    if f == 2:
        return "%.3E" % v
    if f == 3:
        return "%.17g" % v
    if f == 4:
        return "%g" % v
    if f == 5:
        m, e = ("%.2e" % v).split("e")
        return "%se%d" % (m, int(e))
    if f == 6:
        m, e = ("%.4e" % v).split("e")
        return "%sE%+03d" % (m, int(e))
    return ("+" if v > 0 and r.randint(0, 3) == 0 else "") + ("%.6g" % v)


def magnitude(r):
    k = r.randint(0, 9)
    if k <= 4:
        return 10.0 ** r.uniform(-30, 30) * r.uniform(1, 10)
    if k <= 6:
        return float(r.choice([1, 2, 5, 10, 150, 250, 1000, 2500])) * 10.0 ** r.randint(-20, 12)
    if k == 7:
        return float(r.randint(1, 100000))
    return r.uniform(0.001, 1000.0)


def gen_double(r, sign):
    """(text, note) of an admissible value for the sign rule"""
    m = magnitude(r)
    if sign == "pos":
        v = m
    elif sign == "nonneg":
        v = r.choice([m, m, m, 0.0, -0.0])
    else:
        v = r.choice([m, m, -m, 0.0, -0.0, -m])
    return num_text(r, v)


def gen_violation(r, sign):
    m = magnitude(r)
    if sign == "pos":
        return num_text(r, r.choice([0.0, -0.0, -m, -m]))
    return num_text(r, -m)


NAME_CH = "abcdefghijklmnopqrstuvwxyzABCDEFGHIJKLMNOPQRSTUVWXYZ0123456789_"


def gen_name(r, path=False):
    s = "".join(r.choice(NAME_CH) for _ in range(r.randint(1, 14)))
    if path:
        s = r.choice(["/", "./", "../", ""]) + "/".join("".join(r.choice(NAME_CH + ".-") for _ in range(r.randint(1, 9))) for _ in range(r.randint(1, 4))) + r.choice([".vtk", "", "/"])
        s = s or "x"
    return s


def gen_value(r, row):
    k = row["kind"]
    if k == "str":
        return gen_name(r, path="path" in row["tag"])
    if k == "bool":
        return r.choice(["0", "1", "1", "0", "2", "-1", "+1", "00", "7"])
    if k == "int":
        n = r.choice([r.randint(0, 6), r.randint(0, 6), r.randint(0, 32767), r.randint(7, 300)])
        if row["sign"] == "none" and r.randint(0, 5) == 0:
            n = -r.randint(1, 32768)
        return r.choice(["%d", "%d", "%d", "+%d", "0%d"]) % n if n >= 0 else "%d" % n
    if row["inf"] and r.randint(0, 3) == 0:
        return r.choice(["INF", "INF", "inf", "Inf", "iNF"])
    return gen_double(r, row["sign"])


def gen_section(r, rows, fixed=None):
    """list of (tag, text) — every specification tag once, shuffled, with unknown elements in between"""
    ch = [(row["tag"], (fixed or {}).get(row["tag"]) or gen_value(r, row)) for row in rows]
    r.shuffle(ch)
    for _ in range(r.choice([0, 0, 0, 1, 2])):
        ch.insert(r.randint(0, len(ch)), (r.choice(["INMForce", "comment", "unknown_tag", "x_" + gen_name(r)]), r.choice(["0", "abc", "1e5", "-3"])))
    return ch


def fix_order(r, ch):
    """make sampling_period >= time_step in a numerical section (documented relation)"""
    d = dict(ch)
    dt = float(d["time_step"])
    s = dt * r.choice([1.0, 1.0 + r.uniform(0, 9), r.uniform(1, 1000), 10.0 ** r.uniform(0, 6)])
    if s < dt or math.isinf(s):
        s = dt
    txt = repr(s) if s != dt else d["time_step"]
    if float(txt) < dt:
        txt = d["time_step"]
    return [(t, txt if t == "sampling_period" else v) for t, v in ch]


def gen_case(r, spec, kind=None, target=None):
    ncell = r.choice([1, 1, 2, 2, 3, 4, 5, 6])
    num = fix_order(r, gen_section(r, spec["numerical"]))
    cells = []
    for _ in range(ncell):
        faces = [gen_section(r, spec["face"]) for _ in range(r.randint(1, 5))]
        cells.append({"children": gen_section(r, spec["cell"]), "faces": faces, "face_pos": r.randint(0, 14)})
    case = {"kind": kind or "valid", "num": num, "cells": cells, "target": None, "fmt": r.randint(0, 3)}
    kind = case["kind"]
    if kind == "valid":
        return case

    def pick_section(secname):
        if secname == "numerical":
            return case["num"], None
        ci = r.randint(0, ncell - 1)
        if secname == "cell":
            return cells[ci]["children"], ci
        fi = r.randint(0, len(cells[ci]["faces"]) - 1)
        return cells[ci]["faces"][fi], (ci, fi)
    if kind in ("omit", "sign", "dup", "badnum"):
        if target is None:
            pool = [(s, row) for s in spec for row in spec[s]
                    if kind in ("omit", "dup") or (kind == "sign" and row["sign"] != "none") or (kind == "badnum" and row["kind"] in ("dbl", "int", "bool"))]
            target = r.choice(pool)
        secname, row = target
        ch, where = pick_section(secname)
        idx = [i for i, (t, _) in enumerate(ch) if t == row["tag"]][0]
        if kind == "omit":
            del ch[idx]
        elif kind == "sign":
            bad = gen_violation(r, row["sign"]) if row["kind"] == "dbl" else "-%d" % r.randint(1, 300)
            ch[idx] = (row["tag"], bad)
        elif kind == "badnum":
            ch[idx] = (row["tag"], r.choice(["abc", "e5", "--1", "x1", ".", "+", "nanx" if row["kind"] != "dbl" else "abc"]))
        else:
            other = gen_violation(r, row["sign"]) if (row["sign"] != "none" and row["kind"] == "dbl" and r.randint(0, 1)) else gen_value(r, row)
            ch.insert(r.randint(idx + 1, len(ch)), (row["tag"], other))
        case["target"] = {"section": secname, "tag": row["tag"], "where": where}
    elif kind == "order":
        d = dict(num)
        dt = float(d["time_step"])
        s = dt * r.uniform(0.001, 0.999)
        if not (0 < s < dt):
            s = dt / 2
        case["num"] = [(t, repr(s) if t == "sampling_period" else v) for t, v in num]
        case["target"] = {"section": "numerical", "tag": "sampling_period", "where": None}
    elif kind == "structure":
        what = target or r.choice(["no_numerical", "no_cell_types", "zero_cells", "no_face_types", "zero_faces"])
        ci = r.randint(0, ncell - 1)
        if what == "no_numerical":
            case["num"] = None
        elif what == "no_cell_types":
            case["cells"] = None
        elif what == "zero_cells":
            case["cells"] = []
        elif what == "no_face_types":
            cells[ci]["faces"] = None
        else:
            cells[ci]["faces"] = []
        case["target"] = {"section": "structure", "tag": what, "where": ci}
    return case


# ------------------------------------------------------------------------------------------ XML rendering
def render_xml(case, r):
    fmt = case.get("fmt", 0)
    nl = "\n" if fmt != 1 else " "
    ind = "    " if fmt in (0, 2) else ""
    out = ['<?xml version="1.0"?>'] if fmt != 3 else []

    def leaf(t, v, depth):
        c = ""
        if fmt == 2 and r.randint(0, 2) == 0:
            c = ind * depth + "<!-- The %s [M / (T^2 L)] <! -->%s" % (t, nl)
        return c + ind * depth + "<%s>%s</%s>%s" % (t, v, t, " " if fmt == 0 else "")
    if case["num"] is not None:
        out.append("<numerical_parameters>")
        out += [leaf(t, v, 1) for t, v in case["num"]]
        out.append("</numerical_parameters>")
    if case["cells"] is not None:
        out.append("<cell_types>")
        for c in case["cells"]:
            out.append(ind + "<cell_type>")
            lines = [leaf(t, v, 2) for t, v in c["children"]]
            if c["faces"] is not None:
                fl = [ind * 2 + "<face_types>"]
                for f in c["faces"]:
                    fl.append(ind * 3 + "<face_type>")
                    fl += [leaf(t, v, 4) for t, v in f]
                    fl.append(ind * 3 + "</face_type>")
                fl.append(ind * 2 + "</face_types>")
                lines.insert(min(c.get("face_pos", len(lines)), len(lines)), nl.join(fl))
            out += lines
            out.append(ind + "</cell_type>")
        out.append("</cell_types>")
    return nl.join(out) + "\n"


# ------------------------------------------------------------------------------------------ wire
def xs(s):
    return "x" + s.encode().hex()


def unx(w):
    return bytes.fromhex(w[1:]).decode(errors="replace")


STOD = re.compile(r"[ \t\n\v\f\r]*([+-]?(?:(?:\d+\.?\d*|\.\d+)(?:[eE][+-]?\d+)?|inf(?:inity)?|nan))", re.I)
STOI = re.compile(r"[ \t\n\v\f\r]*([+-]?\d+)")


def stod(text):
    """what std::stod returns on well-formed decimal text (glibc strtod and Python float are both correctly rounded);
    None when it throws"""
    m = STOD.match(text)
    if not m:
        return None
    tok = m.group(1)
    v = float(tok)
    lit = tok.lstrip("+-").lower()
    if lit[0].isdigit() or lit[0] == ".":
        if math.isinf(v):
            return None          # ERANGE -> std::out_of_range
        mant = re.sub(r"[eE].*", "", lit)
        if (v == 0 or abs(v) < 2.2250738585072014e-308) and any(c in "123456789" for c in mant):
            return None          # underflow -> ERANGE
    return v


def stoi(text):
    m = STOI.match(text)
    if not m:
        return None
    n = int(m.group(1))
    return n if -2 ** 31 <= n < 2 ** 31 else None


def parse_dom(line):
    """tree from the harness's `dom` answer: (num children | None, cells | None) ; cells: [(children, faces|None)]"""
    w = line.split()
    pos = [0]

    def nxt():
        pos[0] += 1
        return w[pos[0] - 1]

    def pairs(k):
        return [(unx(nxt()), unx(nxt())) for _ in range(k)]
    assert nxt() == "N"
    k = int(nxt())
    num = None if k < 0 else pairs(k)
    assert nxt() == "C"
    n = int(nxt())
    if n < 0:
        return num, None
    cells = []
    for _ in range(n):
        assert nxt() == "L"
        ch = pairs(int(nxt()))
        assert nxt() == "F"
        m = int(nxt())
        faces = None
        if m >= 0:
            faces = []
            for _ in range(m):
                assert nxt() == "S"
                faces.append(pairs(int(nxt())))
        cells.append((ch, faces))
    return num, cells


def expected_tree(case):
    num = case["num"]
    cells = None if case["cells"] is None else [(c["children"], c["faces"]) for c in case["cells"]]
    return num, cells


def norm_tree(t):
    num, cells = t
    return (None if num is None else [tuple(p) for p in num],
            None if cells is None else [([tuple(p) for p in ch], None if fs is None else [[tuple(p) for p in f] for f in fs]) for ch, fs in cells])


def numtable(tree):
    texts = []
    num, cells = tree
    for sec in ([num] if num else []) + [s for ch, fs in (cells or []) for s in [ch] + (fs or [])]:
        for _, v in sec:
            for t in (v, v.lower()):
                if t not in texts:
                    texts.append(t)
    toks = []
    for t in texts:
        d, i = stod(t), stoi(t)
        toks += [xs(t), "-" if d is None else "d" + fhex(d), "-" if i is None else "i%d" % i]
    return "D %d %s" % (len(texts), " ".join(toks))


def parse_answer(line):
    """'ok …' -> ('ok', num dict, [(cell dict, [face dicts])]) ; 'exc cls xmsg' -> ('exc', cls, msg) ; 'err …' -> ('err', kind, tag, k)"""
    w = line.split()
    if not w:
        return ("bad", line)
    if w[0] == "exc":
        return ("exc", w[1] if len(w) > 1 else "?", unx(w[2]) if len(w) > 2 else "")
    if w[0] == "err":
        return ("err", w[1], unx(w[2]) if len(w) > 2 else None, int(w[3]) if len(w) > 3 else None)
    if w[0] not in ("ok", "ran"):
        return ("bad", line)
    body = " ".join(w[1:])
    if body.startswith("; "):
        body = body[2:]
    secs = body.split(" ; ")
    num, cells, extra = None, [], {}
    for s in secs:
        t = s.split()
        if not t:
            continue
        d = {}
        for kv in t[1:]:
            k, v = kv.split("=", 1)
            if v[0] == "d":
                d[k] = ("d", v[1:])
            elif v[0] == "i":
                d[k] = ("i", int(v[1:]))
            elif v[0] == "b":
                d[k] = ("b", v[1:] == "1")
            else:
                d[k] = ("s", bytes.fromhex(v[1:]).decode(errors="replace"))
        if t[0] == "N":
            num = d
        elif t[0] == "C":
            cells.append((d, []))
        elif t[0] == "F":
            cells[-1][1].append(d)
        else:
            extra[t[0]] = d
    return (w[0], num, cells, extra)


# ------------------------------------------------------------------------------------------ oracle
def to_short(n):
    return (n + 32768) % 65536 - 32768


def intended(row, text):
    k = row["kind"]
    if k == "str":
        return ("s", text)
    if k == "bool":
        return ("b", int(text) != 0)
    if k == "int":
        return ("i", int(text))
    if row["inf"] and text.lower() == "inf":
        return ("d", fhex(float("inf")))
    return ("d", fhex(float(text)))


def first(ch, tag):
    for t, v in ch:
        if t == tag:
            return v
    return None


def check_section(rows, ch, got, where):
    for row in rows:
        text = first(ch, row["tag"])
        want = intended(row, text)
        have = got.get(row["field"])
        if have != want:
            show = lambda x: (unhex(x[1]) if x and x[0] == "d" else (x[1] if x else None))
            return ("the value of <%s> does not arrive intact in member %s" % (row["tag"], row["field"]),
                    "%s: <%s>%s</%s> arrived in %s as %r (expected %r)" % (where, row["tag"], text, row["tag"], row["field"], show(have), show(want)))
    return None


def oracle(case, ans, spec):
    """None or (stable failure text, key, detail)"""
    kind = case["kind"]
    if ans[0] == "bad":
        return ("unparseable / missing answer of the harness", None, repr(ans[1]))
    if kind in ("valid", "dup"):
        if ans[0] != "ok":
            return ("an admissible parameter file was rejected", None, "%s: %s" % (ans[1], ans[2][:200]))
        _, num, cells, _ = ans
        m = check_section(spec["numerical"], case["num"], num or {}, "numerical_parameters")
        if m:
            return (m[0], None, m[1])
        if len(cells) != len(case["cells"]):
            return ("the number of cell types returned differs from the file", None, "%d cell types in the file, %d returned" % (len(case["cells"]), len(cells)))
        for i, (c, (cd, fds)) in enumerate(zip(case["cells"], cells)):
            m = check_section(spec["cell"], c["children"], cd, "cell type %d" % i)
            if m:
                return (m[0], None, m[1] + " [order of cell types / member wiring]")
            if cd.get("initial_pressure_") != ("d", fhex(0.0)):
                return ("initial_pressure_ (not settable from the file) changed", None, "cell type %d: %r" % (i, cd.get("initial_pressure_")))
            if len(fds) != len(c["faces"]):
                return ("the number of face types returned differs from the file", None, "cell type %d: %d face types in the file, %d returned" % (i, len(c["faces"]), len(fds)))
            for j, (f, fd) in enumerate(zip(c["faces"], fds)):
                m = check_section(spec["face"], f, fd, "cell type %d face type %d" % (i, j))
                if m:
                    return (m[0], None, m[1] + " [order of face types / member wiring]")
        return None
    if kind == "badnum":
        if ans[0] == "ok":
            return ("non-numeric text in <%s> was accepted" % case["target"]["tag"], None, "")
        return None
    # omit / sign / order / structure: must be rejected by the reader's own exception
    tg = case["target"]
    if ans[0] == "ok":
        what = {"omit": "without the tag <%s>" % tg["tag"], "sign": "with <%s> outside its documented sign constraint" % tg["tag"],
                "order": "with sampling_period below time_step", "structure": "with broken structure (%s)" % tg["tag"]}[kind]
        key = KEY_CURV if (kind == "sign" and tg["tag"] == "surface_coupling_max_curvature") else None
        det = "value: %s" % first(section_of(case, tg), tg["tag"]) if kind in ("sign", "order") else ""
        return ("a parameter file %s was accepted" % what, key, det)
    if ans[1] != "parameter_reader_exception":
        return ("a file (%s %s) is rejected by %s instead of parameter_reader_exception" % (kind, tg["tag"], ans[1]), None, ans[2][:160])
    if kind == "omit" and ('"%s"' % tg["tag"]) not in ans[2] and tg["tag"] != "std_growth_rate":
        return ("the tag <%s> was omitted but the exception names another one" % tg["tag"], None, ans[2][:160])
    return None


def section_of(case, tg):
    if tg["section"] == "numerical":
        return case["num"]
    if tg["section"] == "cell":
        return case["cells"][tg["where"]]["children"]
    return case["cells"][tg["where"][0]]["faces"][tg["where"][1]]


# ------------------------------------------------------------------------------------------ model answer vs implementation answer
def expected_message(err, tables):
    """the first string literal of the throw the model's verdict corresponds to (from the extracted tables)"""
    _, kind, tag, k = err
    ent = {e["tag"]: e for t in tables.values() for e in t}
    if kind == "missing":
        if tag == "face_types":
            return "parameter_reader_exception", 'The xml markup "face_types" was not found'
        return "parameter_reader_exception", ent[tag]["missing_msg"] if tag in ent else None
    if kind == "rejected":
        try:
            return "parameter_reader_exception", ent[tag]["checks"][k]["msg"]
        except (KeyError, IndexError):
            return "parameter_reader_exception", None
    if kind == "nosection":
        return "parameter_reader_exception", 'The section "%s" was not found' % tag
    if kind == "nocelltype":
        return "parameter_reader_exception", "No cell type has been defined"
    if kind == "nofacetype":
        return "parameter_reader_exception", "No face type has been defined for the cell type"
    if kind == "badnumber":
        return "std::", ""
    return "terminate", None


def compare(model, impl, tables):
    """None or text"""
    if model[0] == "bad":
        return "model driver: %r" % (model[1],)
    if model[0] == "ok":
        if impl[0] != "ok":
            return "model accepts, implementation throws %s: %s" % (impl[1], impl[2][:160])
        _, mn, mc, _ = model
        _, inum, ic, _ = impl
        drop = lambda d: {k: v for k, v in d.items() if k not in ("initial_pressure_", "additional_parameters_")}
        if mn != inum:
            diff = [k for k in set(mn) | set(inum) if mn.get(k) != inum.get(k)]
            return "numerical parameters differ in %s: model %r implementation %r" % (diff, [mn.get(k) for k in diff], [inum.get(k) for k in diff])
        if len(mc) != len(ic):
            return "model returns %d cell types, implementation %d" % (len(mc), len(ic))
        for i, ((a, fa), (b, fb)) in enumerate(zip(mc, ic)):
            if a != drop(b):
                diff = [k for k in set(a) | set(drop(b)) if a.get(k) != b.get(k)]
                return "cell type %d differs in %s: model %r implementation %r" % (i, diff, [a.get(k) for k in diff], [b.get(k) for k in diff])
            if len(fa) != len(fb):
                return "cell type %d: model returns %d face types, implementation %d" % (i, len(fa), len(fb))
            for j, (x, y) in enumerate(zip(fa, fb)):
                if x != y:
                    diff = [k for k in set(x) | set(y) if x.get(k) != y.get(k)]
                    return "cell type %d face type %d differs in %s: model %r implementation %r" % (i, j, diff, [x.get(k) for k in diff], [y.get(k) for k in diff])
        return None
    if impl[0] == "ok":
        return "model rejects (%s %s), implementation accepts" % (model[1], model[2])
    cls, msg = expected_message(model, tables)
    if msg is None:
        return "model verdict %r has no counterpart in the extracted tables" % (model[1:],)
    if not impl[1].startswith(cls) or not impl[2].startswith(msg):
        return "model stops with %s <%s>%s, i.e. '%s…', the implementation throws %s: %s" % (
            model[1], model[2], "" if model[3] is None else " test %d" % model[3], msg[:60], impl[1], impl[2][:160])
    return None


# ------------------------------------------------------------------------------------------ "the values govern the run"
def run_case(r, spec, repo, outdir, idx):
    dt = r.choice([1e-7, 5e-8, 2e-7, 1.3e-7, 7.7e-8]) * r.uniform(0.5, 1.5)
    nit = r.randint(2, 24)
    T = dt * (nit - r.choice([0.0, 0.5, r.uniform(0.01, 0.99), 1e-9]))
    S = dt * r.choice([1.0, r.uniform(1, 4), r.uniform(1, 12), 2.0, 3.0])
    fixed_num = {"input_mesh_file_path": os.path.join(repo, "data/input_meshes/cube.vtk"),
                 "output_mesh_folder_path": os.path.join(outdir, "run_%d" % idx),
                 "damping_coefficient": repr(5e-10 * r.uniform(0.5, 2)), "perform_initial_triangulation": "1",
                 "enable_edge_swap_operation": r.choice(["0", "1"]), "simulation_duration": repr(T), "time_step": repr(dt),
                 "sampling_period": repr(S), "min_edge_length": repr(r.uniform(7e-7, 1.2e-6)),
                 "contact_cutoff_adhesion": repr(r.uniform(2e-7, 6e-7)), "contact_cutoff_repulsion": repr(r.uniform(2e-7, 6e-7))}
    fixed_cell = {"cell_type_name": gen_name(r), "global_cell_id": "0", "cell_mass_density": repr(1e3 * r.uniform(0.8, 1.2)),
                  "cell_bulk_modulus": repr(2.5e3 * r.uniform(0.5, 1.5)), "max_inner_pressure": r.choice(["INF", repr(2.5e3 * r.uniform(1, 2))]),
                  "area_elasticity_modulus": repr(1e-15 * r.uniform(0, 2)), "avg_division_volume": "inf", "std_division_volume": "0",
                  "avg_growth_rate": repr(2e-11 * r.uniform(0, 1)), "std_growth_rate": "0", "target_isoperimetric_ratio": repr(r.uniform(150, 300)),
                  "angle_regularization_factor": "0", "min_vol": repr(1e-18 * r.uniform(0.5, 2)), "surface_coupling_max_curvature": repr(r.uniform(1e6, 1e7))}
    faces = []
    for k in range(r.randint(1, 3)):
        faces.append(gen_section(r, spec["face"], {"face_type_name": gen_name(r), "global_face_id": str(k), "surface_tension": repr(1e-3 * r.uniform(0.2, 1.2)),
                                                   "adherence_strength": repr(1e9 * r.uniform(0, 1)), "repulsion_strength": repr(1e9 * r.uniform(0.5, 2)),
                                                   "bending_modulus": r.choice(["0", repr(1e-18 * r.uniform(0, 1))])}))
    case = {"kind": "run", "num": gen_section(r, spec["numerical"], fixed_num), "fmt": r.randint(0, 3), "target": None,
            "cells": [{"children": gen_section(r, spec["cell"], fixed_cell), "faces": faces, "face_pos": r.randint(0, 14)}]}
    return case


def run_expect(case):
    d = dict(case["num"])
    dt, T, S = float(first(case["num"], "time_step")), float(first(case["num"], "simulation_duration")), float(first(case["num"], "sampling_period"))
    t, n, files, last = 0.0, 0, 0, 0
    while t < T:
        nb = int(math.floor(t / S) + 1)
        if nb != last:
            last = nb
            files += 1
        t += dt
        n += 1
    return {"iterations": n, "files": files, "last_file": last, "time": fhex(t)}


def run_oracle(case, ans, spec):
    # since the repair 71d0ff5 (C08) start-up refuses an epithelial cell type (global id 0) with fewer than two face types:
    # polarisation writes face type 1.  Such a file is not admissible: the documented refusal is the expected answer.
    if len(case["cells"][0]["faces"]) < 2 and first(case["cells"][0]["children"], "global_cell_id") == "0":
        msg = str(ans[2]) if (ans[0] != "ran" and len(ans) > 2) else ""
        if msg.startswith("x"):
            try:
                msg = bytes.fromhex(msg[1:]).decode("latin-1")
            except ValueError:
                pass
        if ans[0] != "ran" and "intialization_exception" in str(ans[1]) and "two face types" in msg:
            return None
        return ("an epithelial cell type with a single face type was not refused at start-up", "%s" % (ans[:3],))
    if ans[0] != "ran":
        return ("the run of an admissible file ended with an exception", "%s: %s" % (ans[1], (ans[2] if len(ans) > 2 else "")[:200]))
    _, num, cells, extra = ans
    m = check_section(spec["numerical"], case["num"], num or {}, "parameters held by the solver")
    if m:
        return m
    if len(cells) != 1:
        return ("no cell type reported for the first cell", "")
    m = check_section(spec["cell"], case["cells"][0]["children"], cells[0][0], "cell type held by the first cell")
    if m:
        return m
    if len(cells[0][1]) != len(case["cells"][0]["faces"]):
        return ("the first cell does not hold the face types of the file", "held: %d, file: %d" % (len(cells[0][1]), len(case["cells"][0]["faces"])))
    for j, (f, fd) in enumerate(zip(case["cells"][0]["faces"], cells[0][1])):
        m = check_section(spec["face"], f, fd, "face type %d held by the first cell" % j)
        if m:
            return m
    R = extra.get("R", {})
    exp = run_expect(case)
    if R.get("cells") != ("i", 1):
        return None      # the cell was removed (below min_vol): the loop legitimately stops early
    got = {"iterations": R.get("iterations", (0, None))[1], "files": R.get("files", (0, None))[1],
           "last_file": R.get("last_file", (0, None))[1], "time": R.get("time", (0, None))[1]}
    if got != exp:
        bad = [k for k in exp if got[k] != exp[k]]
        return ("time step, duration and sampling period do not determine %s of the run" % "/".join(bad),
                "time_step=%s simulation_duration=%s sampling_period=%s: the run made %s, the parameters determine %s" % (
                    first(case["num"], "time_step"), first(case["num"], "simulation_duration"), first(case["num"], "sampling_period"), got, exp))
    return None


# ------------------------------------------------------------------------------------------ plumbing
CORPUS_KINDS = [("sign", ("cell", "surface_coupling_max_curvature")), ("sign", ("cell", "target_isoperimetric_ratio")),
                ("sign", ("numerical", "damping_coefficient")), ("order", None), ("valid", None)]


def build_cases(r, spec, n, tables=None):
    cases = []
    rowof = {(s, row["tag"]): row for s in spec for row in spec[s]}
    for kind, tgt in CORPUS_KINDS:
        cases.append(gen_case(r, spec, kind, (tgt[0], rowof[tgt]) if tgt else None))
    # systematic part: every tag omitted once, every constrained tag violated once, every structure defect
    for s in spec:
        for row in spec[s]:
            cases.append(gen_case(r, spec, "omit", (s, row)))
            if row["sign"] != "none":
                cases.append(gen_case(r, spec, "sign", (s, row)))
            cases.append(gen_case(r, spec, "dup", (s, row)))
    for what in ["no_numerical", "no_cell_types", "zero_cells", "no_face_types", "zero_faces"]:
        cases.append(gen_case(r, spec, "structure", what))
    kinds = ["valid"] * 10 + ["omit"] * 3 + ["sign"] * 3 + ["order", "dup", "dup", "structure", "badnum"]
    while len(cases) < n:
        cases.append(gen_case(r, spec, r.choice(kinds)))
    return cases


def evaluate(cases, exe, tables, spec, r, tmp, V, stats, use_model=True):
    """writes the files, runs harness + model; reports through V; returns number of oracle failures"""
    paths = []
    for i, c in enumerate(cases):
        p = os.path.join(tmp, "p%05d.xml" % i)
        with open(p, "w") as f:
            f.write(render_xml(c, r))
        paths.append(p)
    # the reader cases go through one harness process; every solver run gets a process of its own, because the
    # mesh refiner of the unrepaired tree has a heap-use-after-free in split_edge (DESIGN §7 row 4, property C10)
    # that ASan turns into an abort now and then: such a run says nothing about C18 and is counted, not judged
    nread = len([c for c in cases if c["kind"] != "run"])
    assert all(c["kind"] != "run" for c in cases[:nread]) and all(c["kind"] == "run" for c in cases[nread:])
    lines = []
    for c, p in zip(cases[:nread], paths):
        lines += ["dom " + p, "read " + p]
    out, rc, err = vlib.run_lines(exe, lines, timeout=3000, env=HENV)
    if rc != 0 or len(out) != len(lines):
        k = len(out) // 2
        V.fail_input("harness ended abnormally while reading a parameter file (rc=%s)" % rc,
                     {"case": cases[k] if k < nread else None, "xml": open(paths[k]).read() if k < nread else None, "stderr": err[-1500:]}, key=None)
    else:
        for c, p in zip(cases[nread:], paths[nread:]):
            for attempt in range(3):
                o2, rc2, err2 = vlib.run_lines(exe, ["dom " + p, "run " + p], timeout=1200, env=HENV)
                if rc2 == 0 and len(o2) == 2:
                    break
                if "heap-use-after-free" in err2 and "local_mesh_refiner::split_edge" in err2:
                    stats["runs_aborted_by_c10_split_edge"] += 1
                    o2 = None
                    continue
                break
            if o2 is None:
                out += ["N -1 C -1", "skipped"]
            elif rc2 != 0 or len(o2) != 2:
                V.fail_input("harness ended abnormally during a solver run (rc=%s)" % rc2, {"case": c, "xml": open(p).read(), "stderr": err2[-1500:]}, key=None)
                out += ["N -1 C -1", "skipped"]
            else:
                out += o2
    drv = vlib.driver_path("drv_c18")
    mlines, midx = [], []
    trees = {}
    for i, c in enumerate(cases):
        if 2 * i + 1 >= len(out):
            break
        try:
            tree = parse_dom(out[2 * i])
        except Exception as e:
            V.fail_tie("correspondence", "element tree of file %d not reported by tinyxml2: %r" % (i, out[2 * i][:200]))
            continue
        trees[i] = tree
        if out[2 * i + 1] != "skipped" and norm_tree(tree) != norm_tree(expected_tree(c)):
            stats["dom_mismatch"] += 1
            if stats["dom_mismatch"] <= 2:
                V.fail_tie("correspondence", "tinyxml2 reports a different element tree than the one generated (file %d)" % i, xml=open(paths[i]).read()[:3000])
        if c["kind"] != "run":
            mlines.append("read - %s %s" % (" ".join(out[2 * i].split()), numtable(tree)))
            midx.append(i)
    model = {}
    if use_model:
        if os.path.exists(drv):
            mo, rc2, err2 = vlib.run_lines(drv, mlines)
            if rc2 != 0 or len(mo) != len(mlines):
                V.fail_tie("correspondence", "model driver ended abnormally (rc=%s) %s" % (rc2, err2[-300:]))
            else:
                model = {i: parse_answer(l) for i, l in zip(midx, mo)}
        else:
            V.fail_tie("correspondence", "model driver missing (lake build failed)")
    nfail = 0
    for i, c in enumerate(cases):
        if 2 * i + 1 >= len(out):
            break
        if out[2 * i + 1] == "skipped":
            continue
        ans = parse_answer(out[2 * i + 1])
        stats["kinds"][c["kind"]] = stats["kinds"].get(c["kind"], 0) + 1
        if c["target"]:
            kk = "%s:%s" % (c["kind"], c["target"]["tag"])
            stats["targets"][kk] = stats["targets"].get(kk, 0) + 1
        if c["kind"] == "run":
            msg = run_oracle(c, ans, spec)
            stats["run_iterations"].append(run_expect(c)["iterations"])
            res = (msg[0], None, msg[1]) if msg else None
        else:
            res = oracle(c, ans, spec)
            if c["cells"]:
                stats["ncell"][len(c["cells"])] = stats["ncell"].get(len(c["cells"]), 0) + 1
        if len(stats["samples"]) < 3 and c["kind"] in ("valid", "sign", "omit"):
            stats["samples"].append({"kind": c["kind"], "target": c["target"], "numerical": c["num"], "answer": out[2 * i + 1][:400]})
        if res:
            nfail += 1
            stats["oracle_failures"] += 1
            # one replay per class of failure (the first, with the tag it was seen on); a keyed known finding is its own class
            cls = res[1] or re.sub(r"<\w+>|member \w+|\(\w+ \w+\)", "*", res[0])
            stats["failure_classes"][cls] = stats["failure_classes"].get(cls, 0) + 1
            if stats["failure_classes"][cls] == 1:
                V.fail_input(res[0], {"case": c, "xml": open(paths[i]).read(), "answer": out[2 * i + 1][:2000], "detail": res[2]}, key=res[1])
        if i in model:
            d = compare(model[i], ans, tables)
            if d is None:
                stats["model_agrees"] += 1
            else:
                stats["model_disagrees"] += 1
                if stats["model_disagrees"] <= 3:
                    V.fail_tie("correspondence", d, case_kind=c["kind"], target=c["target"], xml=open(paths[i]).read()[:3000])
    return nfail


def failing_theorems(proof):
    """names of the theorems of Properties/C18.lean inside which the build log reports an error"""
    try:
        src = open(os.path.join(vlib.LEAN, "SimuVerif", "Properties", "C18.lean")).read().splitlines()
    except OSError:
        return set()
    starts = [(i + 1, m.group(1) or "examples") for i, l in enumerate(src) for m in [re.match(r"theorem (\w+)|namespace Example", l)] if m]
    out = set()
    for e in proof.get("errors", []):
        m = re.search(r"Properties/C18\.lean:(\d+):", e)
        if not m:
            continue
        ln = int(m.group(1))
        prev = [n for (l0, n) in starts if l0 <= ln]
        if prev:
            out.add(prev[-1])
    return out


def run(ctx):
    tier, seed = ctx["tier"], ctx["seed"]
    t0 = time.time()
    V = vlib.Verdict(PID)
    spec = load_spec()
    gen = vlib.translate.run(GEN)
    proof = vlib.prove(PID, THEOREMS, NAMESPACE, extra_targets=("drv_c18",))
    gen_failed = any("error" in g for g in gen.values())
    if gen_failed:
        V.fail_tie("proof", "the parameter tables can no longer be extracted from the source: %s" % "; ".join(g.get("error", "") for g in gen.values()))
    culprits = failing_theorems(proof)
    if "examples" in culprits:
        V.fail_tie("proof", "the concrete files of Properties/C18.lean (namespace Example) are no longer read as stated with the regenerated tables")
    for f in proof["failures"]:
        if culprits and f["theorem"].split(".")[-1] not in culprits and f["reason"].startswith("not checked"):
            continue      # same module as the theorem that broke: not itself in doubt
        V.fail_tie("proof", "%s: %s" % (f["theorem"], f["reason"] if not culprits else "no longer checks against the regenerated tables"),
                   errors=[e for e in proof["errors"] if "error" in e][:6])
    if tier == "thorough" and proof["ok"]:
        ok, log = vlib.leanchecker("SimuVerif.Properties.C18")
        if not ok:
            V.fail_tie("proof", "leanchecker rejected SimuVerif.Properties.C18", log=log)
    tables = None
    try:
        sys.path.insert(0, os.path.join(vlib.VERIF, "tools", "gen"))
        import c18_params
        tables = c18_params.extract()["tables"]
    except Exception as e:
        tables = {"numerical": [], "cell": [], "face": []}     # reported through Gen (translation failed)
    exe, rebuilt = vlib.build_repo.build_harness(os.path.join(vlib.VERIF, "harness", "h_params.cpp"), "h_params", link_repo=True)
    n = 700 if tier == "quick" else 9000
    nrun = 4 if tier == "quick" else 30
    if not proof["ok"]:
        n = max(n, 4000)      # a proof / the translation broke: widen the search for a concrete failing input
    r = Rng(seed)
    stats = {"kinds": {}, "targets": {}, "ncell": {}, "samples": [], "oracle_failures": 0, "model_agrees": 0,
             "model_disagrees": 0, "dom_mismatch": 0, "run_iterations": [], "failure_classes": {}, "runs_aborted_by_c10_split_edge": 0}
    tmp = tempfile.mkdtemp(prefix="c18_")
    try:
        cases = build_cases(r, spec, n)
        cases += [run_case(r, spec, vlib.REPO, tmp, k) for k in range(nrun)]
        # when the tables could not be regenerated the driver on disk is stale: comparing with it would mean nothing
        evaluate(cases, exe, tables, spec, r, tmp, V, stats, use_model=not gen_failed)
    finally:
        shutil.rmtree(tmp, ignore_errors=True)
    if nrun and not stats["run_iterations"]:
        V.fail_tie("correspondence", "no solver run completed (%d aborted by the split_edge use-after-free of C10)" % stats["runs_aborted_by_c10_split_edge"])
    rcode, nviol = V.finish()
    distinct = len({json.dumps([c["kind"], c["num"], c["cells"]], sort_keys=True, default=str) for c in cases})
    cov = {
        "obligations": proof["obligations"], "discharged": proof["discharged"],
        "checker_cmd": "lake build SimuVerif.Properties.C18 SimuVerif.Audit.C18 drv_c18 (+ lake env leanchecker in the thorough tier)",
        "trusted_base": vlib.TRUSTED_COMMON[:2] + [
            "tools/gen/c18_params.py (regex/mini-parser over parameter_reader.cpp; blocks of unrecognised shape abort the translation)",
            "Model/Params.lean as the reading of a table (readValue / readGo / readCell / readParams); checked against the real reader on every run",
            "std::stod / std::stoi are opaque in the theorems; on the correspondence wire they are pre-computed by Python (float()/int() on the "
            "longest numeric prefix; glibc strtod and CPython are both correctly rounded) and are look-ups in the model",
            "tinyxml2 is not modelled: the model starts from the element tree that tinyxml2 itself reports for each file (harness op `dom`)",
            "the specification rows (tag, member, kind, sign rule, INF) in Properties/C18.lean are hand-written from the documentation, the "
            "exception texts and the shipped parameter files",
            "`values_consumed` is a syntactic trace (regex over the consuming sources); the run-time part covers dt, duration, sampling period and "
            "the identity of the structures reaching solver and cells only",
        ],
        "theorems": {k: v for k, v in proof["axioms"].items()}, "proof_failures": proof["failures"], "translator": gen,
        "evaluations": len(cases), "distinct_nontrivial": distinct,
        "rule": "corpus (5) + systematic singles (each of the 31 tags omitted, each of the 17 sign-constrained tags violated, each tag duplicated, "
                "5 structural defects) + seeded random files: 1-6 cell types x 1-5 face types, shuffled tags, unknown elements, comments, 4 layouts, "
                "magnitudes 1e-30..1e30 in 8 notations, +/-0, INF spellings; kinds valid/omit/sign/order/dup/structure/badnum; + solver runs",
        "kinds": stats["kinds"], "targets": stats["targets"], "cell_types_per_file": stats["ncell"],
        "model_vs_impl_agree": stats["model_agrees"], "model_vs_impl_disagree": stats["model_disagrees"],
        "dom_mismatch": stats["dom_mismatch"], "oracle_failures": stats["oracle_failures"], "oracle_failure_classes": stats["failure_classes"],
        "solver_runs": len(stats["run_iterations"]), "solver_run_iterations": stats["run_iterations"],
        "solver_runs_aborted_by_c10_split_edge_uaf": stats["runs_aborted_by_c10_split_edge"],
        "repo_objects_rebuilt": rebuilt, "samples": stats["samples"],
    }
    vlib.write_evidence(PID, tier, "proof", cov, [
        "admissible inputs: well-formed decimal numerals with |x| in [1e-30, 1e30] or 0, ids inside the range of short, non-empty names "
        "without XML metacharacters or white space; no empty elements (std::terminate there is C17, DESIGN §7 row 10)",
        "NaN, hexadecimal floats, numerals that overflow/underflow a double, ids outside short (silently wrapped by the code) are not generated",
        "INF is generated only for the two tags that accept it by the reader's own convention (max_inner_pressure, avg_division_volume); "
        "other tags would get infinity through strtod, which is outside the model",
    ], time.time() - t0, nviol)
    return rcode


def replay(ctx):
    rp = ctx["replay"]
    fi = rp.get("failing_input", {}).get("input", {})
    case = fi.get("case")
    if not case:
        print("replay file names no input: %s" % json.dumps(rp.get("no_longer_checks", rp))[:3000])
        return 1
    spec = load_spec()
    exe, _ = vlib.build_repo.build_harness(os.path.join(vlib.VERIF, "harness", "h_params.cpp"), "h_params")
    tmp = tempfile.mkdtemp(prefix="c18r_")
    try:
        p = os.path.join(tmp, "replay.xml")
        xml = fi.get("xml") or render_xml(case, Rng(1))
        if case["kind"] == "run":
            # the stored file names a temporary output folder: redirect it
            old = first(case["num"], "output_mesh_folder_path")
            new = os.path.join(tmp, "out")
            xml = xml.replace(old, new)
            case["num"] = [(t, new if t == "output_mesh_folder_path" else v) for t, v in case["num"]]
        open(p, "w").write(xml)
        out, rc, err = vlib.run_lines(exe, [("run " if case["kind"] == "run" else "read ") + p], timeout=1200, env=HENV)
        print(xml)
        print("implementation:", out[0][:3000] if out else "no answer (rc=%s) %s" % (rc, err[-500:]))
        ans = parse_answer(out[0]) if out else ("bad", "no answer")
        case["num"] = None if case["num"] is None else [tuple(x) for x in case["num"]]
        res = run_oracle(case, ans, spec) if case["kind"] == "run" else oracle(case, ans, spec)
        if res:
            print("VIOLATION property=C18 replay=%s" % ctx.get("replay_path", "-"))
            print(res[0], "|", res[-1])
            return 1
        print("property holds on this input now")
        return 0
    finally:
        shutil.rmtree(tmp, ignore_errors=True)
