"""C13 helpers: closed input polyhedra (polygonal or triangulated, outward winding), hand-made inputs that the gate
must not let through, exact (Fraction / integer) geometry for the oracles."""
import math
from fractions import Fraction as Fr


# ------------------------------------------------------------------ closed polyhedra, faces = lists of node ids (outward)
def box(a=1.0, b=1.0, c=1.0):
    v = [[0, 0, 0], [a, 0, 0], [a, b, 0], [0, b, 0], [0, 0, c], [a, 0, c], [a, b, c], [0, b, c]]
    f = [[0, 3, 2, 1], [4, 5, 6, 7], [0, 1, 5, 4], [1, 2, 6, 5], [2, 3, 7, 6], [3, 0, 4, 7]]
    return [[float(x) for x in p] for p in v], f


def prism(n, h=1.0, rad=1.0, twist=0.0):
    """right prism over a regular n-gon: two n-gons and n quads"""
    v = []
    for k in range(n):
        a = 2 * math.pi * k / n
        v.append([rad * math.cos(a), rad * math.sin(a), 0.0])
    for k in range(n):
        a = 2 * math.pi * k / n + twist
        v.append([rad * math.cos(a), rad * math.sin(a), h])
    f = [list(range(n - 1, -1, -1)), list(range(n, 2 * n))]
    for k in range(n):
        k2 = (k + 1) % n
        f.append([k, k2, n + k2, n + k])
    return v, f


def lshape(a=1.0, t=0.45, h=0.6):
    """L-shaped (non-convex) prism: an L hexagon extruded along z"""
    poly = [[0, 0], [a, 0], [a, t], [t, t], [t, a], [0, a]]
    n = len(poly)
    v = [[p[0], p[1], 0.0] for p in poly] + [[p[0], p[1], h] for p in poly]
    f = [list(range(n - 1, -1, -1)), list(range(n, 2 * n))]
    for k in range(n):
        k2 = (k + 1) % n
        f.append([k, k2, n + k2, n + k])
    return v, f


def icosahedron():
    t = (1.0 + math.sqrt(5.0)) / 2.0
    v = [(-1, t, 0), (1, t, 0), (-1, -t, 0), (1, -t, 0), (0, -1, t), (0, 1, t), (0, -1, -t), (0, 1, -t),
         (t, 0, -1), (t, 0, 1), (-t, 0, -1), (-t, 0, 1)]
    f = [(0, 11, 5), (0, 5, 1), (0, 1, 7), (0, 7, 10), (0, 10, 11), (1, 5, 9), (5, 11, 4), (11, 10, 2), (10, 7, 6),
         (7, 1, 8), (3, 9, 4), (3, 4, 2), (3, 2, 6), (3, 6, 8), (3, 8, 9), (4, 9, 5), (2, 4, 11), (6, 2, 10),
         (8, 6, 7), (9, 8, 1)]
    return [list(map(float, p)) for p in v], [list(x) for x in f]


def subdivide(v, f):
    v = [list(p) for p in v]
    cache = {}

    def mid(a, b):
        k = (min(a, b), max(a, b))
        if k not in cache:
            cache[k] = len(v)
            v.append([(v[a][i] + v[b][i]) / 2 for i in range(3)])
        return cache[k]
    nf = []
    for (a, b, c) in f:
        ab, bc, ca = mid(a, b), mid(b, c), mid(c, a)
        nf += [[a, ab, ca], [b, bc, ab], [c, ca, bc], [ab, bc, ca]]
    return v, nf


def icosphere(level, ax=(1.0, 1.0, 1.0)):
    v, f = icosahedron()
    for _ in range(level):
        v, f = subdivide(v, f)
    out = []
    for p in v:
        n = math.sqrt(sum(x * x for x in p))
        out.append([p[i] / n * ax[i] for i in range(3)])
    return out, f


def octahedron():
    v = [[1, 0, 0], [-1, 0, 0], [0, 1, 0], [0, -1, 0], [0, 0, 1], [0, 0, -1]]
    f = [[0, 2, 4], [2, 1, 4], [1, 3, 4], [3, 0, 4], [2, 0, 5], [1, 2, 5], [3, 1, 5], [0, 3, 5]]
    return [[float(x) for x in p] for p in v], f


def tetrahedron():
    v = [[1, 1, 1], [1, -1, -1], [-1, 1, -1], [-1, -1, 1]]
    f = [[0, 1, 2], [0, 3, 1], [0, 2, 3], [1, 3, 2]]
    return [[float(x) for x in p] for p in v], f


def torus(n=6, m=5, R=2.0, r=0.7):
    v = []
    for i in range(n):
        for j in range(m):
            a, b = 2 * math.pi * i / n, 2 * math.pi * j / m
            v.append([(R + r * math.cos(b)) * math.cos(a), (R + r * math.cos(b)) * math.sin(a), r * math.sin(b)])
    f = []
    idx = lambda i, j: (i % n) * m + (j % m)
    for i in range(n):
        for j in range(m):
            f.append([idx(i, j), idx(i + 1, j), idx(i + 1, j + 1)])
            f.append([idx(i, j), idx(i + 1, j + 1), idx(i, j + 1)])
    return v, f


def triangulate_fan0(faces):
    """triangulation from the first corner (for the 'already triangulated' inputs)"""
    out = []
    for f in faces:
        for k in range(1, len(f) - 1):
            out.append([f[0], f[k], f[k + 1]])
    return out


def merge(parts):
    """disjoint union of meshes [(v, f), …]"""
    V, F = [], []
    for v, f in parts:
        off = len(V)
        V += [list(p) for p in v]
        F += [[a + off for a in t] for t in f]
    return V, F


def shift(v, d):
    return [[p[i] + d[i] for i in range(3)] for p in v]


# ------------------------------------------------------------------ hand-made inputs outside the gate's soundness domain
def sphere_plus_torus():
    """octahedron (chi 2) + disjoint torus (chi 0): every edge in two faces, V - E + F = 2"""
    tv, tf = torus()
    ov, of = octahedron()
    return merge([(ov, of), (shift(tv, [6.0, 0.0, 0.0]), tf)])


def torus_plus_sphere():
    """the same with the torus first (the seed of the flood fill is then on the torus)"""
    tv, tf = torus()
    ov, of = octahedron()
    return merge([(tv, tf), (shift(ov, [6.0, 0.0, 0.0]), of)])


def two_spheres_two_shared_vertices():
    """two octahedra glued at the two antipodal vertices (+-1,0,0), which are not joined by an edge in either
    (chi 4 - 2 = 2): the shared vertices have two umbrellas each, the face adjacency graph has two components"""
    v1, f1 = octahedron()
    V = [list(p) for p in v1]
    c = math.sqrt(0.5)
    ids = {0: 0, 1: 1}
    for k in range(2, 6):
        ids[k] = len(V)
        p = v1[k]
        # the ring of the second octahedron: rotated by 45 degrees about the x axis and twice as large
        V.append([0.0, 2 * (c * p[1] - c * p[2]), 2 * (c * p[1] + c * p[2])])
    F = [list(t) for t in f1] + [[ids[a] for a in t] for t in f1]
    return V, F


def sphere_and_projective_plane_sharing_a_vertex():
    """octahedron + the 6-vertex triangulation of the projective plane (chi 1) sharing one vertex:
    vertex-connected, every edge in two faces, V - E + F = 6 + 5 - (12 + 15) + (8 + 10) = 2, not orientable"""
    ov, of = octahedron()
    rp2 = [[0, 1, 2], [0, 2, 3], [0, 3, 4], [0, 4, 5], [0, 5, 1], [1, 2, 4], [2, 3, 5], [3, 4, 1], [4, 5, 2], [5, 1, 3]]
    V = [list(p) for p in ov]
    ids = {0: 0}
    for k in range(1, 6):
        ids[k] = len(V)
        a = 2 * math.pi * k / 5
        V.append([3.0 + math.cos(a), math.sin(a), 0.3 * k])
    F = [list(t) for t in of] + [[ids[a] for a in t] for t in rp2]
    return V, F


def pillow():
    """two triangles on the same three nodes, opposite windings (V - E + F = 3 - 3 + 2 = 2); a fourth, unused node"""
    return [[0.0, 0.0, 0.0], [1.0, 0.0, 0.0], [0.0, 1.0, 0.0], [0.0, 0.0, 1.0]], [[0, 1, 2], [0, 2, 1]]


def degenerate_pair():
    """two faces that repeat a node: (0,0,1), (0,0,2): 'edges' {0,0}, {0,1}, {0,2} all get two faces, V - E + F = 2"""
    return [[0.0, 0.0, 0.0], [1.0, 0.0, 0.0], [0.0, 1.0, 0.0]], [[0, 0, 1], [0, 0, 2]]


# ------------------------------------------------------------------ topology (independent restatement)
def closed_consistent(faces):
    he = {}
    for t in faces:
        n = len(t)
        for k in range(n):
            e = (t[k], t[(k + 1) % n])
            he[e] = he.get(e, 0) + 1
    for (a, b), k in he.items():
        if a == b or k != 1 or he.get((b, a), 0) != 1:
            return False
    return True


def edge_face_counts(faces):
    cnt = {}
    for t in faces:
        n = len(t)
        for k in range(n):
            a, b = t[k], t[(k + 1) % n]
            e = (min(a, b), max(a, b))
            cnt[e] = cnt.get(e, 0) + 1
    return cnt


def euler(faces):
    vs = set(a for t in faces for a in t)
    return len(vs) - len(edge_face_counts(faces)) + len(faces)


def face_components(faces):
    """connected components of the face adjacency graph (faces sharing an edge)"""
    byedge = {}
    for k, t in enumerate(faces):
        n = len(t)
        for j in range(n):
            a, b = t[j], t[(j + 1) % n]
            byedge.setdefault((min(a, b), max(a, b)), []).append(k)
    parent = list(range(len(faces)))

    def find(x):
        while parent[x] != x:
            parent[x] = parent[parent[x]]
            x = parent[x]
        return x
    for fs in byedge.values():
        for k in fs[1:]:
            parent[find(k)] = find(fs[0])
    return len(set(find(k) for k in range(len(faces))))


def vertex_links_single_cycle(faces):
    """every vertex star is one umbrella (triangles only)"""
    star = {}
    for t in faces:
        for k in range(3):
            star.setdefault(t[k], []).append((t[(k + 1) % 3], t[(k + 2) % 3]))
    for v, es in star.items():
        nxt = {}
        for a, b in es:
            if a in nxt:
                return False
            nxt[a] = b
        start = es[0][0]
        cur, n = start, 0
        while True:
            if cur not in nxt:
                return False
            cur = nxt[cur]
            n += 1
            if cur == start:
                break
            if n > len(es):
                return False
        if n != len(es):
            return False
    return True


# ------------------------------------------------------------------ exact geometry on doubles
def det3(a, b, c):
    return (a[0] * (b[1] * c[2] - b[2] * c[1]) - a[1] * (b[0] * c[2] - b[2] * c[0]) + a[2] * (b[0] * c[1] - b[1] * c[0]))


def exact_vol6(pts, faces):
    """6 x signed volume of a polygonal surface (fan from the first corner; exact for planar faces, and for closed
    surfaces independent of the way each face is cut into triangles only when the faces are planar)"""
    P = [[Fr(x) for x in p] for p in pts]
    s = Fr(0)
    for f in faces:
        for k in range(1, len(f) - 1):
            s += det3(P[f[0]], P[f[k]], P[f[k + 1]])
    return s


def aabb(pts, ids=None):
    ids = range(len(pts)) if ids is None else ids
    ids = list(ids)
    return [min(pts[i][k] for i in ids) for k in range(3)] + [max(pts[i][k] for i in ids) for k in range(3)]


def pt_tri_dist2(p, a, b, c):
    """squared distance point - triangle in floating point (Ericson); used only for the run-time tolerance oracle"""
    ab = [b[i] - a[i] for i in range(3)]
    ac = [c[i] - a[i] for i in range(3)]
    ap = [p[i] - a[i] for i in range(3)]
    dot = lambda u, v: u[0] * v[0] + u[1] * v[1] + u[2] * v[2]
    d1, d2 = dot(ab, ap), dot(ac, ap)
    if d1 <= 0 and d2 <= 0:
        return dot(ap, ap)
    bp = [p[i] - b[i] for i in range(3)]
    d3, d4 = dot(ab, bp), dot(ac, bp)
    if d3 >= 0 and d4 <= d3:
        return dot(bp, bp)
    vc = d1 * d4 - d3 * d2
    if vc <= 0 and d1 >= 0 and d3 <= 0:
        v = d1 / (d1 - d3)
        q = [a[i] + v * ab[i] for i in range(3)]
        return sum((p[i] - q[i]) ** 2 for i in range(3))
    cp = [p[i] - c[i] for i in range(3)]
    d5, d6 = dot(ab, cp), dot(ac, cp)
    if d6 >= 0 and d5 <= d6:
        return dot(cp, cp)
    vb = d5 * d2 - d1 * d6
    if vb <= 0 and d2 >= 0 and d6 <= 0:
        w = d2 / (d2 - d6)
        q = [a[i] + w * ac[i] for i in range(3)]
        return sum((p[i] - q[i]) ** 2 for i in range(3))
    va = d3 * d6 - d5 * d4
    if va <= 0 and (d4 - d3) >= 0 and (d5 - d6) >= 0:
        w = (d4 - d3) / ((d4 - d3) + (d5 - d6))
        q = [b[i] + w * (c[i] - b[i]) for i in range(3)]
        return sum((p[i] - q[i]) ** 2 for i in range(3))
    den = 1.0 / (va + vb + vc)
    v, w = vb * den, vc * den
    q = [a[i] + ab[i] * v + ac[i] * w for i in range(3)]
    return sum((p[i] - q[i]) ** 2 for i in range(3))


def dist_to_surface(p, pts, tris):
    best = float("inf")
    for (a, b, c) in tris:
        d = pt_tri_dist2(p, pts[a], pts[b], pts[c])
        if d < best:
            best = d
    return math.sqrt(best)


def min_pair_dist2_exact(points):
    """exact minimum squared pairwise distance (Fraction) with a uniform-grid pre-filter in floats"""
    n = len(points)
    if n < 2:
        return None, None
    # float pass to find candidate closest pairs, exact evaluation of the best few
    lo = [min(p[k] for p in points) for k in range(3)]
    hi = [max(p[k] for p in points) for k in range(3)]
    ext = max(hi[k] - lo[k] for k in range(3)) or 1.0
    cell = ext / max(1, int(round(n ** (1.0 / 3.0))))
    grid = {}
    for i, p in enumerate(points):
        key = tuple(int((p[k] - lo[k]) / cell) for k in range(3))
        grid.setdefault(key, []).append(i)
    best = []
    bestd = float("inf")
    rng = 1
    while True:
        for key, lst in grid.items():
            for dx in range(-rng, rng + 1):
                for dy in range(-rng, rng + 1):
                    for dz in range(-rng, rng + 1):
                        other = grid.get((key[0] + dx, key[1] + dy, key[2] + dz))
                        if not other:
                            continue
                        for i in lst:
                            for j in other:
                                if j <= i:
                                    continue
                                d = sum((points[i][k] - points[j][k]) ** 2 for k in range(3))
                                if d < bestd * (1 + 1e-9):
                                    if d < bestd:
                                        bestd = d
                                    best.append((d, i, j))
        if bestd <= (rng * cell) ** 2 or rng > 64:
            break
        rng *= 2
    best = sorted(set(best))[:8]
    ex = None
    for d, i, j in best:
        e = sum((Fr(points[i][k]) - Fr(points[j][k])) ** 2 for k in range(3))
        if ex is None or e < ex[0]:
            ex = (e, (i, j))
    return ex
