"""C14 — the ASSEMBLED single-cell iteration WITH remeshing (lean/SimuVerif/Model/PipelineR.lean, command `runr` of drv_c14)
against the real `solver::run_iteration` in runs in which `refine_mesh` DOES split / collapse / swap edges and `save_mesh`
rebases the cell.

  run_remesh(V, tier, seed, stats)   (1) correspondence: generated single cells whose edges sit at / cross the band edges
                                         (growing, shrinking, sheared, the shipped sphere), REAL solver through harness/h_solver.cpp in
                                         mode `slots` (1 thread, EVERY iteration dumped with the complete bookkeeping state: node slots
                                         with used flags, face slots with cached normal / area, edge index in std::set order with
                                         the stored face ids, both free queues, file number), model started from snapshot 0:
                                         every token of every snapshot is compared (doubles as bit patterns, MAX_ULPS = 0, slot
                                         numbering included).  The executed splits / collapses / rebases are counted; a scenario set in
                                         which none happens FAILS this stage.
                                     (2) oracle on the real code (independent of the model): a run and its translate; same
                                         bookkeeping state token for token, positions − t within the policy of c14.py, while no
                                         threshold decision has flipped by rounding.
  prove_remesh()                     re-checks Properties/C14Remesh.lean (THEOREMS_REMESH) and rebuilds drv_c14
  replay(ctx)
"""
import os, re, math, time, json
import vlib
import scenarios as SC
import c14_pipeline as CP

DRIVER = "drv_c14"
PROOF_PID = "C14Remesh"
NAMESPACE = "Simu.C14"
THEOREMS_REMESH = [
    "gen_mid", "edgeLength_translate", "canBeMerged_translate", "triangleScore_translate", "splitEdge_translate", "mergeEdge_translate",
    "swapEdge_translate", "removeElongated_translate", "rebase_translate", "refineMesh_translate", "refineMesh_translate_components",
    "refineLive_translate", "tet_live", "tet_three_splits",
    "closed_of_closedB", "forceStage_translate", "meshStage_translate", "cellIterationR_translate", "cellRunR_translate",
    "cellRunR_observables", "stepOkR_translate", "domainR_translate", "cellIterationR_eq_cellIteration", "band_of_inBand", "tetR_stepOk", "tetR_splits"]
GEN_REMESH = ["RemeshConsts", "Schedule", "Forces", "Integrator", "CellCycle"]
MAX_ULPS = 0
SIZE = 1e-5
HEX = re.compile(r"^[0-9a-f]{16}$")


# ---------------------------------------------------------------- meshes
def edge_stats(P, T):
    lo, hi = math.inf, 0.0
    for (a, b, c) in T:
        for (u, v) in ((a, b), (b, c), (c, a)):
            l = math.dist(P[u], P[v])
            lo, hi = min(lo, l), max(hi, l)
    return lo, hi


def read_vtk_cell(path):
    """points and triangles of the (single) polyhedron of a shipped input mesh"""
    txt = open(path).read().split()
    i = txt.index("POINTS")
    n = int(txt[i + 1])
    vals = [float(x) for x in txt[i + 3:i + 3 + 3 * n]]
    P = [vals[3 * k:3 * k + 3] for k in range(n)]
    j = txt.index("CELLS")
    body = [int(x) for x in txt[j + 3:j + 3 + int(txt[j + 2])]]
    # one cell: <len> <nfaces> (3 a b c)*
    nf = body[1]
    T, k = [], 2
    for _ in range(nf):
        m = body[k]
        ids = body[k + 1:k + 1 + m]
        if m != 3:
            raise ValueError("not a triangulated input mesh")
        T.append(tuple(ids))
        k += 1 + m
    return P, T


def scenario_list(r, tier):
    """(name, mesh spec, lmin rule, overrides, iterations).  lmin rule: ('max', f) → l_max = 3·lmin = f · longest edge;
    ('min', f) → lmin = f · shortest edge"""
    ico = (2, 5e-6, (0.0, 0.0, 0.0), (1.0, 0.85, 1.2), 0.1)
    out = [
        # the longest edges are already above l_max: splits in iteration 0, more while the cell relaxes
        ("split-at-start", ("ico", ico), ("max", 0.93), {"sampling_period": "2e-6"}, 100),
        # in the band at the start; a positive growth rate pushes edges over l_max; bending + angle terms read the edge index the refiner leaves
        ("growing", ("ico", (2, r.uniform(4.8e-6, 5.2e-6), tuple(r.uniform(-2e-5, 2e-5) for _ in range(3)), (1.0, r.uniform(0.9, 1.0), r.uniform(1.0, 1.1)), 0.05)),
         ("max", 1.004), {"avg_growth_rate": "1.2e-10", "bending_modulus": "2e-18", "angle_regularization_factor": "1e-16", "sampling_period": "3e-6"}, 120),
        # the shortest edges are below l_min: collapses in iteration 0
        ("merge-at-start", ("ico", ico), ("min", 1.06), {"sampling_period": "2e-6"}, 100),
        # in the band at the start; the surface tension shrinks the cell, edges fall below l_min
        ("shrinking", ("ico", (2, r.uniform(4.8e-6, 5.2e-6), (1e-5, -2e-5, 3e-6), (1.0, 0.9, 1.1), 0.08)),
         ("min", 0.995), {"surface_tension": "2e-3", "avg_growth_rate": "-3e-11", "sampling_period": "2.5e-6"}, 120),
        # sheared cell, swap pass on: elongated triangles are swapped, then split / collapsed
        ("sheared-swap", ("ico", (2, 5e-6, (2e-5, -3e-5, 1e-5), (1.0, 0.1, 2.5), 0.07)), ("max", 0.8),
         {"enable_edge_swap_operation": "1", "sampling_period": "2e-6"}, 100),
    ]
    if tier == "thorough":
        out += [
            ("shipped-sphere", ("vtk", "sphere.vtk"), ("max", 0.97), {"sampling_period": "2e-6"}, 100),
            ("shipped-sphere-merge", ("vtk", "sphere.vtk"), ("min", 1.03), {"sampling_period": "4e-6", "enable_edge_swap_operation": "1"}, 100),
            # a flat cell far below l_min: the pass ends with mesh_integrity_exception — the model must report the same exception
            ("flat-exception", ("ico", (1, 5e-6, (1e-5, 0.0, -2e-5), (1.0, 0.05, 3.0), 0.0)), ("min", 3.0), {"enable_edge_swap_operation": "1"}, 20),
            ("coarse-growing", ("ico", (1, 2.4e-6, (r.uniform(-1e-5, 1e-5), 2e-6, -3e-6), (1.0, 0.9, 1.1), 0.05)), ("max", 1.002),
             {"avg_growth_rate": "3e-10", "sampling_period": "1e-6"}, 150),
            ("random-band", ("ico", (2, r.uniform(4.6e-6, 5.4e-6), tuple(r.uniform(-1e-4, 1e-4) for _ in range(3)),
                                     (r.uniform(0.8, 1.0), r.uniform(0.7, 1.0), r.uniform(1.0, 1.4)), r.uniform(0.0, 0.12))),
             (r.choice(["max", "min"]), r.uniform(0.9, 1.1)), {"enable_edge_swap_operation": r.choice(["0", "1"]), "bending_modulus": r.choice(["0", "1e-18"]),
                                                                "sampling_period": "1.5e-6"}, 100),
        ]
    return out


def build_mesh(spec):
    kind, arg = spec
    if kind == "ico":
        P, T = SC.icosphere(*arg)
        return [list(p) for p in P], [tuple(t) for t in T]
    return read_vtk_cell(os.path.join(SC.MESHES, arg))


def lmin_of(rule, P, T):
    lo, hi = edge_stats(P, T)
    which, f = rule
    return (f * hi / 3.0) if which == "max" else (f * lo)


def write_case(wd, P, T, lmin, ov, shift=(0.0, 0.0, 0.0)):
    mesh = os.path.join(wd, "t.vtk")
    SC.write_vtk(mesh, [([[p[0] + shift[0], p[1] + shift[1], p[2] + shift[2]] for p in P], T, 0)])
    allov = dict(SC.DETERMINISTIC)
    first = dict({"perform_initial_triangulation": "0", "enable_edge_swap_operation": "0"}, **ov)
    return SC.make_params(wd, mesh, repr(lmin), first, allov)


# ---------------------------------------------------------------- snapshots in mode `slots`
def parse_slots(out):
    """list of dict(iter, time, ncells, J, cells=[dict(C=[…], R=[tokens])]), and the exception line if any"""
    snaps, exc = [], None
    cur = None
    for line in out.splitlines():
        w = line.split()
        if not w:
            continue
        if w[0] == "S":
            cur = {"iter": int(w[1]), "time": w[2], "ncells": int(w[3]), "J": None, "cells": []}
            snaps.append(cur)
        elif w[0] == "J" and cur is not None:
            cur["J"] = int(w[1])
        elif w[0] == "C" and cur is not None:
            cur["cells"].append({"C": w[1:], "R": None})
        elif w[0] == "R" and cur is not None and cur["cells"]:
            cur["cells"][-1]["R"] = w[1:]
        elif w[0] == "X":
            exc = " ".join(w[1:])
    return snaps, exc


def request_line(consts, fts, sampling, swap, snap, n, every):
    cell = snap["cells"][0]
    c = cell["C"]          # id local type nn nf area vol tvol p
    w = ["runr", str(n), str(every), "1", "1" if swap else "0", str(len(fts))]
    w += [vlib.fhex(consts[k]) for k in CP.CONST_ORDER] + [vlib.fhex(sampling)]
    for (g, b) in fts:
        w += [vlib.fhex(g), vlib.fhex(b)]
    w += [str(snap["iter"]), str(snap["J"]), snap["time"], c[5], c[6], c[7], c[8]]
    w += cell["R"]
    return " ".join(w)


def parse_model(lines):
    snaps, exc = parse_slots("\n".join(l for l in lines if not l.startswith("D ")))
    dom = {}
    for l in lines:
        if l.startswith("D "):
            w = l.split()
            dom[int(w[1])] = {"ok": w[2] == "1", "live": w[3] == "1", "mesh": w[4] == "1", "splits": int(w[5]), "merges": int(w[6]), "rebased": w[7] == "1", "swaps": int(w[8]) if len(w) > 8 else 0}
    return snaps, dom, exc


def compare_tokens(xs, ys, what, it, dis):
    """token lists of the two sides; returns (number of doubles compared, worst ulps)"""
    ncmp, worst = 0, 0
    if len(xs) != len(ys):
        dis.append({"iteration": it, "field": "%s: number of tokens" % what, "real": len(xs), "model": len(ys)})
    sec = ""
    for k, (x, y) in enumerate(zip(xs, ys)):
        if x in ("N", "F", "E", "FN", "FF"):
            sec = x
        if HEX.match(x) and HEX.match(y):
            ncmp += 1
            if x != y:
                u = CP.ulps_apart(x, y)
                worst = max(worst, u)
                if u > MAX_ULPS and len(dis) < 12:
                    dis.append({"iteration": it, "field": "%s, section %s, token %d (a double)" % (what, sec, k), "real": x, "model": y,
                                "real_value": vlib.unhex(x), "model_value": vlib.unhex(y), "ulps": u})
        elif x != y:
            if len(dis) < 12:
                dis.append({"iteration": it, "field": "%s, section %s, token %d (bookkeeping: used flag / node id / face id / slot)" % (what, sec, k),
                            "real": " ".join(xs[max(0, k - 4):k + 5]), "model": " ".join(ys[max(0, k - 4):k + 5])})
            break
    return ncmp, worst


def correspond(name, P, T, lmin, ov, iters, seed, stats, V, every=1):
    args = {"scenario": name, "lmin": lmin, "overrides": ov, "iterations": iters, "seed": seed, "part": "correspondence",
            "nodes": len(P), "faces": len(T)}
    with SC.Workdir() as wd:
        params = write_case(wd, P, T, lmin, ov)
        xml = open(params).read()
        exe, _ = SC.build("asan")
        rr = SC.run(exe, params, iters, 1, every, mode="slots", timeout=1800)
    what, key = SC.classify(rr["rc"], rr["err"])
    if what:
        V.fail_input("%s [single cell with remeshing, scenario %s]" % (what, name), args, key=key)
        return None
    real, rexc = parse_slots(rr["out"])
    if not real or real[0]["ncells"] != 1 or real[0]["cells"][0]["R"] is None:
        V.fail_tie("correspondence", "scenario %s: no single-cell snapshot in mode `slots` (%s)" % (name, rr["out"][-200:]))
        return None
    consts, fts = CP.read_consts(xml, 0)
    sampling = float(re.search(r"<sampling_period>([^<]*)<", xml).group(1))
    swap = re.search(r"<enable_edge_swap_operation>([^<]*)<", xml).group(1).strip() not in ("0", "false")
    req = request_line(consts, fts, sampling, swap, real[0], iters, every)
    t1 = time.time()
    lines, rc, err = vlib.run_lines(vlib.driver_path(DRIVER), [req], timeout=1800)
    mwall = time.time() - t1
    if rc != 0 or not lines or lines[-1] != "END":
        V.fail_tie("correspondence", "scenario %s: model driver answered %r (rc %s) %s" % (name, lines[-1:] if lines else None, rc, err[-200:]))
        return None
    model, dom, mexc = parse_model(lines)
    dis, ncmp, worst = [], 0, 0
    upto = 0
    left = None
    for k, sr in enumerate(real):
        if sr["ncells"] != 1:
            left = "cell count changed (division / removal)"
            break
        if k >= len(model):
            dis.append({"iteration": sr["iter"], "field": "snapshot missing in the model answer (model exception: %s)" % mexc})
            break
        sm = model[k]
        if sr["iter"] != sm["iter"] or sr["J"] != sm["J"]:
            dis.append({"iteration": sr["iter"], "field": "iteration counter / file number", "real": [sr["iter"], sr["J"]], "model": [sm["iter"], sm["J"]]})
        n1, w1 = compare_tokens([sr["time"]] + sr["cells"][0]["C"][3:], [sm["time"]] + sm["cells"][0]["C"][3:], "time, slot counts, area, volume, target volume, pressure", sr["iter"], dis)
        n2, w2 = compare_tokens(sr["cells"][0]["R"], sm["cells"][0]["R"], "bookkeeping state", sr["iter"], dis)
        ncmp += n1 + n2
        worst = max(worst, w1, w2)
        upto = k
        if dis:
            break
    if (rexc or None) != (mexc or None) and left is None and not dis:
        dis.append({"iteration": real[-1]["iter"], "field": "exception that ends the run", "real": rexc, "model": mexc})
    # the model's own domain verdict on every compared iteration
    its = [real[k]["iter"] for k in range(upto)]
    bad = [i for i in its if i in dom and not dom[i]["ok"]]
    notlive = [i for i in its if i in dom and not dom[i]["live"]]
    sp = sum(dom[i]["splits"] for i in its if i in dom)
    mg = sum(dom[i]["merges"] for i in its if i in dom)
    rb = sum(1 for i in its if i in dom and dom[i]["rebased"])
    sw = sum(dom[i]["swaps"] for i in its if i in dom)
    opit = sum(1 for i in its if i in dom and (dom[i]["splits"] or dom[i]["merges"]))
    if left is not None and upto < len(real) - 1 and dom.get(real[upto]["iter"], {}).get("ok", False) and not dis:
        dis.append({"iteration": real[upto]["iter"], "field": "model says stepOkR although the real run left the domain (%s)" % left, "real": left, "model": "stepOkR true"})
    if bad and not dis:
        dis.append({"iteration": bad[0], "field": "model says the state is outside its domain (stepOkR = false) although the real solver executes the iteration identically",
                    "real": "in domain", "model": json.dumps(dom[bad[0]])})
    for d in dis[:4]:
        V.fail_tie("correspondence", "assembled iteration with remeshing differs from the real solver: %s" % json.dumps(dict(args, **d), default=str)[:700])
    if notlive and not dis:
        V.fail_tie("correspondence", "scenario %s: the hypothesis refineLive of refineMesh_translate is FALSE on an executed pass (iterations %s): a released node slot is read"
                   % (name, notlive[:5]), detail=args)
    stats["doubles_compared"] += ncmp
    stats["iterations_compared"] += upto
    stats["worst_ulps"] = max(stats["worst_ulps"], worst)
    stats["bit_identical"] = stats["bit_identical"] and worst == 0 and not dis
    stats["splits"] += sp
    stats["merges"] += mg
    stats["rebases"] += rb
    stats["swaps"] += sw
    stats["iterations_with_operations"] += opit
    stats["out_of_domain_iterations"] += len(bad)
    c0 = real[0]["cells"][0]["C"]
    cl = real[upto]["cells"][0]["C"]
    stats["scenarios"].append({"name": name, "lmin": lmin, "nodes": int(c0[3]), "faces": int(c0[4]), "node_slots_at_end": int(cl[3]), "face_slots_at_end": int(cl[4]),
                               "iterations_run": iters, "iterations_compared": upto, "splits": sp, "collapses": mg, "swaps": sw, "rebases": rb,
                               "iterations_with_operations": opit, "stepOk_false": bad[:5], "refineLive_false": notlive[:5], "real_exception": rexc,
                               "left": left, "doubles": ncmp, "worst_ulps": worst, "real_wall": round(rr["wall"], 2), "model_wall": round(mwall, 2)})
    return {"splits": sp, "merges": mg}


# ---------------------------------------------------------------- oracle: two real runs that differ by a translation
def tol_rel(ratio, iters):
    eps = 2.2e-16
    return 1e-8 + iters * 20 * eps * (ratio + 10)       # the policy of c14.py (no r^3 term: the volume determinants are centred)


def book_tokens(R):
    return [x for x in R if not HEX.match(x)]


def node_positions(R):
    """[(used, [x,y,z])] from the N section"""
    out = []
    k = 2
    nn = int(R[1])
    for _ in range(nn):
        # ; used x y z px py pz
        out.append((R[k + 1] == "1", [vlib.unhex(R[k + 2]), vlib.unhex(R[k + 3]), vlib.unhex(R[k + 4])], [vlib.unhex(R[k + 5]), vlib.unhex(R[k + 6]), vlib.unhex(R[k + 7])]))
        k += 8
    return out


def oracle(name, P, T, lmin, ov, iters, t, ratio, seed, stats, V):
    args = {"scenario": name, "lmin": lmin, "overrides": ov, "iterations": iters, "translation": list(t), "offset_over_size": ratio, "seed": seed,
            "part": "oracle", "nodes": len(P), "faces": len(T)}
    runs = []
    for shift in ((0.0, 0.0, 0.0), t):
        with SC.Workdir() as wd:
            params = write_case(wd, P, T, lmin, ov, shift=shift)
            exe, _ = SC.build("asan")
            rr = SC.run(exe, params, iters, 1, 1, mode="slots", timeout=1800)
        what, key = SC.classify(rr["rc"], rr["err"])
        if what:
            V.fail_input("%s [single cell with remeshing %s, shift %r]" % (what, name, list(shift)), args, key=key)
            return
        runs.append(parse_slots(rr["out"]))
    (ref, xa), (tr, xb) = runs
    stats["oracle_runs"] += 2
    tol = tol_rel(ratio, iters) * SIZE
    worst = 0.0
    nops = 0
    for k, (sa, sb) in enumerate(zip(ref, tr)):
        if sa["ncells"] != 1 or sb["ncells"] != 1:
            break
        Ra, Rb = sa["cells"][0]["R"], sb["cells"][0]["R"]
        if k > 0 and book_tokens(ref[k - 1]["cells"][0]["R"]) != book_tokens(Ra):
            nops += 1
        if book_tokens(Ra) != book_tokens(Rb) or sa["J"] != sb["J"]:
            # a threshold decision (edge length against l_min² / l_max², triangle score) that flips by rounding is not a violation:
            # it is one if the two meshes were still far from every threshold.  Decide on the state BEFORE the iteration.
            swap = str((ov or {}).get("enable_edge_swap_operation", "0")) not in ("0", "false")
            margin = threshold_margin(ref[k - 1]["cells"][0]["R"], lmin, swap) if k > 0 else threshold_margin(Ra, lmin, swap)
            if k == 0 or margin > 1e3 * tol_rel(ratio, iters):
                V.fail_input("iteration %d: the bookkeeping state (used slots / triangles / edge index / free queues) of the run translated by %.3g cell sizes differs "
                             "from the reference run although no edge length / triangle score was within %.2g (relative) of a threshold" % (sa["iter"], ratio, margin), args)
            else:
                stats["oracle_threshold_flips"] += 1
            break
        for (ua, pa, ma), (ub, pb, mb) in zip(node_positions(Ra), node_positions(Rb)):
            if not ua:
                if pb != pa:
                    V.fail_input("iteration %d: a released node slot holds %r in the translated run and %r in the reference" % (sa["iter"], pb, pa), args)
                    return
                continue
            for j in range(3):
                d = abs(pb[j] - t[j] - pa[j])
                worst = max(worst, d)
                if d > tol:
                    V.fail_input("iteration %d: a node of the translated run is off by %.3g cell sizes (allowed %.3g) from the translate of the reference "
                                 "(%d remeshing passes with operations so far)" % (sa["iter"], d / SIZE, tol / SIZE, nops), args)
                    return
                sc = max(abs(ma[j]), abs(mb[j]), 1e-22)
                if abs(ma[j] - mb[j]) > (1e-6 + 1e5 * tol_rel(ratio, iters)) * max(sc, 1e-18):
                    V.fail_input("iteration %d: momentum %r vs %r in the translated run" % (sa["iter"], mb[j], ma[j]), args)
                    return
        for key, nm in ((5, "area"), (6, "volume"), (7, "target volume")):
            x, y = vlib.unhex(sa["cells"][0]["C"][key]), vlib.unhex(sb["cells"][0]["C"][key])
            if not (abs(x - y) <= (1e-9 + 1e3 * tol_rel(ratio, iters)) * max(abs(x), abs(y), 1e-300)):
                V.fail_input("iteration %d: %s %r vs %r in the translated run" % (sa["iter"], nm, x, y), args)
                return
    else:
        if (xa or None) != (xb or None) or len(ref) != len(tr):
            V.fail_input("the run translated by %.3g cell sizes ends after %d iterations with %r, the reference run after %d iterations with %r"
                         % (ratio, len(tr) - 1, xb, len(ref) - 1, xa), args)
            return
    stats["oracle_passes_with_operations"] += nops
    stats["oracle_worst_deviation_over_size"][str(ratio)] = max(stats["oracle_worst_deviation_over_size"].get(str(ratio), 0.0), worst / SIZE)


def threshold_margin(R, lmin, swap=False):
    """smallest relative distance of a squared edge length of the dumped mesh to l_min² or l_max²; with the swap pass on also the
    relative distance of a triangle score to triangle_score_min_ = 0.2 and, for the triangles near / below it, the relative gap
    between their two longest edges (which edge is swapped is decided by `>` between lengths: on a symmetric mesh these are exact
    ties that rounding breaks differently after a translation)"""
    pos = node_positions(R)
    k = R.index("E")
    ne = int(R[k + 1])
    lo, hi = lmin * lmin, (lmin * 3.) * (lmin * 3.)
    best = math.inf
    j = k + 2
    for _ in range(ne):
        a, b = int(R[j + 1]), int(R[j + 2])
        j += 5
        pa, pb = pos[a][1], pos[b][1]
        l2 = sum((pa[i] - pb[i]) ** 2 for i in range(3))
        best = min(best, abs(l2 - lo) / lo, abs(l2 - hi) / hi)
    if swap:
        kf = R.index("F")
        nf = int(R[kf + 1])
        j = kf + 2
        qmin = 36. / math.sqrt(3.)
        for _ in range(nf):
            if R[j + 1] == "0":
                j += 2
                continue
            a, b, c = int(R[j + 2]), int(R[j + 3]), int(R[j + 4])
            area = vlib.unhex(R[j + 9])
            j += 10
            ls = sorted([math.dist(pos[a][1], pos[b][1]), math.dist(pos[b][1], pos[c][1]), math.dist(pos[c][1], pos[a][1])])
            per = sum(ls)
            if per == 0.0:
                continue
            score = qmin * area / (per * per)
            best = min(best, abs(score - 0.2) / 0.2)
            if score < 0.25:
                best = min(best, (ls[2] - ls[1]) / ls[2] if ls[2] > 0 else 0.0)
    return best


# ---------------------------------------------------------------- entry points
def prove_remesh():
    return vlib.prove(PROOF_PID, THEOREMS_REMESH, NAMESPACE, extra_targets=(DRIVER,))


def new_stats():
    return {"scenarios": [], "doubles_compared": 0, "iterations_compared": 0, "worst_ulps": 0, "bit_identical": True, "splits": 0, "merges": 0, "swaps": 0, "rebases": 0,
            "iterations_with_operations": 0, "out_of_domain_iterations": 0, "oracle_runs": 0, "oracle_threshold_flips": 0, "oracle_passes_with_operations": 0,
            "oracle_worst_deviation_over_size": {}}


def run_remesh(V, tier, seed, stats):
    t0 = time.time()
    stats.update(new_stats())
    drv = vlib.driver_path(DRIVER)
    if not os.path.exists(drv):
        ok, log, _ = vlib.lake_build([DRIVER])
        if not ok or not os.path.exists(drv):
            V.fail_tie("correspondence", "assembled iteration with remeshing: model driver %s does not build: %s" % (DRIVER, log[-400:]))
            return stats
    r = vlib.Rng(seed).fork("c14-remesh")
    cases = []
    for (name, spec, rule, ov, iters) in scenario_list(r, tier):
        P, T = build_mesh(spec)
        lmin = lmin_of(rule, P, T)
        cases.append((name, P, T, lmin, ov, iters))
        correspond(name, P, T, lmin, ov, iters, seed, stats, V)
    if stats["splits"] == 0 or stats["merges"] == 0:
        V.fail_tie("correspondence", "assembled iteration with remeshing: the scenario set executed %d splits and %d collapses — the stage tests nothing"
                   % (stats["splits"], stats["merges"]))
    # oracle on the real code
    ro = vlib.Rng(seed).fork("c14-remesh-oracle")
    ratios = (1e-2, 1.0, 30.0, 1e3)
    picks = [cases[0], cases[4]] if tier != "thorough" else [cases[0], cases[1], cases[2], cases[3], cases[4]]
    for i, (name, P, T, lmin, ov, iters) in enumerate(picks):
        rs = ratios if tier == "thorough" else (ratios[(2 * i + 1) % 4], ratios[(2 * i + 3) % 4])
        for ratio in rs:
            d = [ro.normal() for _ in range(3)]
            n = math.sqrt(sum(x * x for x in d))
            t = [x / n * ratio * SIZE for x in d]
            oracle(name, P, T, lmin, ov, 30 if tier != "thorough" else 60, t, ratio, seed, stats, V)
    stats["wall"] = round(time.time() - t0, 1)
    return stats


def replay(ctx):
    rp = ctx["replay"]
    inp = {}
    if isinstance(rp, dict):
        inp = (rp.get("failing_input") or {}).get("input") or rp.get("input") or rp
    print(json.dumps(rp, indent=1, default=str)[:3000])
    if not isinstance(inp, dict) or "scenario" not in inp:
        print("re-run: VERIF_SEED=<seed of the replay> python3 tools/check.py C14")
        return 1
    V = vlib.Verdict("C14")
    stats = new_stats()
    r = vlib.Rng(inp.get("seed", 0)).fork("c14-remesh")
    found = None
    for tier in ("quick", "thorough"):
        for (name, spec, rule, ov, iters) in scenario_list(vlib.Rng(inp.get("seed", 0)).fork("c14-remesh"), tier):
            if name == inp["scenario"]:
                found = (spec, rule)
    if found is None:
        print("unknown scenario", inp["scenario"])
        return 1
    P, T = build_mesh(found[0])
    if inp.get("part") == "oracle":
        oracle(inp["scenario"], P, T, inp["lmin"], inp.get("overrides") or {}, inp["iterations"], inp["translation"], inp["offset_over_size"], inp.get("seed", 0), stats, V)
    else:
        correspond(inp["scenario"], P, T, inp["lmin"], inp.get("overrides") or {}, inp["iterations"], inp.get("seed", 0), stats, V)
    for f in V.concrete + V.broken:
        print("FAIL", json.dumps(f, default=str)[:800])
    return 1 if (V.concrete or V.broken) else 0


if __name__ == "__main__":
    import sys
    V = vlib.Verdict("C14")
    st = {}
    run_remesh(V, sys.argv[1] if len(sys.argv) > 1 else "quick", vlib.seed(), st)
    print(json.dumps(st, indent=1, default=str))
    print("FAILURES", json.dumps(V.concrete + V.broken, indent=1, default=str)[:4000])
