"""C09 helpers: mesh / plane generators, the two-process session (harness/h_division.cpp = real code,
lean/Driver/C09.lean = model), answer parsing and the independent oracles on the real result."""
import os, math, subprocess, json, threading, signal
import vlib
from vlib import Rng, fhex, unhex
import remesh_common as RC

HARNESS = os.path.join(vlib.VERIF, "harness", "h_division.cpp")
OPAQUE = ("tri", "centroid", "axis", "axisfree", "divide", "popclear", "popadd", "popready", "poptake", "round", "seed")   # answered by the real code only


def build():
    exe, rebuilt = vlib.build_repo.build_harness(HARNESS, "h_division")
    return exe, vlib.driver_path("drv_c09"), rebuilt


# ---------------------------------------------------------------- vectors
def sub(u, v): return [u[i] - v[i] for i in range(3)]
def dot(u, v): return sum(u[i] * v[i] for i in range(3))
def cross(u, v): return [u[1] * v[2] - u[2] * v[1], u[2] * v[0] - u[0] * v[2], u[0] * v[1] - u[1] * v[0]]
def norm(v): return math.sqrt(dot(v, v))
def unit(v):
    n = norm(v)
    return [x / n for x in v]


# ---------------------------------------------------------------- meshes
def rounded_mesh(r, level=None, kind=None, scale=None, noise=0.0, aniso=True, rotate=True, offset=True):
    """closed outward genus-0 mesh: subdivided platonic solid mapped to an ellipsoid; returns P, T, scale"""
    kind = kind or r.choice(["icosa", "icosa", "octa", "tetra"])
    P, T = RC.base_solid(kind)
    if level is None:
        level = r.randint(0, 2) if kind != "icosa" else r.randint(0, 2)
    for _ in range(level):
        P, T = RC.subdivide(P, T)
    scale = scale if scale is not None else 10.0 ** r.uniform(-6, -4)
    rad = [scale * (r.uniform(0.7, 1.4) if aniso else 1.0) for _ in range(3)]
    off = [scale * r.choice([0.0, 0.0, 3.0, -20.0]) * r.uniform(0.5, 1.5) for _ in range(3)] if offset else [0.0, 0.0, 0.0]
    ax = unit([r.normal() for _ in range(3)]); ang = r.uniform(0, 2 * math.pi) if rotate else 0.0
    def rot(v):
        c, s = math.cos(ang), math.sin(ang)
        cr = cross(ax, v); d = dot(ax, v)
        return [v[i] * c + cr[i] * s + ax[i] * d * (1 - c) for i in range(3)]
    Q = []
    for p in P:
        q = [p[0] * rad[0], p[1] * rad[1], p[2] * rad[2]]
        if noise:
            q = [q[i] * (1.0 + noise * r.normal()) for i in range(3)]
        q = rot(q) if rotate else q
        Q.append([q[i] + off[i] for i in range(3)])
    T = [r.choice([(a, b, c), (b, c, a), (c, a, b)]) for (a, b, c) in T]
    r.shuffle(T)
    return Q, T, scale


def mesh_lines(P, T):
    return ["cell"] + ["n " + " ".join(fhex(x) for x in p) for p in P] + ["t " + " ".join(str(x) for x in t) for t in T]


def centroid_of(P, T):
    """area-weighted centroid of the surface (what compute_centroid computes), for plane generation only"""
    A = 0.0; c = [0.0, 0.0, 0.0]
    for (a, b, d) in T:
        n = cross(sub(P[b], P[a]), sub(P[d], P[a])); ar = 0.5 * norm(n)
        A += ar
        for i in range(3):
            c[i] += ar * (P[a][i] + P[b][i] + P[d][i]) / 3.0
    return [x / A for x in c]


AXES = [[1, 0, 0], [-1, 0, 0], [0, 1, 0], [0, -1, 0], [0, 0, 1], [0, 0, -1]]


def pick_axis(r, kind=None):
    kind = kind or r.choice(["random", "random", "random", "axis", "axis", "nearz", "nearmz", "mz"])
    if kind == "random":
        return unit([r.normal() for _ in range(3)]), kind
    if kind == "axis":
        return [float(x) for x in r.choice(AXES)], kind
    if kind == "mz":
        return [0.0, 0.0, -1.0], kind
    eps = 10.0 ** r.uniform(-9, -2)
    v = unit([eps * r.normal(), eps * r.normal(), 1.0 if kind == "nearz" else -1.0])
    return v, kind


# ---------------------------------------------------------------- session
class Session:
    """request lines go to the real code and (unless opaque) to the model; answers are returned as a pair"""

    def __init__(self, exe, drv):
        self.exe, self.drv = exe, drv
        self.env = dict(vlib.ENV)
        self.env["ASAN_OPTIONS"] = self.env.get("ASAN_OPTIONS", "") + ":handle_abort=1"
        self.h = subprocess.Popen([exe], stdin=subprocess.PIPE, stdout=subprocess.PIPE, stderr=subprocess.PIPE, env=self.env, text=True, bufsize=1)
        self.m = subprocess.Popen([drv], stdin=subprocess.PIPE, stdout=subprocess.PIPE, stderr=subprocess.PIPE, text=True, bufsize=1)
        self.trace = []
        self.crashed = None
        self.n_lines = 0

    def new_history(self):
        self.trace = []

    def _one(self, p, line):
        try:
            p.stdin.write(line + "\n"); p.stdin.flush()
            a = p.stdout.readline()
        except (BrokenPipeError, OSError):
            a = ""
        return a

    WATCHDOG_S = 90.0      # a request the real code does not answer within this time is reported ("the simulation continues")

    def impl(self, line):
        self.trace.append(line)
        self.n_lines += 1
        fired = []
        def bark():
            fired.append(True)
            try:
                self.h.send_signal(signal.SIGABRT)      # ASan prints the stack of the stuck thread (handle_abort=1)
            except Exception:
                pass
        wd = threading.Timer(self.WATCHDOG_S, bark)
        wd.start()
        a = self._one(self.h, line)
        wd.cancel()
        if a == "" and fired:
            err = ""
            try:
                self.h.wait(timeout=20); err = self.h.stderr.read()[-2500:]
            except Exception:
                try:
                    self.h.kill()
                except Exception:
                    pass
            self.crashed = {"line": line[:300], "rc": "watchdog", "stderr": "no answer within %g s; stack at abort: %s" % (self.WATCHDOG_S, err),
                            "replay": list(self.trace), "hang": True}
            return None
        if a == "":
            rc = None
            try:
                rc = self.h.wait(timeout=20)
            except Exception:
                pass
            err = ""
            try:
                err = self.h.stderr.read()[-2500:]
            except Exception:
                pass
            self.crashed = {"line": line[:300], "rc": rc, "stderr": err, "replay": list(self.trace)}
            return None
        return a.rstrip("\n")

    def model(self, line):
        a = self._one(self.m, line)
        return a.rstrip("\n") if a else "<model driver died>"

    def both(self, line):
        a = self.impl(line)
        if a is None:
            return None, None
        return a, self.model(line)

    def restart_impl(self):
        try:
            self.h.kill()
        except Exception:
            pass
        self.h = subprocess.Popen([self.exe], stdin=subprocess.PIPE, stdout=subprocess.PIPE, stderr=subprocess.PIPE, env=self.env, text=True, bufsize=1)
        self.crashed = None

    def close(self):
        for p in (self.h, self.m):
            try:
                p.stdin.close()
            except Exception:
                pass
            try:
                p.wait(timeout=5)
            except Exception:
                p.kill()


def first_diff(a, b):
    wa, wb = a.split(), b.split()
    for i, (x, y) in enumerate(zip(wa, wb)):
        if x != y:
            return "token %d: impl=%s model=%s (context: %s)" % (i, x, y, " ".join(wa[max(0, i - 6):i + 3]))
    return "lengths %d vs %d tokens" % (len(wa), len(wb))


# ---------------------------------------------------------------- parsing
def parse_nodes(sec):
    """'N k ; x y z ; …' -> list of [x,y,z]"""
    it = [x.strip() for x in sec.strip().split(";")]
    k = int(it[0].split()[1])
    out = [[unhex(z) for z in x.split()] for x in it[1:]]
    assert k == len(out)
    return out


def parse_faces(sec):
    it = [x.strip() for x in sec.strip().split(";")]
    k = int(it[0].split()[1])
    out = [[int(z) for z in x.split()] for x in it[1:]]
    assert k == len(out), (k, len(out))
    return out


def parse_geo(words):
    """tokens 'T k ; a b c 9hex ; …' -> list of ((a,b,c), [p,q,r])"""
    s = " ".join(words)
    it = [x.strip() for x in s.split(";")]
    k = int(it[0].split()[1])
    out = []
    for x in it[1:]:
        w = x.split()
        ids = (int(w[0]), int(w[1]), int(w[2]))
        c = [unhex(z) for z in w[3:12]]
        out.append((ids, [c[0:3], c[3:6], c[6:9]]))
    assert k == len(out)
    return out


def parse_daughter(sec):
    """'N k ; u ; … | F k ; 1 a b c ; … | FN … | FF … | vol … tv … type …' (impl) or '… | vol6 … reoriented …' (model)"""
    parts = [p.strip() for p in sec.split("|")]
    d = {}
    it = [x.strip() for x in parts[0].split(";")]
    d["used"] = [x == "1" for x in it[1:]]
    assert int(it[0].split()[1]) == len(d["used"])
    it = [x.strip() for x in parts[1].split(";")]
    d["faces"] = [tuple(int(z) for z in x.split()[1:4]) for x in it[1:]]
    d["fn"] = [int(z) for z in parts[2].split()[1:]]
    d["ff"] = [int(z) for z in parts[3].split()[1:]]
    w = parts[4].split()
    kv = dict(zip(w[0::2], w[1::2]))
    d["kv"] = kv
    return d


def canon_geo(geo):
    """canonical form of a surface given by coordinate triples: independent of node numbering, triangle order, rotation"""
    out = []
    for _, tri in geo:
        t = [tuple(p) for p in tri]
        k = min(range(3), key=lambda i: t[i])
        out.append((t[k], t[(k + 1) % 3], t[(k + 2) % 3]))
    out.sort()
    return out


def vol6_geo(geo):
    """six times the signed volume; coordinates are taken relative to the first vertex (closed surfaces: translation invariant)"""
    if not geo:
        return 0.0
    o = geo[0][1][0]
    return math.fsum(dot(sub(t[0], o), cross(sub(t[1], o), sub(t[2], o))) for _, t in geo)


def area_geo(geo):
    return sum(0.5 * norm(cross(sub(t[1], t[0]), sub(t[2], t[0]))) for _, t in geo)


# ---------------------------------------------------------------- oracles (independent restatement of the property)
def topo_oracle(tris, what):
    """closed, simple, non-degenerate, chi = 2, connected — recomputed from the triangle id list alone"""
    bad = []
    he = {}
    for fi, (a, b, c) in enumerate(tris):
        if a == b or b == c or c == a:
            bad.append("%s: triangle %d repeats a node %r" % (what, fi, (a, b, c)))
        for e in ((a, b), (b, c), (c, a)):
            he.setdefault(e, []).append(fi)
    for (x, y), fl in he.items():
        if len(fl) != 1:
            bad.append("%s: half-edge %d->%d is traversed %d times" % (what, x, y, len(fl))); break
        if (y, x) not in he:
            bad.append("%s: open surface: edge %d-%d has no triangle traversing it in the opposite direction" % (what, x, y)); break
    und = {(min(x, y), max(x, y)) for (x, y) in he}
    V = len({x for t in tris for x in t}); E = len(und); F = len(tris)
    if V - E + F != 2:
        bad.append("%s: V-E+F = %d-%d+%d = %d" % (what, V, E, F, V - E + F))
    if tris:
        adj = {}
        for (x, y) in he:
            adj.setdefault(x, set()).add(y); adj.setdefault(y, set()).add(x)
        seen = set(); todo = [tris[0][0]]
        while todo:
            v = todo.pop()
            if v in seen:
                continue
            seen.add(v); todo += list(adj.get(v, ()))
        if len(seen) != V:
            bad.append("%s: surface is not connected (%d of %d nodes reached)" % (what, len(seen), V))
    else:
        bad.append("%s: no triangles" % what)
    return bad


VOL_REL_TOL = 0.02     # remeshing tolerance on V1+V2 vs V (see notes/C09.md: measured distribution, refine_mesh collapses edges)


def daughters_oracle(mother_geo, ctr, axis, lmin, mtv, mtype, d1, d2, exact_volume=False, vol_rel_tol=None):
    """d = dict(id, type, tv, geo).  Returns list of failure texts."""
    bad = []
    V = vol6_geo(mother_geo) / 6.0
    vols = []
    sides = []
    for k, d in ((1, d1), (2, d2)):
        tris = [ids for ids, _ in d["geo"]]
        bad += topo_oracle(tris, "daughter %d" % k)
        # coordinates consistent with ids
        posmap = {}
        for ids, tri in d["geo"]:
            for i in range(3):
                if posmap.setdefault(ids[i], tuple(tri[i])) != tuple(tri[i]):
                    bad.append("daughter %d: node %d has two positions" % (k, ids[i]))
        v = vol6_geo(d["geo"]) / 6.0
        vols.append(v)
        if not (v > 0):
            bad.append("daughter %d is not outward oriented: signed volume %g" % (k, v))
        # signed distances of the nodes to the plane (judged after the loop: the two daughters on opposite sides)
        ss = [dot(sub(list(q), ctr), axis) for q in posmap.values()]
        sides.append((min(ss) if ss else 0.0, max(ss) if ss else 0.0))
        if d["type"] != mtype:
            bad.append("daughter %d has type %s, mother %s" % (k, d["type"], mtype))
        if d["tv"] != mtv / 2:
            bad.append("daughter %d has target volume %r, half of the mother's is %r" % (k, d["tv"], mtv / 2))
    # each daughter on its own side of the plane through the mother's centroid (tolerance l_min * 1e-6)
    ptol = lmin * 1e-6 * max(1.0, norm(axis))
    neg = [hi <= ptol for (lo, hi) in sides]
    pos = [lo >= -ptol for (lo, hi) in sides]
    if not ((neg[0] and pos[1]) or (pos[0] and neg[1])):
        bad.append("the daughters are not on opposite sides of the division plane: signed distances of their nodes span %r and %r (tolerance %g)" % (sides[0], sides[1], ptol))
    tol = (1e-6 if exact_volume else (vol_rel_tol if vol_rel_tol is not None else VOL_REL_TOL)) * abs(V)
    if abs(vols[0] + vols[1] - V) > tol:
        bad.append("daughter volumes %g + %g differ from the mother's %g by %g (tolerance %g)" % (vols[0], vols[1], V, vols[0] + vols[1] - V, tol))
    return bad, (vols[0] + vols[1] - V) / abs(V) if V else 0.0


def parse_divide(ans):
    """answer of `divide`"""
    secs = [s.strip() for s in ans.split("||")]
    w = secs[0].split()
    r = {"some": w[0] == "some"}
    r["ctr"] = [unhex(z) for z in w[2:5]]
    r["axis"] = [unhex(z) for z in w[6:9]]
    r["vol"] = unhex(w[10]); r["mtv"] = unhex(w[12]); r["mtype"] = w[14]; r["attempts"] = int(w[16])
    r["before"] = parse_geo(secs[1].split()[1:])
    r["after"] = parse_geo(secs[2].split()[1:])
    for k, s in enumerate(secs[3:5]):
        ww = s.split()
        r["d%d" % (k + 1)] = {"id": int(ww[2]), "lid": int(ww[4]), "type": ww[6], "tv": unhex(ww[8]), "vol": unhex(ww[10]), "geo": parse_geo(ww[11:])}
    return r


def parse_round(ans):
    a, b = ans.split("|||")
    secs = [s.strip() for s in a.split("||")]
    w = secs[0].split()
    r = {"ctr": int(w[1]), "n": int(w[3]), "cells": [], "mothers": []}
    for s in secs[1:]:
        ww = s.split()
        r["cells"].append({"tag": ww[0], "id": int(ww[2]), "lid": int(ww[4]), "type": ww[6], "tv": unhex(ww[8]), "vol": unhex(ww[10]), "geo": parse_geo(ww[11:])})
    secs = [s.strip() for s in b.split("||")]
    for s in secs[1:]:
        ww = s.split()
        i = ww.index("before"); j = ww.index("after")
        r["mothers"].append({"tag": ww[0], "ctr": [unhex(z) for z in ww[2:5]], "axis": [unhex(z) for z in ww[6:9]], "vol": unhex(ww[10]), "tv": unhex(ww[12]),
                             "before": parse_geo(ww[i + 1:j]), "after": parse_geo(ww[j + 1:])})
    return r
