"""C12 helpers: closed genus-0 test meshes, exact rational rotations, exact (Fraction) geometry."""
import math
from fractions import Fraction as Fr


# ------------------------------------------------------------------ base meshes (outward winding)
def icosahedron():
    t = (1.0 + math.sqrt(5.0)) / 2.0
    v = [(-1, t, 0), (1, t, 0), (-1, -t, 0), (1, -t, 0), (0, -1, t), (0, 1, t), (0, -1, -t), (0, 1, -t),
         (t, 0, -1), (t, 0, 1), (-t, 0, -1), (-t, 0, 1)]
    f = [(0, 11, 5), (0, 5, 1), (0, 1, 7), (0, 7, 10), (0, 10, 11), (1, 5, 9), (5, 11, 4), (11, 10, 2), (10, 7, 6),
         (7, 1, 8), (3, 9, 4), (3, 4, 2), (3, 2, 6), (3, 6, 8), (3, 8, 9), (4, 9, 5), (2, 4, 11), (6, 2, 10),
         (8, 6, 7), (9, 8, 1)]
    return [list(map(float, p)) for p in v], [tuple(x) for x in f]


def subdivide(v, f):
    v = [list(p) for p in v]
    cache = {}

    def mid(a, b):
        k = (min(a, b), max(a, b))
        if k not in cache:
            cache[k] = len(v)
            v.append([(v[a][i] + v[b][i]) / 2 for i in range(3)])
        return cache[k]
    nf = []
    for (a, b, c) in f:
        ab, bc, ca = mid(a, b), mid(b, c), mid(c, a)
        nf += [(a, ab, ca), (b, bc, ab), (c, ca, bc), (ab, bc, ca)]
    return v, nf


def icosphere(level):
    v, f = icosahedron()
    for _ in range(level):
        v, f = subdivide(v, f)
    out = []
    for p in v:
        n = math.sqrt(sum(x * x for x in p))
        out.append([x / n for x in p])
    return out, f


def cube():
    v = [[0, 0, 0], [1, 0, 0], [1, 0, 1], [0, 0, 1], [0, 1, 0], [1, 1, 0], [0, 1, 1], [1, 1, 1]]
    f = [(0, 1, 3), (2, 3, 1), (0, 4, 1), (5, 1, 4), (0, 3, 4), (6, 4, 3), (1, 5, 2), (7, 2, 5), (5, 4, 7), (6, 7, 4),
         (3, 2, 6), (7, 6, 2)]
    return [[float(x) - 0.5 for x in p] for p in v], f


def tetrahedron():
    v = [[1, 1, 1], [1, -1, -1], [-1, 1, -1], [-1, -1, 1]]
    f = [(0, 1, 2), (0, 3, 1), (0, 2, 3), (1, 3, 2)]
    return [[float(x) for x in p] for p in v], f


def octahedron():
    v = [[1, 0, 0], [-1, 0, 0], [0, 1, 0], [0, -1, 0], [0, 0, 1], [0, 0, -1]]
    f = [(0, 2, 4), (2, 1, 4), (1, 3, 4), (3, 0, 4), (2, 0, 5), (1, 2, 5), (3, 1, 5), (0, 3, 5)]
    return [[float(x) for x in p] for p in v], f


def prism():
    v = [[0, 0, 0], [1, 0, 0], [0, 1, 0], [0, 0, 1.5], [1, 0, 1.5], [0, 1, 1.5]]
    f = [(0, 2, 1), (3, 4, 5), (0, 1, 4), (0, 4, 3), (1, 2, 5), (1, 5, 4), (2, 0, 3), (2, 3, 5)]
    return [[float(x) for x in p] for p in v], f


def torus(n=6, m=5, R=2.0, r=0.7):
    v = []
    for i in range(n):
        for j in range(m):
            a, b = 2 * math.pi * i / n, 2 * math.pi * j / m
            v.append([(R + r * math.cos(b)) * math.cos(a), (R + r * math.cos(b)) * math.sin(a), r * math.sin(b)])
    f = []
    idx = lambda i, j: (i % n) * m + (j % m)
    for i in range(n):
        for j in range(m):
            f.append((idx(i, j), idx(i + 1, j), idx(i + 1, j + 1)))
            f.append((idx(i, j), idx(i + 1, j + 1), idx(i, j + 1)))
    return v, f


# ------------------------------------------------------------------ exact geometry
def fr3(p):
    return (Fr(p[0]), Fr(p[1]), Fr(p[2]))


def det3(a, b, c):
    return (a[0] * (b[1] * c[2] - b[2] * c[1]) - a[1] * (b[0] * c[2] - b[2] * c[0]) + a[2] * (b[0] * c[1] - b[1] * c[0]))


def cross(u, v):
    return (u[1] * v[2] - u[2] * v[1], u[2] * v[0] - u[0] * v[2], u[0] * v[1] - u[1] * v[0])


def sub(u, v):
    return (u[0] - v[0], u[1] - v[1], u[2] - v[2])


def exact_signed_vol6(P, faces):
    """six times the signed volume (Fraction) of the oriented triangle list"""
    return sum(det3(P[a], P[b], P[c]) for (a, b, c) in faces)


def exact_normsq(P, t):
    n = cross(sub(P[t[1]], P[t[0]]), sub(P[t[2]], P[t[0]]))
    return n[0] * n[0] + n[1] * n[1] + n[2] * n[2], n


def fsqrt(x):
    """sqrt of a non-negative Fraction to ~1e-17 relative (float sqrt + one Newton step in Fractions)"""
    if x == 0:
        return Fr(0)
    # scale to avoid under/overflow of float(x)
    e = (x.numerator.bit_length() - x.denominator.bit_length()) // 2
    sc = Fr(2) ** (2 * e)
    y = Fr(math.sqrt(float(x / sc)))
    y = (y + (x / sc) / y) / 2
    return y * Fr(2) ** e


def rational_rotation(r):
    """exact rotation matrix with rational entries from a random integer quaternion"""
    while True:
        q = [r.randint(-6, 6) for _ in range(4)]
        n = sum(x * x for x in q)
        if n:
            break
    w, x, y, z = q
    n = Fr(n)
    return [[Fr(w * w + x * x - y * y - z * z) / n, Fr(2 * (x * y - w * z)) / n, Fr(2 * (x * z + w * y)) / n],
            [Fr(2 * (x * y + w * z)) / n, Fr(w * w - x * x + y * y - z * z) / n, Fr(2 * (y * z - w * x)) / n],
            [Fr(2 * (x * z - w * y)) / n, Fr(2 * (y * z + w * x)) / n, Fr(w * w - x * x - y * y + z * z) / n]]


def matvec(M, p):
    return [M[i][0] * p[0] + M[i][1] * p[1] + M[i][2] * p[2] for i in range(3)]


def sym_eig_max(C):
    """largest eigenvalue, gap to the second and a unit eigenvector of a symmetric 3x3 (floats), Jacobi sweeps"""
    A = [row[:] for row in C]
    V = [[1.0, 0, 0], [0, 1.0, 0], [0, 0, 1.0]]
    for _ in range(60):
        off = abs(A[0][1]) + abs(A[0][2]) + abs(A[1][2])
        if off < 1e-300:
            break
        for (p, q) in ((0, 1), (0, 2), (1, 2)):
            if A[p][q] == 0:
                continue
            th = (A[q][q] - A[p][p]) / (2 * A[p][q])
            t = (1 if th >= 0 else -1) / (abs(th) + math.sqrt(th * th + 1))
            c = 1 / math.sqrt(t * t + 1)
            s = t * c
            for k in range(3):
                akp, akq = A[k][p], A[k][q]
                A[k][p], A[k][q] = c * akp - s * akq, s * akp + c * akq
            for k in range(3):
                apk, aqk = A[p][k], A[q][k]
                A[p][k], A[q][k] = c * apk - s * aqk, s * apk + c * aqk
            for k in range(3):
                vkp, vkq = V[k][p], V[k][q]
                V[k][p], V[k][q] = c * vkp - s * vkq, s * vkp + c * vkq
    ev = [A[0][0], A[1][1], A[2][2]]
    order = sorted(range(3), key=lambda i: ev[i])
    i = order[2]
    return ev[i], ev[i] - ev[order[1]], [V[0][i], V[1][i], V[2][i]], ev
