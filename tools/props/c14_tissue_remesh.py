"""C14 — the ASSEMBLED iteration of a TISSUE of interacting epithelial cells WITH remeshing (lean/SimuVerif/Model/TissueR.lean,
command `tissuer` of drv_c14) against the real `solver::run_iteration`, in runs in which the cells touch / overlap / adhere (node
couplings, repulsion forces, polarisation) WHILE `refine_meshes` splits and collapses edges and `save_mesh` rebases the cells.

  run_tissueR(V, tier, seed, stats)  (1) correspondence: generated tissues (growing adhering cells, cells pushed together, l_min placed
                                         just inside / outside the band edges of the generated meshes), REAL solver through
                                         harness/h_solver.cpp in mode `tslots` (1 thread, EVERY iteration dumped with the complete
                                         bookkeeping state of every cell — node slots with used flag / position / momentum, face slots
                                         with triangle / type / cached normal / area, edge index in std::set order with the stored
                                         face ids, both free queues — and the raw node attributes of EVERY slot: force, normal,
                                         curvature, coupling, closest squared distance), model started from snapshot 0: every token
                                         of every snapshot is compared (doubles as bit patterns, MAX_ULPS = 0, slot numbering
                                         included).  Executed splits / collapses / swaps / rebases / couplings are counted per
                                         scenario; a scenario set without splits, collapses AND couplings (in one run) FAILS.
                                     (2) oracle on the real code (independent of the model): a tissue and its translate; the same
                                         bookkeeping state and couplings token for token, positions − t within the policy of c14.py,
                                         while no threshold decision has flipped by rounding.
  prove_tissueR()                    re-checks Properties/C14TissueR.lean (THEOREMS_TISSUER) and rebuilds drv_c14
  replay(ctx)
"""
import os, re, math, time, json
import vlib
import scenarios as SC
import c14_pipeline as CP
import c14_tissue as CT
import c14_remesh as CRM

DRIVER = "drv_c14"
PROOF_PID = "C14TissueR"
NAMESPACE = "Simu.C14"
THEOREMS_TISSUER = [
    "collect_translate", "viewR_translate", "rebaseCell_translate", "saveMeshT_translate", "refineCell_translate", "meshStageT_translate",
    "contactSearchR_translate", "contactRunR_translate", "polariseR_translate", "nodeNormalsH_translate", "nodeNormals_eq_nodeNormalsH",
    "internalForcesR_translate", "integrateR_translate", "beforeIntegrationR_translate", "physStage_translate",
    "tissueIterationR_translate", "stepOkTR_translate", "domainTR_translate", "tissueRunR_translate", "tissueRunR_observables",
    "pairR_setup", "pairR_stepOk", "pairR_splits_and_couples"]
GEN_TISSUER = ["NodeNormals", "Forces", "Integrator", "CellCycle", "BroadPhase", "ContactRule", "Kernel", "RemeshConsts", "Schedule"]
MAX_ULPS = 0
SIZE = 1e-5
HEX = CRM.HEX
STRICT_ITERS = 80


# ---------------------------------------------------------------- scenarios
def ico(level, rad, c, st=(1.0, 0.9, 1.1), egg=0.05):
    return (level, rad, tuple(c), tuple(st), egg)


def make_cells(r, kind):
    """icosphere arguments of the cells (all epithelial)"""
    if kind == "pair-touching":
        d = r.uniform(9.5e-6, 9.9e-6)
        return [ico(2, 5e-6, (0, 0, 0)), ico(2, 5e-6, (d, r.uniform(-2e-7, 2e-7), 0))]
    if kind == "pair-overlapping":
        d = r.uniform(8.7e-6, 9.1e-6)
        return [ico(2, 5e-6, (0, 0, 0)), ico(2, 5e-6, (d, r.uniform(2e-7, 6e-7), r.uniform(-3e-7, 3e-7)))]
    if kind == "pair-unequal":
        d = r.uniform(8.6e-6, 9.0e-6)
        return [ico(2, 5e-6, (0, 0, 0)), ico(2, 5e-6, (d, r.uniform(5e-7, 9e-7), r.uniform(3e-7, 6e-7)), (1.0, 1.1, 0.9), 0.1)]
    if kind == "triplet":
        d = r.uniform(9.2e-6, 9.7e-6)
        return [ico(2, 5e-6, (0, 0, 0), (1.0, 1.0, 1.0), 0.03), ico(2, 5e-6, (d, 0, 0), (1.0, 1.0, 1.0), 0.03),
                ico(2, 5e-6, (0.5 * d, 0.866 * d, 0), (1.0, 1.0, 1.0), 0.03)]
    if kind == "small-pair":
        d = r.uniform(5.4e-6, 5.8e-6)
        return [ico(1, 3e-6, (0, 0, 0), (1.0, 0.95, 1.05), 0.04), ico(1, 3e-6, (d, r.uniform(-1e-7, 1e-7), 0), (1.0, 0.95, 1.05), 0.04)]
    if kind == "small-big":
        # a coarse small cell pressed into a fine big one: different mesh densities in the contact zone
        d = r.uniform(7.2e-6, 7.5e-6)
        return [ico(2, 5e-6, (0, 0, 0), (1.0, 0.95, 1.05), 0.04), ico(1, 2.8e-6, (d, r.uniform(-2e-7, 2e-7), r.uniform(-2e-7, 2e-7)), (1.0, 1.0, 1.0), 0.02)]
    if kind == "flat-pair":
        # a flat cell far below l_min next to a small regular one: the refinement pass of cell 0 ends with mesh_integrity_exception
        return [ico(1, 5e-6, (1e-5, 0.0, -2e-5), (1.0, 0.05, 3.0), 0.0), ico(1, 3e-6, (1e-5, 3.6e-6, -2e-5), (1.0, 0.95, 1.05), 0.04)]
    if kind == "far-pair":
        d = r.uniform(8.8e-6, 9.2e-6)
        o = (3e-4, -2e-4, 1e-4)
        return [ico(2, 5e-6, o), ico(2, 5e-6, (o[0] + d, o[1] + r.uniform(1e-7, 5e-7), o[2]))]
    raise ValueError(kind)


def scenario_list(r, tier):
    """(name, kind of tissue, lmin rule, overrides, iterations).  lmin rule as in c14_remesh: ('max', f) → 3·lmin = f · longest edge of the
    tissue; ('min', f) → lmin = f · shortest edge"""
    out = [
        # in the band at the start; a positive growth rate pushes edges over l_max while the two cells adhere
        ("growing-adhering", "pair-touching", ("max", 1.004), {"avg_growth_rate": "6e-11", "sampling_period": "3e-6"}, 100),
        # overlapping cells: the repulsion / the coupling to midpoints compresses the contact zone; the shortest edges are at l_min
        ("pushed-together", "pair-overlapping", ("min", 0.997), {"sampling_period": "2.5e-6", "surface_tension": "1.5e-3"}, 110),
        # the longest edges are already above l_max: splits in iteration 0 in both cells, in front of the first contact phase
        ("split-at-start", "pair-overlapping", ("max", 0.93), {"sampling_period": "2e-6", "bending_modulus": "2e-18", "angle_regularization_factor": "1e-16"}, 100),
        # the shortest edges are below l_min: collapses in iteration 0 (released slots from the first contact phase on)
        ("merge-at-start", "pair-unequal", ("min", 1.06), {"sampling_period": "2e-6", "contact_cutoff_adhesion": "8e-7"}, 100),
        # coarse meshes, swap pass on
        ("small-pair-swap", "small-pair", ("max", 0.9), {"enable_edge_swap_operation": "1", "sampling_period": "1.5e-6", "avg_growth_rate": "6e-11"}, 100),
    ]
    if tier == "thorough":
        out += [
            ("triplet-growing", "triplet", ("max", 1.002), {"avg_growth_rate": "6e-11", "sampling_period": "4e-6"}, 110),
            ("triplet-merge", "triplet", ("min", 1.04), {"sampling_period": "3e-6"}, 100),
            ("small-big", "small-big", ("min", 1.02), {"sampling_period": "2e-6", "contact_cutoff_adhesion": "7e-7"}, 120),
            ("far-pair", "far-pair", ("max", 0.95), {"sampling_period": "2e-6"}, 100),
            # cell 0 throws in `refine_mesh` (iteration 0) while cell 1 is still refined: the model must report the same exception
            ("flat-exception-pair", "flat-pair", ("min0", 3.0), {"enable_edge_swap_operation": "1"}, 20),
            ("random-band", r.choice(["pair-overlapping", "pair-unequal", "small-pair"]), (r.choice(["max", "min"]), r.uniform(0.92, 1.08)),
             {"enable_edge_swap_operation": r.choice(["0", "1"]), "bending_modulus": r.choice(["0", "1e-18"]), "sampling_period": "1.5e-6",
              "avg_growth_rate": r.choice(["2e-11", "1e-10", "-3e-11"])}, 100),
        ]
    return out


def meshes_of(cells, shift=(0.0, 0.0, 0.0)):
    out = []
    for c in cells:
        P, T = SC.icosphere(c[0], c[1], (c[2][0] + shift[0], c[2][1] + shift[1], c[2][2] + shift[2]), c[3], c[4])
        out.append((P, T))
    return out


def lmin_of(rule, cells):
    lo, hi = math.inf, 0.0
    if rule[0] == "min0":                     # relative to the shortest edge of the FIRST cell
        rule, cells = ("min", rule[1]), cells[:1]
    for (P, T) in meshes_of(cells):
        a, b = CRM.edge_stats(P, T)
        lo, hi = min(lo, a), max(hi, b)
    which, f = rule
    return (f * hi / 3.0) if which == "max" else (f * lo)


def write_case(wd, cells, lmin, ov, shift=(0.0, 0.0, 0.0)):
    mesh = os.path.join(wd, "t.vtk")
    SC.write_vtk(mesh, [(P, T, 0) for (P, T) in meshes_of(cells, shift)])
    first = dict({"perform_initial_triangulation": "0", "enable_edge_swap_operation": "0"}, **(ov or {}))
    return SC.make_params(wd, mesh, repr(lmin), first, dict(SC.DETERMINISTIC))


# ---------------------------------------------------------------- snapshots of `h_solver … tslots` / `drv_c14 tissuer`
def parse_tslots(out):
    snaps, exc, cur = [], None, None
    for line in out.splitlines():
        w = line.split()
        if not w:
            continue
        if w[0] == "S":
            cur = {"iter": int(w[1]), "time": w[2], "ncells": int(w[3]), "J": None, "cells": []}
            snaps.append(cur)
        elif w[0] == "J" and cur is not None:
            cur["J"] = int(w[1])
        elif w[0] == "C" and cur is not None:
            cur["cells"].append({"C": w[1:], "R": None, "B": None})
        elif w[0] == "R" and cur is not None and cur["cells"]:
            cur["cells"][-1]["R"] = w[1:]
        elif w[0] == "B" and cur is not None and cur["cells"]:
            cur["cells"][-1]["B"] = w[1:]
        elif w[0] == "X":
            exc = " ".join(w[1:])
    return snaps, exc


def request_line(num, consts_of_type, sampling, swap, snap, n, every):
    w = ["tissuer", str(n), str(every), str(len(snap["cells"])), "1" if swap else "0"]
    w += [vlib.fhex(num[k]) for k in CT.NUM_ORDER] + [vlib.fhex(sampling)]
    w += [str(snap["iter"]), str(snap["J"]), snap["time"]]
    for cell in snap["cells"]:
        C = cell["C"]          # id local type nn nf area vol tvol p
        c, fts = consts_of_type[int(C[2])]
        w += [C[2], str(len(fts))]
        w += [vlib.fhex(c[k]) for k in CT.CELL_ORDER]
        for t in fts:
            w += [vlib.fhex(x) for x in t]
        w += [C[5], C[6], C[7], C[8]]
        w += cell["R"] + ["|"] + cell["B"]
    return " ".join(w)


O_FIELDS = ("ok", "live", "mesh", "splits", "merges", "rebased", "swaps", "coupled", "near")


def parse_model(lines):
    snaps, exc = parse_tslots("\n".join(l for l in lines if not l.startswith(("O ", "H "))))
    dom, hyp = {}, {}
    for l in lines:
        w = l.split()
        if l.startswith("O "):
            dom[int(w[1])] = {"ok": w[2] == "1", "live": w[3] == "1", "mesh": w[4] == "1", "splits": int(w[5]), "merges": int(w[6]),
                              "rebased": w[7] == "1", "swaps": int(w[8]), "coupled": int(w[9]), "near": int(w[10])}
        elif l.startswith("H "):
            hyp[w[1]] = w[2] == "1"
    return snaps, dom, hyp, exc


def compare_B(xs, ys, what, it, dis):
    """the node-attribute line: 12 tokens per slot"""
    ncmp, worst = 0, 0
    names = ["force x", "force y", "force z", "normal x", "normal y", "normal z", "curvature", "coupled cell", "coupled node", "closest squared distance"]
    if len(xs) != len(ys):
        dis.append({"iteration": it, "field": "%s: number of attribute tokens" % what, "real": len(xs), "model": len(ys)})
    for k, (x, y) in enumerate(zip(xs, ys)):
        if HEX.match(x) and HEX.match(y):
            ncmp += 1
            if x != y:
                u = CP.ulps_apart(x, y)
                worst = max(worst, u)
                if u > MAX_ULPS and len(dis) < 12:
                    dis.append({"iteration": it, "field": "%s, node slot %d, %s" % (what, k // 10, names[k % 10]), "real": x, "model": y,
                                "real_value": vlib.unhex(x), "model_value": vlib.unhex(y), "ulps": u})
        elif x != y:
            if len(dis) < 12:
                dis.append({"iteration": it, "field": "%s, node slot %d, %s" % (what, k // 10, names[k % 10]),
                            "real": " ".join(xs[k - k % 10:k - k % 10 + 10][7:9]), "model": " ".join(ys[k - k % 10:k - k % 10 + 10][7:9])})
    return ncmp, worst


def used_flags(R):
    nn = int(R[1])
    return [R[2 + 8 * i + 1] == "1" for i in range(nn)]


def count_state(cell):
    """(coupled used nodes, used nodes, used faces, lateral faces, released node slots, released face slots) of a dumped cell"""
    R, B = cell["R"], cell["B"]
    used = used_flags(R)
    coupled = sum(1 for i, u in enumerate(used) if u and B[10 * i + 7] != "-")
    kf = R.index("F")
    nf = int(R[kf + 1])
    j = kf + 2
    nused, lateral = 0, 0
    for _ in range(nf):
        if R[j + 1] == "0":
            j += 2
        else:
            nused += 1
            lateral += 1 if R[j + 5] == "1" else 0
            j += 10
    return coupled, sum(used), nused, lateral, len(used) - sum(used), nf - nused


# ---------------------------------------------------------------- (1) model against the real solver
def correspond(name, cells, lmin, ov, iters, seed, stats, V, every=1):
    args = {"scenario": name, "cells": [[c[0], c[1], list(c[2]), list(c[3]), c[4]] for c in cells], "lmin": lmin, "overrides": ov, "iterations": iters,
            "seed": seed, "part": "correspondence", "stage": "tissueR"}
    with SC.Workdir() as wd:
        params = write_case(wd, cells, lmin, ov)
        xml = open(params).read()
        exe, _ = SC.build("asan")
        rr = SC.run(exe, params, iters, 1, every, mode="tslots", timeout=2400)
    what, key = SC.classify(rr["rc"], rr["err"])
    if what:
        V.fail_input("%s [tissue with remeshing, scenario %s]" % (what, name), args, key=key)
        return None
    real, rexc = parse_tslots(rr["out"])
    if not real or real[0]["ncells"] < 2 or any(c["R"] is None or c["B"] is None for c in real[0]["cells"]):
        V.fail_tie("correspondence", "tissue with remeshing, scenario %s: no tissue snapshot in mode `tslots` (%s)" % (name, rr["out"][-200:]))
        return None
    num, c, fts = CT.read_tissue_consts(xml, 0)
    sampling = float(re.search(r"<sampling_period>([^<]*)<", xml).group(1))
    swap = re.search(r"<enable_edge_swap_operation>([^<]*)<", xml).group(1).strip() not in ("0", "false")
    req = request_line(num, {0: (c, fts)}, sampling, swap, real[0], iters, every)
    t1 = time.time()
    lines, rc, err = vlib.run_lines(vlib.driver_path(DRIVER), [req], timeout=3000)
    mwall = time.time() - t1
    if rc != 0 or not lines or lines[-1] != "END":
        V.fail_tie("correspondence", "tissue with remeshing, scenario %s: model driver answered %r (rc %s) %s" % (name, lines[-1:] if lines else None, rc, err[-200:]))
        return None
    model, dom, hyp, mexc = parse_model(lines)
    dis, ncmp, worst = [], 0, 0
    if not hyp.get("setup"):
        dis.append({"iteration": real[0]["iter"], "field": "hypothesis TissueSetup of tissueIterationR_translate evaluated by the driver", "real": "expected to hold", "model": hyp})
    nc0 = real[0]["ncells"]
    upto, left = 0, None
    for k, sr in enumerate(real):
        if sr["ncells"] != nc0 or any((int(cl["C"][0]), int(cl["C"][1])) != (i, i) for i, cl in enumerate(sr["cells"])):
            left = "cell count / ids changed (division or removal)"
            break
        if k >= len(model):
            dis.append({"iteration": sr["iter"], "field": "snapshot missing in the model answer (model exception: %s)" % mexc})
            break
        sm = model[k]
        if sr["iter"] != sm["iter"] or sr["J"] != sm["J"] or sm["ncells"] != sr["ncells"]:
            dis.append({"iteration": sr["iter"], "field": "iteration counter / file number / cell count", "real": [sr["iter"], sr["J"], sr["ncells"]], "model": [sm["iter"], sm["J"], sm["ncells"]]})
            break
        n0, w0 = CRM.compare_tokens([sr["time"]], [sm["time"]], "time", sr["iter"], dis)
        ncmp += n0
        worst = max(worst, w0)
        for ci, (cr, cm) in enumerate(zip(sr["cells"], sm["cells"])):
            n1, w1 = CRM.compare_tokens(cr["C"][2:], cm["C"][2:], "cell %d: type, slot counts, area, volume, target volume, pressure" % ci, sr["iter"], dis)
            n2, w2 = CRM.compare_tokens(cr["R"], cm["R"], "cell %d: bookkeeping state" % ci, sr["iter"], dis)
            n3, w3 = compare_B(cr["B"], cm["B"], "cell %d: node attributes" % ci, sr["iter"], dis)
            ncmp += n1 + n2 + n3
            worst = max(worst, w1, w2, w3)
        upto = k
        if dis:
            break
    if (rexc or None) != (mexc or None) and left is None and not dis:
        dis.append({"iteration": real[-1]["iter"], "field": "exception that ends the run", "real": rexc, "model": mexc})
    its = [real[k]["iter"] for k in range(upto)]
    bad = [i for i in its if i in dom and not dom[i]["ok"]]
    notlive = [i for i in its if i in dom and not dom[i]["live"]]
    sp = sum(dom[i]["splits"] for i in its if i in dom)
    mg = sum(dom[i]["merges"] for i in its if i in dom)
    rb = sum(1 for i in its if i in dom and dom[i]["rebased"])
    sw = sum(dom[i]["swaps"] for i in its if i in dom)
    opit = sum(1 for i in its if i in dom and (dom[i]["splits"] or dom[i]["merges"] or dom[i]["swaps"]))
    coupit = sum(1 for i in its if i in dom and dom[i]["coupled"] > 0)
    both = sum(1 for i in its if i in dom and (dom[i]["splits"] or dom[i]["merges"] or dom[i]["swaps"]) and dom[i]["coupled"] > 0)
    maxcoup = max([dom[i]["coupled"] for i in its if i in dom] or [0])
    if left is not None and upto < len(real) - 1 and dom.get(real[upto]["iter"], {}).get("ok", False) and not dis:
        dis.append({"iteration": real[upto]["iter"], "field": "model says stepOkTR although the real run left the domain (%s)" % left, "real": left, "model": "stepOkTR true"})
    if bad and not dis:
        dis.append({"iteration": bad[0], "field": "model says the state is outside its domain (stepOkTR = false) although the real solver executes the iteration identically",
                    "real": "in domain", "model": json.dumps(dom[bad[0]])})
    for d in dis[:4]:
        V.fail_tie("correspondence", "assembled tissue iteration with remeshing differs from the real solver: %s" % json.dumps(dict(args, **d), default=str)[:800])
    if notlive and not dis:
        V.fail_tie("correspondence", "tissue with remeshing, scenario %s: the hypothesis refineLive / replayOk is FALSE on an executed pass (iterations %s)" % (name, notlive[:5]), detail=args)
    # the state the real solver ends in
    last = real[upto]
    cs = [count_state(cl) for cl in last["cells"]]
    real_coupled_iters = sum(1 for s in real[:upto + 1] if any(count_state(cl)[0] > 0 for cl in s["cells"]))
    real_released_iters = sum(1 for s in real[:upto + 1] if any(count_state(cl)[4] > 0 for cl in s["cells"]))
    # iterations whose CONTACT phase ran on a mesh with released node slots and produced couplings (seen on the real dumps)
    real_both = sum(1 for s in real[1:upto + 1] if any(count_state(cl)[4] > 0 for cl in s["cells"]) and any(count_state(cl)[0] > 0 for cl in s["cells"]))
    for key, val in (("doubles_compared", ncmp), ("iterations_compared", upto), ("splits", sp), ("merges", mg), ("rebases", rb), ("swaps", sw),
                     ("iterations_with_operations", opit), ("iterations_with_couplings", coupit), ("iterations_with_operations_and_couplings", both),
                     ("iterations_with_released_slots_and_couplings", real_both), ("out_of_domain_iterations", len(bad))):
        stats[key] += val
    stats["worst_ulps"] = max(stats["worst_ulps"], worst)
    stats["bit_identical"] = stats["bit_identical"] and worst == 0 and not dis
    stats["scenarios"].append({"name": name, "lmin": lmin, "cells": nc0, "node_slots_start": [int(cl["C"][3]) for cl in real[0]["cells"]],
                               "node_slots_end": [int(cl["C"][3]) for cl in last["cells"]], "released_node_slots_end": [x[4] for x in cs],
                               "released_face_slots_end": [x[5] for x in cs], "coupled_nodes_end": [x[0] for x in cs], "lateral_faces_end": [x[3] for x in cs],
                               "iterations_run": iters, "iterations_compared": upto, "splits": sp, "collapses": mg, "swaps": sw, "rebases": rb,
                               "max_coupled_nodes": maxcoup, "iterations_with_operations": opit, "iterations_with_couplings": coupit,
                               "iterations_with_operations_and_couplings": both, "real_iterations_with_couplings": real_coupled_iters,
                               "real_iterations_with_released_slots": real_released_iters, "real_iterations_with_released_slots_and_couplings": real_both,
                               "stepOk_false": bad[:5], "refineLive_false": notlive[:5], "real_exception": rexc, "left": left, "doubles": ncmp,
                               "worst_ulps": worst, "real_wall": round(rr["wall"], 2), "model_wall": round(mwall, 2)})
    return {"splits": sp, "merges": mg, "coupled": maxcoup, "both": both}


# ---------------------------------------------------------------- (2) oracle: two real runs that differ by a translation
def tol_rel(ratio, iters):
    eps = 2.2e-16
    return 1e-8 + iters * 20 * eps * (ratio + 10)       # the policy of c14.py


def coupling_margin(cells_R, cutoff):
    """relative distance of the squared distance of the closest inter-cell node pairs to the adhesion cut-off² (a coupling decision
    that flips by rounding is not a violation); cheap bound: all pairs of used nodes of different cells within 2 cut-offs"""
    pos = [[p for (u, p, _m) in CRM.node_positions(R) if u] for R in cells_R]
    best = math.inf
    c2 = cutoff * cutoff
    for i in range(len(pos)):
        for j in range(i + 1, len(pos)):
            for p in pos[i]:
                for q in pos[j]:
                    dx = p[0] - q[0]
                    if abs(dx) > 2 * cutoff:
                        continue
                    d2 = dx * dx + (p[1] - q[1]) ** 2 + (p[2] - q[2]) ** 2
                    best = min(best, abs(d2 - c2) / c2)
    return best


def split_book(R):
    """(bookkeeping tokens without the face types, face types): used flags, node ids, edge index, free queues are decided by the refiner
    (thresholds on edge lengths / triangle scores), the face types by the polarisation, i.e. by the couplings"""
    book, types = [], []
    k = 0
    sec = ""
    n = len(R)
    while k < n:
        x = R[k]
        if x in ("N", "F", "E", "FN", "FF"):
            sec = x
        if sec == "F" and x == ";" and k + 1 < n and R[k + 1] == "1":
            # ; 1 n1 n2 n3 type nx ny nz area
            book += R[k:k + 5]
            types.append(R[k + 5])
            k += 10
            continue
        if not HEX.match(x):
            book.append(x)
        k += 1
    return book, types


def oracle(name, cells, lmin, ov, iters, t, ratio, seed, stats, V):
    args = {"scenario": name, "cells": [[c[0], c[1], list(c[2]), list(c[3]), c[4]] for c in cells], "lmin": lmin, "overrides": ov, "iterations": iters,
            "translation": list(t), "offset_over_size": ratio, "seed": seed, "part": "oracle", "stage": "tissueR"}
    runs = []
    for shift in ((0.0, 0.0, 0.0), t):
        with SC.Workdir() as wd:
            params = write_case(wd, cells, lmin, ov, shift=shift)
            exe, _ = SC.build("asan")
            rr = SC.run(exe, params, iters, 1, 1, mode="tslots", timeout=2400)
        what, key = SC.classify(rr["rc"], rr["err"])
        if what:
            V.fail_input("%s [tissue with remeshing %s, shift %r]" % (what, name, list(shift)), args, key=key)
            return
        runs.append(parse_tslots(rr["out"]))
    (ref, xa), (tr, xb) = runs
    stats["oracle_runs"] += 2
    tol = tol_rel(ratio, iters) * SIZE
    swap = str((ov or {}).get("enable_edge_swap_operation", "0")) not in ("0", "false")
    cut = float((ov or {}).get("contact_cutoff_adhesion", "5e-7"))
    worst = 0.0
    nops = 0
    for k, (sa, sb) in enumerate(zip(ref, tr)):
        if sa["ncells"] != sb["ncells"]:
            V.fail_input("iteration %d: cell count %d vs %d in the translated run" % (sa["iter"], sa["ncells"], sb["ncells"]), args)
            return
        if k > 0 and any(split_book(a["R"])[0] != split_book(b["R"])[0] for a, b in zip(ref[k - 1]["cells"], sa["cells"])):
            nops += 1
        for ci, (ca, cb) in enumerate(zip(sa["cells"], sb["cells"])):
            Ra, Rb = ca["R"], cb["R"]
            (booka, typesa), (bookb, typesb) = split_book(Ra), split_book(Rb)
            if booka != bookb or sa["J"] != sb["J"]:
                prev = ref[k - 1]["cells"][ci]["R"] if k > 0 else Ra
                margin = CRM.threshold_margin(prev, lmin, swap)
                if k == 0 or margin > 1e3 * tol_rel(ratio, iters):
                    V.fail_input("iteration %d, cell %d: the bookkeeping state (used slots / triangles / edge index / free queues) of the run translated by %.3g cell sizes "
                                 "differs from the reference run although no edge length / triangle score was within %.2g (relative) of a threshold" % (sa["iter"], ci, ratio, margin), args)
                else:
                    stats["oracle_threshold_flips"] += 1
                return
            qa = [x for i, x in enumerate(ca["B"]) if i % 10 in (7, 8)]
            qb = [x for i, x in enumerate(cb["B"]) if i % 10 in (7, 8)]
            if qa != qb or typesa != typesb:
                prevs = [c_["R"] for c_ in (ref[k - 1]["cells"] if k > 0 else sa["cells"])]
                cm = coupling_margin(prevs, cut)
                if sa["iter"] > STRICT_ITERS or ratio >= 30.0 or cm < 1e3 * tol_rel(ratio, iters):
                    stats["oracle_late_divergences"] += 1
                    return
                V.fail_input("iteration %d, cell %d: node couplings / face types differ between the reference run and the run translated by %.3g cell sizes (closest pair %.2g away from the cut-off, relative)"
                             % (sa["iter"], ci, ratio, cm), args)
                return
            for (ua, pa, ma), (ub, pb, mb) in zip(CRM.node_positions(Ra), CRM.node_positions(Rb)):
                if not ua:
                    if pb != pa:
                        V.fail_input("iteration %d, cell %d: a released node slot holds %r in the translated run and %r in the reference" % (sa["iter"], ci, pb, pa), args)
                        return
                    continue
                for j in range(3):
                    d = abs(pb[j] - t[j] - pa[j])
                    worst = max(worst, d)
                    if d > tol:
                        V.fail_input("iteration %d, cell %d: a node of the translated run is off by %.3g cell sizes (allowed %.3g) from the translate of the reference "
                                     "(%d remeshing passes with operations so far)" % (sa["iter"], ci, d / SIZE, tol / SIZE, nops), args)
                        return
                    sc = max(abs(ma[j]), abs(mb[j]), 1e-22)
                    if abs(ma[j] - mb[j]) > (1e-6 + 1e5 * tol_rel(ratio, iters)) * max(sc, 1e-18):
                        if sa["iter"] > STRICT_ITERS or ratio >= 30.0:
                            stats["oracle_late_divergences"] += 1
                            return
                        V.fail_input("iteration %d, cell %d: momentum %r vs %r in the translated run" % (sa["iter"], ci, mb[j], ma[j]), args)
                        return
            for key, nm in ((5, "area"), (6, "volume"), (7, "target volume")):
                x, y = vlib.unhex(ca["C"][key]), vlib.unhex(cb["C"][key])
                if not (abs(x - y) <= (1e-9 + 1e3 * tol_rel(ratio, iters)) * max(abs(x), abs(y), 1e-300)):
                    V.fail_input("iteration %d, cell %d: %s %r vs %r in the translated run" % (sa["iter"], ci, nm, x, y), args)
                    return
    else:
        if (xa or None) != (xb or None) or len(ref) != len(tr):
            V.fail_input("the run translated by %.3g cell sizes ends after %d iterations with %r, the reference run after %d iterations with %r"
                         % (ratio, len(tr) - 1, xb, len(ref) - 1, xa), args)
            return
    stats["oracle_passes_with_operations"] += nops
    stats["oracle_worst_deviation_over_size"][str(ratio)] = max(stats["oracle_worst_deviation_over_size"].get(str(ratio), 0.0), worst / SIZE)


# ---------------------------------------------------------------- entry points
def prove_tissueR():
    return vlib.prove(PROOF_PID, THEOREMS_TISSUER, NAMESPACE, extra_targets=(DRIVER,))


def new_stats():
    return {"scenarios": [], "doubles_compared": 0, "iterations_compared": 0, "worst_ulps": 0, "bit_identical": True, "splits": 0, "merges": 0, "swaps": 0,
            "rebases": 0, "iterations_with_operations": 0, "iterations_with_couplings": 0, "iterations_with_operations_and_couplings": 0,
            "iterations_with_released_slots_and_couplings": 0, "out_of_domain_iterations": 0, "oracle_runs": 0, "oracle_threshold_flips": 0,
            "oracle_late_divergences": 0, "oracle_passes_with_operations": 0, "oracle_worst_deviation_over_size": {}}


def run_tissueR(V, tier, seed, stats):
    t0 = time.time()
    stats.update(new_stats())
    drv = vlib.driver_path(DRIVER)
    if not os.path.exists(drv):
        ok, log, _ = vlib.lake_build([DRIVER])
        if not ok or not os.path.exists(drv):
            V.fail_tie("correspondence", "assembled tissue iteration with remeshing: model driver %s does not build: %s" % (DRIVER, log[-400:]))
            return stats
    r = vlib.Rng(seed).fork("c14-tissue-remesh")
    cases = []
    for (name, kind, rule, ov, iters) in scenario_list(r, tier):
        cells = make_cells(r, kind)
        lmin = lmin_of(rule, cells)
        cases.append((name, cells, lmin, ov, iters))
        correspond(name, cells, lmin, ov, iters, seed, stats, V)
    if stats["splits"] == 0 or stats["merges"] == 0 or stats["iterations_with_couplings"] == 0 or stats["iterations_with_released_slots_and_couplings"] == 0:
        V.fail_tie("correspondence", "assembled tissue iteration with remeshing: the scenario set executed %d splits, %d collapses, %d iterations with couplings, "
                   "%d iterations with couplings on meshes with released slots — the stage tests nothing" % (
                       stats["splits"], stats["merges"], stats["iterations_with_couplings"], stats["iterations_with_released_slots_and_couplings"]))
    # oracle on the real code
    ro = vlib.Rng(seed).fork("c14-tissue-remesh-oracle")
    ratios = (1e-2, 1.0, 30.0, 1e3)
    picks = [cases[2], cases[3]] if tier != "thorough" else [cases[0], cases[1], cases[2], cases[3], cases[4]]
    for i, (name, cells, lmin, ov, iters) in enumerate(picks):
        rs = ratios if tier == "thorough" else (ratios[(2 * i) % 4], ratios[(2 * i + 1) % 4])
        for ratio in rs:
            d = [ro.normal() for _ in range(3)]
            n = math.sqrt(sum(x * x for x in d))
            t = [x / n * ratio * SIZE for x in d]
            oracle(name, cells, lmin, ov, 30 if tier != "thorough" else 60, t, ratio, seed, stats, V)
    stats["wall"] = round(time.time() - t0, 1)
    return stats


def new_node_couplings(seed=1, names=("growing-adhering", "split-at-start")):
    """observation 1 of notes/C14_tissueR.md on the REAL solver: node slots taken by `add_node` between two dumps (no rebase in between) that carry a
    coupling at the end of the iteration that created them — they went through the contact phase with normal_ = 0, curvature_ = 0"""
    r = vlib.Rng(seed).fork("c14-tissue-remesh")
    out = []
    for (name, kind, rule, ov, iters) in scenario_list(r, "quick"):
        cells = make_cells(r, kind)
        lmin = lmin_of(rule, cells)
        if name not in names:
            continue
        with SC.Workdir() as wd:
            params = write_case(wd, cells, lmin, ov)
            exe, _ = SC.build("asan")
            rr = SC.run(exe, params, iters, 1, 1, mode="tslots", timeout=2400)
        real, _exc = parse_tslots(rr["out"])
        created = coupled = 0
        for k in range(1, len(real)):
            if real[k]["J"] != real[k - 1]["J"]:
                continue
            for ca, cb in zip(real[k - 1]["cells"], real[k]["cells"]):
                ua, ub = used_flags(ca["R"]), used_flags(cb["R"])
                for i, u in enumerate(ub):
                    if u and (i >= len(ua) or not ua[i]):
                        created += 1
                        coupled += 1 if cb["B"][10 * i + 7] != "-" else 0
        out.append({"scenario": name, "nodes_created": created, "coupled_in_the_iteration_that_created_them": coupled})
    return out


def replay(ctx):
    rp = ctx["replay"]
    inp = {}
    if isinstance(rp, dict):
        inp = (rp.get("failing_input") or {}).get("input") or rp.get("input") or rp
    print(json.dumps(rp, indent=1, default=str)[:3000])
    if not isinstance(inp, dict) or "cells" not in inp or "lmin" not in inp:
        print("re-run: VERIF_SEED=<seed of the replay> python3 tools/check.py C14")
        return 1
    cells = [(c[0], c[1], tuple(c[2]), tuple(c[3]), c[4]) for c in inp["cells"]]
    V = vlib.Verdict("C14")
    stats = new_stats()
    if inp.get("part") == "oracle":
        oracle(inp.get("scenario", "replay"), cells, inp["lmin"], inp.get("overrides") or {}, inp["iterations"], inp["translation"], inp["offset_over_size"],
               inp.get("seed", 0), stats, V)
    else:
        correspond(inp.get("scenario", "replay"), cells, inp["lmin"], inp.get("overrides") or {}, inp["iterations"], inp.get("seed", 0), stats, V)
    for f in V.concrete + V.broken:
        print("FAIL", json.dumps(f, default=str)[:800])
    return 1 if (V.concrete or V.broken) else 0


if __name__ == "__main__":
    import sys
    if len(sys.argv) > 1 and sys.argv[1] == "newnodes":
        print(json.dumps(new_node_couplings(vlib.seed()), indent=1))
        sys.exit(0)
    V = vlib.Verdict("C14")
    st = {}
    run_tissueR(V, sys.argv[1] if len(sys.argv) > 1 else "quick", vlib.seed(), st)
    print(json.dumps(st, indent=1, default=str))
    print("FAILURES", json.dumps(V.concrete + V.broken, indent=1, default=str)[:4000])
