"""C14 — simulation results do not depend on where the tissue is placed in space.
Theorems: Properties/C14.lean (generic: a pipeline of translation-equivariant stages, iterated any number of times, is
equivariant and every invariant observable agrees; stage facts about the regenerated kernel, forces, integrator blocks,
remeshing tests, volume/area/normals).  Run-time tie and search: two real solver runs that differ by a translation of the
input tissue, compared node by node."""
import os, sys, time, json, math
import vlib
import scenarios as SC
import c14_pipeline as CP
import c14_tissue as CT
import c14_remesh as CRM
import c14_tissue_remesh as CTR
import c14_population as CPOP
import c14_dividecell as CDC

THEOREMS_DIVISION_INVARIANTS = ["divideCellM_cellOk", "refineDaughter_invariants", "daughterLive_of_invariants", "divisionRoundD_invariants", "tissueIterationD2_invariants",
                                "tissueRunD2_invariants", "stepOkTD_of_invariants", "stepOkTD2_of_invariants", "runOkTD2_of_invariants", "tissueRunD2_translate_of_invariants",
                                "tetQ_daughtersOk"]
THEOREMS_TISSUE_INVARIANTS = ["tissueIterationR_invariants", "physStage_invariants", "meshStageT_invariants", "refineLiveT_of_invariants", "cellMeshOk_of_invariants",
                              "stepOkTR_of_invariants", "runOkTR_of_invariants", "tissueRunR_invariants", "tissueRunR_translate_of_invariants",
                              "tissueIterationR_translate_of_invariants", "pairR_allOk", "pairR_quiet"]
THEOREMS_INVARIANTS = ["rebase_preserves", "refineLive_of_invariants", "refineMesh_translate_of_invariants", "meshOk_of_invariants", "cellMeshOk_mesh_parts",
                       "replayOk_of_invariants", "refineLiveR_of_invariants", "cellIterationR_invariants", "stepOkR_of_invariants", "runOkR_of_invariants",
                       "cellRunR_invariants", "cellRunR_translate_of_invariants"]

PID = "C14"
NAMESPACE = "Simu.C14"
THEOREMS = ["comp_equivariant", "pipeline_equivariant", "iterate_equivariant", "run_translate", "observable_same",
            "kernel_translate", "forces_translate", "node00_translate", "node01_translate", "single10_translate",
            "single11_translate", "pair10_translate", "pair11_translate", "edge_length_translate", "new_node_translate",
            "volume_translate", "area_translate", "normal_translate"]
GEN = ["Kernel", "Integrator", "RemeshConsts", "Forces", "Geometry", "CellCycle", "NodeNormals", "BroadPhase", "ContactRule", "Schedule", "Population", "Division"]
SIZE = 1e-5
STRICT_ITERS = 80     # connectivity must be identical up to this iteration; later flips of threshold decisions are rounding chaos


def make_tissue(wd, r, kind, t):
    cells = []
    if kind == "single":
        cells.append(SC.icosphere(2, 5e-6, (t[0], t[1], t[2]), (1.0, 0.85, 1.2), 0.1) + (0,))
    elif kind == "separated":
        for i in range(3):
            cells.append(SC.icosphere(2, 5e-6, (i * 4.1e-5 + t[0], t[1], t[2]), (1.0, 0.9, 1.15), 0.1) + (0,))
    elif kind == "adhering":
        for i in range(3):
            cells.append(SC.icosphere(2, 5e-6, (i * 1.02e-5 + t[0], (i % 2) * 2e-6 + t[1], t[2]), (1.0, 0.9, 1.1), 0.05) + (0,))
    elif kind == "overlapping-mixed":
        # an epithelial cell overlapping a lumen, and a nucleus inside a second epithelial cell
        cells.append(SC.icosphere(2, 5e-6, (t[0], t[1], t[2]), (1.0, 1.0, 1.0), 0.05) + (0,))
        cells.append(SC.icosphere(2, 4.5e-6, (8.0e-6 + t[0], t[1], 1e-6 + t[2]), (1.0, 1.0, 1.0), 0.0) + (2,))
        cells.append(SC.icosphere(2, 6e-6, (3.0e-5 + t[0], t[1], t[2]), (1.0, 1.0, 1.0), 0.0) + (0,))
        cells.append(SC.icosphere(1, 2e-6, (3.0e-5 + t[0], 0.5e-6 + t[1], t[2]), (1.0, 1.0, 1.0), 0.0) + (3,))
    m = os.path.join(wd, "t.vtk")
    SC.write_vtk(m, cells)
    return m


KEY_AXIS_SIGN = "C14:division-depends-on-the-sign-of-the-eigenvector"


def box_mesh(nx, ny, nz, h, c):
    """surface of a box of nx x ny x nz elements of size h centred at c, every boundary quad split in two outward triangles"""
    ids, P, T = {}, [], []

    def nid(i, j, k):
        if (i, j, k) not in ids:
            ids[(i, j, k)] = len(P)
            P.append((c[0] + (i - nx / 2) * h, c[1] + (j - ny / 2) * h, c[2] + (k - nz / 2) * h))
        return ids[(i, j, k)]

    def quad(a, b, cq, d):
        T.append((a, b, cq)); T.append((a, cq, d))
    for i in range(nx):
        for j in range(ny):
            quad(nid(i, j, 0), nid(i, j + 1, 0), nid(i + 1, j + 1, 0), nid(i + 1, j, 0))
            quad(nid(i, j, nz), nid(i + 1, j, nz), nid(i + 1, j + 1, nz), nid(i, j + 1, nz))
    for i in range(nx):
        for k in range(nz):
            quad(nid(i, 0, k), nid(i + 1, 0, k), nid(i + 1, 0, k + 1), nid(i, 0, k + 1))
            quad(nid(i, ny, k), nid(i, ny, k + 1), nid(i + 1, ny, k + 1), nid(i + 1, ny, k))
    for j in range(ny):
        for k in range(nz):
            quad(nid(0, j, k), nid(0, j, k + 1), nid(0, j + 1, k + 1), nid(0, j + 1, k))
            quad(nid(nx, j, k), nid(nx, j + 1, k), nid(nx, j + 1, k + 1), nid(nx, j, k + 1))
    return P, T


def axis_aligned_division(V, exe, stats):
    """a columnar cell standing EXACTLY along z (its longest axis is +-z up to the sign the eigen-solver happens to return) that is above its
    division volume at the start: it must divide in iteration 0 wherever it is placed"""
    vol = 4e-6 * 5e-6 * 9e-6
    counts = {}
    for t in [(0.0, 0.0, 0.0), (1.3e-5, 2.1e-5, 3.7e-5), (2e-6, 1e-6, 1.2e-6), (0.0, 0.0, 1e-5), (1e-6, -2e-6, 2e-6)]:
        with SC.Workdir() as wd:
            P, T = box_mesh(4, 5, 9, 1e-6, t)
            m = os.path.join(wd, "box.vtk")
            SC.write_vtk(m, [(P, T, 0)])
            params = SC.make_params(wd, m, "7.5e-7", {"perform_initial_triangulation": "0", "avg_division_volume": repr(0.7 * vol),
                                                      "std_division_volume": "0", "std_growth_rate": "0"}, {})
            res = SC.run(exe, params, 1, 1, 1)
            what, key = SC.classify(res["rc"], res["err"])
            if what:
                V.fail_input("%s [columnar cell along z at %r]" % (what, t), {"part": "axis-aligned-division", "placement": t}, key=key)
                return
            snaps = SC.parse_states(res["out"])
            counts[t] = snaps[-1]["ncells"] if snaps else None
    stats["axis_aligned_division_cell_counts"] = {repr(k): v for k, v in counts.items()}
    if len(set(counts.values())) > 1:
        V.fail_input("a 4 x 5 x 9 um columnar cell standing along z, above its division volume, divides in iteration 0 or not depending on where it is placed: "
                     "cells after one iteration %s" % ", ".join("%r -> %s" % (k, v) for k, v in counts.items()),
                     {"part": "axis-aligned-division", "placements": [list(k) for k in counts], "cells_after_one_iteration": list(counts.values())}, key=KEY_AXIS_SIGN)


def division_oracle(V, exe, r, tier, stats):
    """translation invariance ACROSS A DIVISION: the interface triangulation is sampled from the clock, so daughters are not
    comparable node by node; what must agree between a run and its translate are the quantities that do not depend on that
    sampling: number of cells, the two daughter volumes and their centres (minus t).  The mother's mesh is finer than l_min, so the
    refinement changes its area in the iterations around the division (a plane placed with a stale, origin-scaled weight shows)."""
    st = stats.setdefault("division_oracle", {"pairs": 0, "divided_in_both": 0, "retries": 0, "worst_volume_rel": 0.0, "worst_centre_over_size": 0.0})
    npairs = 2 if tier == "quick" else 8
    for k in range(npairs):
        ratio = [25.0, 1e3, 200.0, 3.0][k % 4]
        d = [r.normal() for _ in range(3)]
        n = math.sqrt(sum(x * x for x in d))
        t = [x / n * ratio * SIZE for x in d]
        radius = 5e-6 * r.uniform(0.9, 1.1)
        stretch = (1.0, r.uniform(0.75, 0.9), r.uniform(1.15, 1.35))
        vol = 4.0 / 3.0 * math.pi * radius ** 3 * stretch[0] * stretch[1] * stretch[2]
        ov = {"perform_initial_triangulation": "0", "avg_division_volume": repr(0.7 * vol), "std_division_volume": "0", "std_growth_rate": "0"}
        obs = {}
        for attempt in range(4):
            for tag, tt in (("ref", (0.0, 0.0, 0.0)), ("tr", t)):
                with SC.Workdir() as wd:
                    cells = [SC.icosphere(3, radius, (tt[0], tt[1], tt[2]), stretch, 0.1) + (0,)]
                    m = os.path.join(wd, "d.vtk")
                    SC.write_vtk(m, cells)
                    params = SC.make_params(wd, m, "7.5e-7", ov, {})
                    res = SC.run(exe, params, 8, 1, 8)
                    what, key = SC.classify(res["rc"], res["err"])
                    if what:
                        V.fail_input("%s [division scenario, offset %g sizes]" % (what, ratio if tag == "tr" else 0.0),
                                     {"part": "division-oracle", "pair": k, "offset_over_size": ratio, "radius": radius, "stretch": stretch}, key=key)
                        return
                    snaps = SC.parse_states(res["out"])
                    last = snaps[-1] if snaps else None
                    cellsL = []
                    for c in (last["cells"] if last else []):
                        P = [vlib.unhex(x) for x in c["P"] if x != "-"]
                        nn = len(P) // 3
                        ctr = [sum(P[3 * i + q] for i in range(nn)) / nn - tt[q] for q in range(3)]
                        cellsL.append((vlib.unhex(c["vol"]), ctr))
                    obs[tag] = sorted(cellsL, key=lambda x: x[1][2])       # order along z (the long axis)
            if len(obs["ref"]) == 2 and len(obs["tr"]) == 2:
                break
            st["retries"] += 1      # the random interface triangulation can make a division fail on its own: play the pair again
        st["pairs"] += 1
        inp = {"part": "division-oracle", "pair": k, "offset_over_size": ratio, "translation": t, "radius": radius, "stretch": stretch}
        if len(obs["ref"]) != len(obs["tr"]):
            if len(obs["ref"]) == 2 or len(obs["tr"]) == 2:
                V.fail_input("two runs that differ by a translation of %g cell sizes end with different numbers of cells after the division iteration (4 attempts): %d vs %d"
                             % (ratio, len(obs["ref"]), len(obs["tr"])), inp)
            continue
        if len(obs["ref"]) != 2:
            continue
        st["divided_in_both"] += 1
        for (va, ca), (vb, cb) in zip(obs["ref"], obs["tr"]):
            dv = abs(va - vb) / max(va, vb)
            dc = math.sqrt(sum((ca[q] - cb[q]) ** 2 for q in range(3))) / (2 * radius)
            st["worst_volume_rel"] = max(st["worst_volume_rel"], dv)
            st["worst_centre_over_size"] = max(st["worst_centre_over_size"], dc)
            if dv > 0.03 or dc > 0.05:       # measured noise of the sampled interface on the unchanged tree: volume <= 0.8 %, centre <= 1.5 % of the size
                V.fail_input("after a division the daughters of a run and of its translate by %g cell sizes differ beyond the noise of the sampled interface: "
                             "volume %.4g vs %.4g (%.1f %%), centre displaced by %.3g cell sizes" % (ratio, va, vb, 100 * dv, dc), inp)
                break


def translations(r):
    out = []
    for ratio in (1e-2, 1.0, 30.0, 1e3):
        d = [r.normal() for _ in range(3)]
        n = math.sqrt(sum(x * x for x in d))
        out.append(([x / n * ratio * SIZE for x in d], ratio))
    # straddle the origin: the tissue sits around 0 in the reference; move it by a fraction of its size in -x
    out.append(([-0.37 * SIZE, 0.21 * SIZE, -0.11 * SIZE], 0.44))
    # far away (1 m for cells of 10 um): possible since the volume determinants are centred on a node of the cell
    # (measured deviation 6e-16 * r sizes after 80 iterations, r up to 1e6)
    d = [r.normal() for _ in range(3)]
    n = math.sqrt(sum(x * x for x in d))
    out.append(([x / n * 1e5 * SIZE for x in d], 1e5))
    return out


def tol_rel(ratio, iters):
    """allowed deviation of a node position relative to the cell size: rounding of (p+t) and of the differences, amplified
    by the number of iterations.  (Until fixes/C12-centred-volume.diff there was a third term 5*eps*r^3 per iteration for the
    cancellation of the un-centred volume determinants far from the origin: measured then 4.8e-8 sizes at r = 1e3 after 40-80
    iterations, now 6e-13; 1e-12 -> 1.7e-14 at r = 30.)"""
    eps = 2.2e-16
    # base: the tissue itself sits up to ~10 sizes from the origin, so even r = 0 has rounding of that order, amplified by
    # the stiff contact / pressure terms over the iterations (measured: 4e-10 sizes after 300 iterations)
    return 1e-8 + iters * 20 * eps * (ratio + 10)


def compare(ref, tr, t, ratio, iters):
    """ref, tr: parsed snapshots; returns failure text or None"""
    if len(ref) != len(tr):
        return "number of snapshots differs (%d vs %d)" % (len(ref), len(tr))
    tol = tol_rel(ratio, iters) * SIZE
    worst = 0.0
    for sa, sb in zip(ref, tr):
        if sa["iter"] != sb["iter"] or sa["ncells"] != sb["ncells"]:
            return "iteration %d: cell count %d vs %d" % (sa["iter"], sa["ncells"], sb["ncells"])
        for ca, cb in zip(sa["cells"], sb["cells"]):
            if (ca["id"], ca["type"]) != (cb["id"], cb["type"]):
                return "iteration %d: cell identity differs" % sa["iter"]
            if ca["T"] != cb["T"]:
                if sa["iter"] > STRICT_ITERS:
                    # a discrete remeshing / coupling decision flipped late in the run although the previous snapshot agreed to
                    # rounding: finite-precision chaos, counted but not reported (exact arithmetic: run_translate)
                    return ("rounding-divergence", worst)
                return "iteration %d, cell %d: mesh connectivity differs between the reference and the translated run" % (sa["iter"], ca["id"])
            for key, nm in (("vol", "volume"), ("p", "pressure"), ("tvol", "target volume")):
                x, y = vlib.unhex(ca[key]), vlib.unhex(cb[key])
                if not (abs(x - y) <= (1e-9 + 1e3 * tol_rel(ratio, iters)) * max(abs(x), abs(y), 1e-300)):
                    if not (nm == "pressure" and abs(x - y) <= 1e-6 * 2.5e3):
                        return "iteration %d, cell %d: %s %r vs %r" % (sa["iter"], ca["id"], nm, x, y)
            pa, pb = ca["P"], cb["P"]
            if len(pa) != len(pb):
                return "iteration %d, cell %d: number of node slots differs" % (sa["iter"], ca["id"])
            for k, (x, y) in enumerate(zip(pa, pb)):
                if (x == "-") != (y == "-"):
                    return "iteration %d, cell %d: node slot %d used in one run only" % (sa["iter"], ca["id"], k // 3)
                if x != "-":
                    d = abs(vlib.unhex(y) - t[k % 3] - vlib.unhex(x))
                    worst = max(worst, d)
                    if d > tol:
                        return "iteration %d, cell %d, node %d: translated run is off by %.3g (= %.3g cell sizes; allowed %.3g) from the translate of the reference" % (
                            sa["iter"], ca["id"], k // 3, d, d / SIZE, tol / SIZE)
    return (None, worst)


def run(ctx):
    tier, seed = ctx["tier"], ctx["seed"]
    t0 = time.time()
    V = vlib.Verdict(PID)
    gen = vlib.translate.run(GEN)
    proof = vlib.prove(PID, THEOREMS, NAMESPACE)
    for f in proof["failures"]:
        V.fail_tie("proof", "%s: %s" % (f["theorem"], f["reason"]), errors=proof["errors"][:5])
    if tier == "thorough" and proof["ok"]:
        ok, log = vlib.leanchecker("SimuVerif.Properties.C14")
        if not ok:
            V.fail_tie("proof", "leanchecker rejected SimuVerif.Properties.C14", log=log)
    # the assembled single-free-cell iteration: theorems (Properties/C14Pipeline.lean) + bit-exact correspondence with the real solver
    proofP = CP.prove_pipeline()
    for f in proofP["failures"]:
        V.fail_tie("proof", "%s: %s" % (f["theorem"], f["reason"]), errors=proofP["errors"][:5])
    pipe = CP.run_pipeline(ctx)
    for f in pipe["failures"][:3]:
        if isinstance(f, dict) and f.get("input") is not None:
            V.fail_input(f.get("what", str(f)), f.get("input"))
        else:
            V.fail_tie("correspondence", "assembled iteration: %s" % (f.get("what", f) if isinstance(f, dict) else f))
    for d in pipe["disagreements"][:3]:
        V.fail_tie("correspondence", "assembled single-cell iteration differs from the real solver: %s" % (json.dumps(d)[:400]))
    # the assembled iteration of a TISSUE of interacting cells: theorems (Properties/C14Tissue.lean) + bit-exact correspondence
    proofT = CT.prove_tissue()
    for f in proofT["failures"]:
        V.fail_tie("proof", "%s: %s" % (f["theorem"], f["reason"]), errors=proofT["errors"][:5])
    if tier == "thorough" and proofT["ok"]:
        ok, log = vlib.leanchecker("SimuVerif.Properties.C14Tissue")
        if not ok:
            V.fail_tie("proof", "leanchecker rejected SimuVerif.Properties.C14Tissue", log=log)
    tissue = {}
    CT.run_tissue(V, "thorough" if (tier == "thorough" or not proofT["ok"]) else "quick", seed, tissue)   # widens when a proof broke
    # the assembled iteration of a single free cell THROUGH remeshing (refine_mesh + the rebase of save_mesh): Properties/C14Remesh.lean
    proofR = CRM.prove_remesh()
    for f in proofR["failures"]:
        V.fail_tie("proof", "%s: %s" % (f["theorem"], f["reason"]), errors=proofR["errors"][:5])
    if tier == "thorough" and proofR["ok"]:
        ok, log = vlib.leanchecker("SimuVerif.Properties.C14Remesh")
        if not ok:
            V.fail_tie("proof", "leanchecker rejected SimuVerif.Properties.C14Remesh", log=log)
    remesh = {}
    CRM.run_remesh(V, "thorough" if (tier == "thorough" or not proofR["ok"]) else "quick", seed, remesh)      # widens when a proof broke
    # tissues of interacting cells THROUGH remeshing: Model/TissueR.lean, Properties/C14TissueR.lean
    proofTR = CTR.prove_tissueR()
    for f in proofTR["failures"]:
        V.fail_tie("proof", "%s: %s" % (f["theorem"], f["reason"]), errors=proofTR["errors"][:5])
    if tier == "thorough" and proofTR["ok"]:
        ok, log = vlib.leanchecker("SimuVerif.Properties.C14TissueR")
        if not ok:
            V.fail_tie("proof", "leanchecker rejected SimuVerif.Properties.C14TissueR", log=log)
    tissueR = {}
    CTR.run_tissueR(V, "thorough" if (tier == "thorough" or not proofTR["ok"]) else "quick", seed, tissueR)      # widens when a proof broke
    # the run-time hypotheses of the remeshing models as INVARIANTS of a valid start cell (C01's CellOk): Properties/C14Invariants.lean
    proofI = vlib.prove("C14Invariants", THEOREMS_INVARIANTS, NAMESPACE)
    for f in proofI["failures"]:
        V.fail_tie("proof", "%s: %s" % (f["theorem"], f["reason"]), errors=proofI["errors"][:5])
    # population events inside the assembled tissue model: REMOVAL (Model/TissueP.lean) and the division round of cell_divider::run with the
    # daughters of divide_cell as recorded inputs (Model/TissueD.lean)
    proofPop = CPOP.prove_population()
    proofDiv = CPOP.prove_division()
    for pr in (proofPop, proofDiv):
        for f in pr["failures"]:
            V.fail_tie("proof", "%s: %s" % (f["theorem"], f["reason"]), errors=pr["errors"][:5])
    if tier == "thorough" and proofPop["ok"] and proofDiv["ok"]:
        for mod in ("SimuVerif.Properties.C14Population", "SimuVerif.Properties.C14Division"):
            ok, log = vlib.leanchecker(mod)
            if not ok:
                V.fail_tie("proof", "leanchecker rejected %s" % mod, log=log)
    population, division = {}, {}
    CPOP.run_population(V, "thorough" if (tier == "thorough" or not proofPop["ok"]) else "quick", seed, population)
    CPOP.run_division(V, "thorough" if (tier == "thorough" or not proofDiv["ok"]) else "quick", seed, division)
    # the WHOLE divide_cell composed from C09's stage models inside the division round (Model/TissueD2.lean): inputs per call are only the axis the
    # eigen-solver returned and the sampled interface triangulation D
    proofDC = CDC.prove_dividecell()
    for f in proofDC["failures"]:
        V.fail_tie("proof", "%s: %s" % (f["theorem"], f["reason"]), errors=proofDC["errors"][:5])
    if tier == "thorough" and proofDC["ok"]:
        ok, log = vlib.leanchecker("SimuVerif.Properties.C14DivideCell")
        if not ok:
            V.fail_tie("proof", "leanchecker rejected SimuVerif.Properties.C14DivideCell", log=log)
    dividecell = {}
    CDC.run_dividecell(V, "thorough" if (tier == "thorough" or not proofDC["ok"]) else "quick", seed, dividecell)
    proofDI = vlib.prove("C14DivisionInvariants", THEOREMS_DIVISION_INVARIANTS, NAMESPACE)
    for f in proofDI["failures"]:
        V.fail_tie("proof", "%s: %s" % (f["theorem"], f["reason"]), errors=proofDI["errors"][:5])
    proofTI = vlib.prove("C14TissueInvariants", THEOREMS_TISSUE_INVARIANTS, NAMESPACE)
    for f in proofTI["failures"]:
        V.fail_tie("proof", "%s: %s" % (f["theorem"], f["reason"]), errors=proofTI["errors"][:5])
    r = vlib.Rng(seed)
    exe, rebuilt = SC.build("asan")
    divstats = {}
    division_oracle(V, exe, vlib.Rng(seed).fork("c14/division"), tier, divstats)
    axis_aligned_division(V, exe, divstats)
    wide = tier == "thorough" or not (proof["ok"] and proofP["ok"] and proofT["ok"] and proofR["ok"] and proofTR["ok"] and proofI["ok"] and proofTI["ok"] and proofPop["ok"] and proofDiv["ok"] and proofDC["ok"] and proofDI["ok"])
    kinds = ["single", "separated", "adhering", "overlapping-mixed"]
    evaluations = 0
    distinct = set()
    worst_by_ratio = {}
    late_divergences = []
    samples = []
    runs = []
    for kind in kinds:
        iters = (40 if kind != "single" else 80) if not wide else r.choice([80, 120, 160])
        swap = r.choice(["0", "1"])
        with SC.Workdir() as wd0:
            mesh = make_tissue(wd0, r, kind, (0.0, 0.0, 0.0))
            params = SC.make_params(wd0, mesh, "7.5e-7", {"perform_initial_triangulation": "0", "enable_edge_swap_operation": swap}, SC.DETERMINISTIC)
            ref_run = SC.run(exe, params, iters, 2, 20)
        evaluations += 1
        what, key = SC.classify(ref_run["rc"], ref_run["err"])
        if what:
            V.fail_input("%s [reference run, tissue %s]" % (what, kind), {"tissue": kind, "iterations": iters, "seed": seed}, key=key)
            continue
        ref = SC.parse_states(ref_run["out"])
        trs = translations(r)
        if not wide:
            trs = [trs[0], trs[2], trs[4], trs[5]] if kind in ("single", "adhering") else [trs[1], trs[3], trs[5]]
        for (t, ratio) in trs:
            with SC.Workdir() as wd:
                mesh = make_tissue(wd, r, kind, t)
                params = SC.make_params(wd, mesh, "7.5e-7", {"perform_initial_triangulation": "0", "enable_edge_swap_operation": swap}, SC.DETERMINISTIC)
                rr = SC.run(exe, params, iters, 2, 20)
            evaluations += 1
            distinct.add((kind, ratio, swap))
            args = {"tissue": kind, "translation": t, "offset_over_size": ratio, "iterations": iters, "swap": swap, "seed": seed}
            what, key = SC.classify(rr["rc"], rr["err"])
            if what:
                V.fail_input("%s [translated run]" % what, args, key=key)
                continue
            res = compare(ref, SC.parse_states(rr["out"]), t, ratio, iters)
            if isinstance(res, tuple):
                if res[0] == "rounding-divergence":
                    late_divergences.append({"tissue": kind, "offset_over_size": ratio, "iterations": iters})
                worst_by_ratio[str(ratio)] = max(worst_by_ratio.get(str(ratio), 0.0), res[1] / SIZE)
            else:
                V.fail_input(res, args)
            if len(samples) < 3:
                samples.append({"tissue": kind, "translation": t, "iterations": iters, "cells": ref[0]["ncells"] if ref else None})
    rcode, nviol = V.finish()
    cov = {
        "obligations": proof["obligations"] + proofP["obligations"] + proofT["obligations"] + proofR["obligations"] + proofTR["obligations"] + proofI["obligations"] + proofTI["obligations"] + proofPop["obligations"] + proofDiv["obligations"] + proofDC["obligations"] + proofDI["obligations"],
        "discharged": proof["discharged"] + proofP["discharged"] + proofT["discharged"] + proofR["discharged"] + proofTR["discharged"] + proofI["discharged"] + proofTI["discharged"] + proofPop["discharged"] + proofDiv["discharged"] + proofDC["discharged"] + proofDI["discharged"],
        "checker_cmd": "lake build SimuVerif.Properties.C14 SimuVerif.Audit.C14 (+ leanchecker in the thorough tier)",
        "trusted_base": vlib.TRUSTED_COMMON + [
            "the stages are assembled into one executable model of solver::run_iteration for a single free cell AND for tissues of interacting epithelial cells (contact search on the re-anchored grid, coupling pass, polarisation, node normals, forces, integrator), bit-identical to the real solver (1 thread) while no cell divides / is removed and all edges stay in the refinement band; tissueRun_translate / tissueRun_observables / domain_translate proved for all such tissues with closed meshes (hypotheses TissueSetup, Wf evaluated on every instance); outside that domain (remeshing, division, removal) only the stage theorems + the two-run oracle; the loops and bindings of Model/Tissue.lean are tied to the code by the differential run (single-thread search order), its arithmetic is Gen.*",
            "the single free cell is also modelled THROUGH remeshing: refine_mesh (splits, collapses, swaps) and the rebase of save_mesh are steps of the assembled model (Model/PipelineR.lean on C01's Remesh.Cell), bit-identical to the real solver incl. slot numbering, edge index and free queues; refineMesh_translate / cellRunR_translate / cellRunR_observables / domainR_translate proved for every cell state on which the decidable hypotheses refineLive and meshOk hold — and both are INVARIANTS of a valid start cell (C01's CellOk: complete edge index, consistent free lists, closed simple non-degenerate vertex-manifold surface), preserved by every refinement pass, rebase and iteration (Properties/C14Invariants.lean: cellRunR_translate_of_invariants needs them on the initial cell only); refineLive (no released node slot is read: node::reset writes the absolute position (0,0,0) there; evaluated on every executed pass, never false) and meshOk hold; outside: division, removal, OpenMP order, rounding",
            "tissues of N interacting epithelial cells are modelled THROUGH remeshing as well (Model/TissueR.lean: per cell refine_mesh in the order / with the exception rule of parallel_exception_handler run by one thread, the rebase of save_mesh, cells kept as C01's Remesh.Cell so that contact search, coupling pass, polarisation, node normals, forces and integrator run on meshes WITH released node / face slots), bit-identical to the real solver incl. slot numbering, edge index, free queues and the node attributes of released slots; tissueIterationR_translate / tissueRunR_translate / tissueRunR_observables / domainTR_translate proved for every state on which the decidable domain predicate stepOkTR (refineLive + replayOk per cell, cellMeshOk of the refined cells, defined coupling pass, couplings on used slots, no division / removal; evaluated on every executed iteration, never false) and TissueSetup hold",
            "the REMOVAL of the cells below their minimum volume is a step of the assembled tissue model (Model/TissueP.lean: the remove_if predicate as regenerated from the lambda, on the volume stored by apply_internal_forces; erase and renumbering in the order extracted from solver.cpp; ids / local ids / max_cell_id_ carried; stale couplings of survivors kept as the code keeps them), bit-identical to the real solver over the iterations that follow; tissueIterationP_translate / tissueRunP_translate / tissueRunP_observables / domainTP_translate / population_after_removal / tissueRunP_invariants proved on the domain stepOkTP",
            "the division round of cell_divider::run AND the whole cell_divider::divide_cell are functions of the assembled model (Model/TissueD.lean, Model/TissueD2.lean: schedule, readiness, rebase, compute_centroid on the cached areas, C09's cut / divide_faces / coarse triangulation / map to the plane and back, create_daughter_cells with initialize_cell_properties incl. the flood fill of the orientation, refine_mesh of both daughters, halved targets, ids and list bookkeeping); inputs per call: the axis the eigen-solver returned and the interface triangulation D (2-D Poisson points + Delaunay triangles), recorded from the real run through a shadow evaluation of the real public stages under a harness-controlled clock; bit-identical incl. every double of the daughters as returned, over three generations; divideCellM_translate / tissueIterationD2_translate / tissueRunD2_translate proved on the decidable domain with no hypothesis about the daughters (tissueRunD_translate_partial of the recorded-daughters model is kept as the cheaper cross-check); outside: the eigen-solver and the sampler (inputs), OpenMP order, rounding",
            "rounding is run-time only: allowed deviation per node = size*(1e-8 + iters*20 eps (r+10)), r = offset/size <= 1e5 (linear in r: the coordinates carry the shape to r*eps; no cubic term since the volume determinants are centred on a node of the cell)"],
        "theorems": dict(list(proof["axioms"].items()) + list(proofP["axioms"].items()) + list(proofT["axioms"].items()) + list(proofR["axioms"].items()) + list(proofTR["axioms"].items()) + list(proofI["axioms"].items()) + list(proofTI["axioms"].items()) + list(proofPop["axioms"].items()) + list(proofDiv["axioms"].items()) + list(proofDC["axioms"].items()) + list(proofDI["axioms"].items())),
        "proof_failures": proof["failures"] + proofP["failures"] + proofT["failures"] + proofR["failures"] + proofTR["failures"] + proofI["failures"] + proofTI["failures"] + proofPop["failures"] + proofDiv["failures"] + proofDC["failures"] + proofDI["failures"],
        "assembled_tissue_iteration": tissue,
        "assembled_iteration_with_remeshing": remesh,
        "assembled_tissue_iteration_with_remeshing": tissueR,
        "assembled_tissue_iteration_with_removal": population,
        "assembled_tissue_iteration_with_division_round": division,
        "assembled_tissue_iteration_with_divide_cell": dividecell,
        "division_oracle": divstats.get("division_oracle"),
        "axis_aligned_division_cell_counts": divstats.get("axis_aligned_division_cell_counts"),
        "assembled_single_cell_iteration": pipe.get("stats"), "translator": {k: v.get("sha256", v.get("error")) for k, v in gen.items()},
        "evaluations": evaluations + tissue.get("oracle_runs", 0) + len(tissue.get("scenarios", [])) + remesh.get("oracle_runs", 0) + len(remesh.get("scenarios", [])) + tissueR.get("oracle_runs", 0) + len(tissueR.get("scenarios", [])), "distinct_nontrivial": len(distinct),
        "rule": "pairs of real solver runs (generated tissues: single cell, separated, adhering, overlapping cells of mixed types; 40-300 iterations, deterministic parameters) that differ by a translation of the input file (offset/size 1e-2 .. 1e3 and 1e5, random directions, one straddling the origin); distinct = distinct (tissue, offset ratio, swap flag)",
        "worst_deviation_over_size_by_ratio": worst_by_ratio, "late_connectivity_divergences_after_iteration_%d" % STRICT_ITERS: late_divergences, "repo_objects_rebuilt": rebuilt, "samples": samples,
    }
    vlib.write_evidence(PID, tier, "proof", cov, ["deterministic parameter sets; contact model 1, dynamic model 0 (default build)"], time.time() - t0, nviol)
    return rcode


def replay(ctx):
    inp = ((ctx["replay"] or {}).get("failing_input") or {}).get("input") or {}
    if isinstance(inp, dict) and inp.get("stage") == "dividecell":
        return CDC.replay(ctx)
    if isinstance(inp, dict) and inp.get("stage") in ("population", "division"):
        return CPOP.replay(ctx)
    if isinstance(inp, dict) and inp.get("stage") == "tissueR":
        return CTR.replay(ctx)
    if isinstance(inp, dict) and "lmin" in inp and inp.get("part") in ("oracle", "correspondence"):
        return CRM.replay(ctx)
    if isinstance(inp, dict) and inp.get("part") in ("oracle", "correspondence"):
        return CT.replay(ctx)
    print(json.dumps(ctx["replay"], indent=1)[:3000])
    print("re-run: VERIF_SEED=<seed of the replay> python3 tools/check.py C14")
    return 1
