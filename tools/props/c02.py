"""C02 — internal cell forces conserve momentum and derive from the stated energies.

Model      : Gen/Forces.lean (per-face / per-hinge arithmetic, translated from cell.cpp, vec3.cpp, utils.hpp on
             every run) + Model/Forces.lean (the loops: which node / face / parameter goes where, the edge set).
Theorems   : Properties/C02.lean (net force / torque zero per term and in total, F = P dV, F = -gamma dA,
             translation and rotation equivariance), for every closed surface, over any ordered field.
Tie        : harness/h_forces.cpp runs the REAL cell::apply_internal_forces and each protected term (friend
             cell_tester) on generated closed meshes; lean/Driver/C02.lean computes the same with the Float instance.
Oracle     : on the real code's forces: |sum F|, |sum x×F| per term and in total; exact (Fraction) finite
             differences of the volume, 60-digit central differences of the face areas; forces of a rotated and
             translated copy."""
import os, sys, time, json, math
from fractions import Fraction as Fr
from decimal import Decimal
import vlib
from vlib import Rng, fhex, unhex
import c02_util as U

PID = "C02"
NAMESPACE = "Simu.C02"
THEOREMS = [
    "pressure_net_force_zero", "pressure_net_torque_zero", "pressure_is_dV", "pressure_is_dV_computed",
    "computed_volume_decomposition", "vector_area_closed", "reference_point_is_first_node", "volume_is_abs", "volume_is_abs_closed",
    "volume_translate_exact",
    "tension_per_face_zero_force", "tension_per_face_zero_torque", "tension_net_force_zero", "tension_net_torque_zero",
    "tension_is_dA", "tension_node_force",
    "angle_net_force_zero", "angle_net_torque_zero", "angle_gradient_balanced",
    "bending_hinge_balanced", "bending_net_force_zero", "bending_net_torque_zero",
    "hinges_consistently_oriented", "closed_sides_paired",
    "internal_net_force_zero", "internal_net_torque_zero", "sum_node_forces", "slots_net_force_torque_zero", "slots_fresh",
    "orchestration_order",
    "forces_translation_equivariant", "forces_translation_equivariant_exact", "forces_rotation_equivariant", "node_force_rotation_equivariant",
    "rot_axis_x", "rot_axis_y", "rot_axis_z", "rot_comp", "rot_of_orthonormal_rows", "hinge_example",
]
GEN = ["Forces"]
HARNESS = os.path.join(vlib.VERIF, "harness", "h_forces.cpp")
REL_TOL = 1e-9          # |sum F| <= REL_TOL * sum |F|      (seen on the repaired tree: <= 3e-16)
GRAD_TOL = 1e-8         # force vs exact gradient, relative to the sum of the magnitudes of the face contributions
EQUIV_TOL = 1e-6        # forces of the moved copy vs moved forces, relative to max |F| of the term


# ---------------------------------------------------------------- generator
def gen_params(r, V, scale, nt):
    s2 = scale * scale
    ft = []
    for _ in range(nt):
        ft.append((r.choice([0.0, 1e-3 * r.uniform(0.2, 3.0), 5e-4]),
                   r.choice([0.0, 0.0, 2e-3 * s2 * r.uniform(0.2, 3.0)])))
    corner = r.randint(0, 7) == 0      # every face type tension-free, membrane elastic: gamma_eff = (k/A0)(A/A0 - 1) only
    if corner:
        ft = [(0.0, b) for (_, b) in ft]
    p = {
        "K": r.choice([0.0, 2500.0 * r.uniform(0.5, 2.0), 1.0]),
        "maxP": r.choice([float("inf"), float("inf"), 50.0 * r.uniform(0.1, 2.0)]),
        "aem": 1e-3 * r.uniform(0.2, 3.0) if corner else r.choice([0.0, 1e-3 * r.uniform(0.2, 3.0)]),
        "iso": r.uniform(50.0, 300.0),
        "angf": r.choice([0.0, 1e-3 * scale * r.uniform(0.2, 3.0)]),
        "minvol": r.choice([0.0, 0.0, V * r.uniform(0.5, 1.5)]),
        "growth": V * r.choice([0.0, 0.02, -0.02]),
        "tvol": V * r.uniform(0.7, 1.3),
        "dt": r.choice([1.0, 1e-3]),
    }
    return p, ft


def gen_case(r, tier, small=False):
    m = U.gen_mesh(r, tier, small)
    scale = 10.0 ** r.uniform(-6, 0)
    offk = r.choice([0.0, 0.0, 1.0, 30.0, 1000.0])
    off = [offk * scale * r.uniform(0.5, 1.5) * r.choice([1, -1]) for _ in range(3)]
    v = U.place(m["v"], scale, off)
    V = abs(U.signed_volume6(U.place(m["v"], scale, [0, 0, 0]), m["f"])) / 6.0
    nt = r.randint(1, 3)
    p, ft = gen_params(r, V, scale, nt)
    mode = r.randint(0, 3)
    if mode == 0:       # the two poles of the shape carry different face types
        zs = [sum(m["v"][i][2] for i in t) for t in m["f"]]
        med = sorted(zs)[len(zs) // 2]
        ftype = [(0 if z < med else nt - 1) for z in zs]
    else:
        ftype = [r.randint(0, nt - 1) for _ in m["f"]]
    return {"v": v, "f": m["f"], "ftype": ftype, "ft": ft, "p": p, "kind": m["kind"], "scale": scale, "offk": offk}


def corpus():
    """fixed first entries: the mesh of the known defect (bending, curved 1290-node cell) and two tiny solids"""
    out = []
    big = []
    path = os.path.join(vlib.REPO, "test/test_triangulation_modules/test_cell_divider/test_cell.vtk")
    if os.path.exists(path):
        vf = U.read_vtk_polyhedron(path)
        if vf:
            v, f = vf
            f = U.orient_outward(v, f)
            V = abs(U.signed_volume6(v, f)) / 6.0
            big.append({"v": v, "f": f, "ftype": [i % 2 for i in range(len(f))], "ft": [(1e-3, 2e-18), (5e-4, 1e-18)],
                        "p": {"K": 2500.0, "maxP": float("inf"), "aem": 1e-3 * 2.6e-10, "iso": 150.0, "angf": 1e-12, "minvol": 0.0,
                              "growth": V * 0.01, "tvol": V * 1.1, "dt": 1e-2}, "kind": "corpus:test_cell.vtk", "scale": 1e-5, "offk": 0})
    v, f = U.icosahedron()
    v = [[x * 1.5 + 10.0 for x in p] for p in v]
    f = U.orient_outward(v, f)
    out.append({"v": v, "f": f, "ftype": [i % 2 for i in range(len(f))], "ft": [(1e-3, 2e-3), (0.0, 1e-3)],
                "p": {"K": 100.0, "maxP": float("inf"), "aem": 1e-2, "iso": 120.0, "angf": 1e-3, "minvol": 0.0, "growth": 0.0,
                      "tvol": 40.0, "dt": 1.0}, "kind": "corpus:icosahedron@10", "scale": 1.0, "offk": 10})
    v, f = U.octahedron()
    v = [[p[0] * 3.0, p[1] * 2.0, p[2] * 1.0] for p in v]
    f = U.orient_outward(v, f)
    out.append({"v": v, "f": f, "ftype": [0] * len(f), "ft": [(1e-3, 1e-3)],
                "p": {"K": 10.0, "maxP": float("inf"), "aem": 0.0, "iso": 120.0, "angf": 0.0, "minvol": 0.0, "growth": 0.0,
                      "tvol": 10.0, "dt": 1.0}, "kind": "corpus:octahedron(3,2,1)", "scale": 1.0, "offk": 0})
    return out + big


# ---------------------------------------------------------------- oracle
def vnorm(p):
    return math.sqrt(p[0] * p[0] + p[1] * p[1] + p[2] * p[2])


def net(v, F):
    s = [0.0, 0.0, 0.0]
    t = [0.0, 0.0, 0.0]
    sa = 0.0
    ta = 0.0
    for x, p in zip(v, F):
        for i in range(3):
            s[i] += p[i]
        c = U.cross(x, p)
        for i in range(3):
            t[i] += c[i]
        n = vnorm(p)
        sa += n
        ta += n * vnorm(x)
    return vnorm(s), sa, vnorm(t), ta


def fans(f):
    d = {}
    for k, (a, b, c) in enumerate(f):
        d.setdefault(a, []).append((k, a, b, c))
        d.setdefault(b, []).append((k, b, c, a))
        d.setdefault(c, []).append((k, c, a, b))
    return d


def oracle_balance(case, ans):
    """zero net force and torque, per term and in total"""
    out = []
    for term in U.TERMS:
        F = ans["forces"][term]
        if any(math.isnan(z) or math.isinf(z) for p in F for z in p):
            out.append(("non-finite force in term '%s'" % term, {"term": term}))
            continue
        s, sa, t, ta = net(case["v"], F)
        if s > REL_TOL * sa:
            out.append(("net force of term '%s' is not zero" % term, {"term": term, "sumF_over_sum_absF": s / sa if sa else None,
                                                                     "sum_absF": sa}))
        if t > REL_TOL * ta:
            out.append(("net torque of term '%s' is not zero" % term, {"term": term, "sumT_over_sum_abs_xF": t / ta if ta else None}))
    return out


def oracle_sum_of_terms(case, ans):
    """what apply_internal_forces leaves in the nodes is the sum of the four terms (each run after the same
    prelude): catches a term applied with stale cell scalars, applied twice, or left out"""
    Fa = ans["forces"]["all"]
    parts = [ans["forces"][t] for t in ("pressure", "tension", "bending", "angle")]
    # scale: the largest node force of each term (a node force is itself a sum of face contributions that may cancel)
    mag = sum(max(max(abs(z) for z in q) for q in p) for p in parts if p)
    for i in range(len(Fa)):
        for k in range(3):
            s = sum(p[i][k] for p in parts)
            if not (abs(Fa[i][k] - s) <= 1e-9 * mag + 1e-300):
                return [("force left by apply_internal_forces differs from the sum of the four terms",
                         {"node": i, "axis": k, "all": Fa[i][k], "sum_of_terms": s, "P": ans["P"]})]
    return []


def cell_scalars(case):
    """area, volume, target volume, pressure, target area recomputed from their definitions (exact volume)"""
    v, f = case["v"], case["f"]
    VF = {}
    for t in f:
        for i in t:
            if i not in VF:
                VF[i] = U.fr3(v[i])
    v6 = Fr(0)
    mag = 0.0
    area = Decimal(0)
    # compute_volume takes the coordinates relative to get_volume_reference_point() = first node of the first used face:
    # the magnitude of the products it adds (hence its rounding error) is that of the CENTRED coordinates, at any distance
    # from the origin
    ref = v[f[0][0]]
    for t in f:
        a, b, c = t
        term = U.dot(VF[a], U.cross(VF[b], VF[c]))
        v6 += term
        pa, pb, pc = ([v[i][k] - ref[k] for k in range(3)] for i in (a, b, c))   # the six triple products compute_volume adds for this face
        mag += (abs(pc[0] * pb[1] * pa[2]) + abs(pb[0] * pc[1] * pa[2]) + abs(pc[0] * pa[1] * pb[2])
                + abs(pa[0] * pc[1] * pb[2]) + abs(pb[0] * pa[1] * pc[2]) + abs(pa[0] * pb[1] * pc[2]))
        area += U.area_exact(VF, t)
    p = case["p"]
    V = abs(float(v6)) / 6.0
    tv = p["tvol"] + p["dt"] * p["growth"]
    if tv < p["minvol"]:
        tv = p["minvol"]
    try:
        P = -p["K"] * math.log(V / tv)
    except (ValueError, ZeroDivisionError):
        P = float("nan")
    if P > p["maxP"]:
        P = p["maxP"]
    At = (p["iso"] * V * V) ** (1.0 / 3.0)
    return {"V": V, "Vtol": 1e-13 * mag / 6.0 + 1e-300, "A": float(area), "tvol": tv, "P": P, "At": At}


def oracle_scalars(case, ans, sc):
    """the scalars the cell holds after apply_internal_forces are what their definitions say (a force term that is
    skipped, or run with stale scalars, leaves them behind)"""
    out = []
    relV = sc["Vtol"] / sc["V"] if sc["V"] > 0 else 0.0
    checks = [("volume", ans["V"], sc["V"], sc["Vtol"] + 1e-14 * sc["V"]),
              ("area", ans["A"], sc["A"], 1e-12 * sc["A"]),
              ("target area cbrt(q0 V^2)", ans["At"], sc["At"], (1e-12 + relV) * sc["At"]),
              ("pressure -K ln(V/V0) capped", ans["P"], sc["P"], abs(case["p"]["K"]) * (relV + 1e-13) + 1e-12 * abs(sc["P"]))]
    for name, got, want, tol in checks:
        if math.isnan(want) and math.isnan(got):
            continue
        if not (abs(got - want) <= tol):
            out.append(("cell scalar '%s' after apply_internal_forces differs from its definition" % name,
                        {"scalar": name, "cell": got, "definition": want, "tolerance": tol}))
    return out


def oracle_dV(case, ans, r, nsamp):
    """pressure force on node i == P * dV/dx_i; V is affine in x_i so an exact finite difference is the derivative"""
    out = []
    v, f = case["v"], case["f"]
    P = ans["P"]
    Fp = ans["forces"]["pressure"]
    fan = fans(f)
    nodes = sorted(fan)          # the nodes that carry faces (node slots left unused by a merge carry none)
    r.shuffle(nodes)
    VF = {}

    def frv(i):
        if i not in VF:
            VF[i] = U.fr3(v[i])
        return VF[i]
    sign = 1 if U.signed_volume6(v, f) >= 0 else -1
    checked = 0
    for i in nodes[:nsamp]:
        # exact gradient of 6V with respect to x_i : sum over the fan of x_b × x_c
        g = [Fr(0), Fr(0), Fr(0)]
        mag = 0.0
        for (_, a, b, c) in fan.get(i, []):
            cr = U.cross(frv(b), frv(c))
            for k in range(3):
                g[k] += cr[k]
            n = U.cross(U.sub(frv(b), frv(a)), U.sub(frv(c), frv(a)))
            mag += math.sqrt(float(U.dot(n, n)))
        for k in range(3):
            want = P * sign * float(g[k]) / 6.0
            got = Fp[i][k]
            tol = GRAD_TOL * abs(P) * mag / 6.0
            checked += 1
            if abs(want - got) > tol:
                out.append(("pressure force differs from pressure times the volume gradient",
                            {"node": i, "axis": k, "force": got, "P_dV": want, "tolerance": tol}))
                return out, checked
    return out, checked


def oracle_dA(case, ans, r, nsamp, sc):
    """tension/elasticity force on node i == - sum over adjacent faces gamma_eff(face) * dA_face/dx_i
    (central differences of the exact areas, 60 significant digits)"""
    out = []
    v, f = case["v"], case["f"]
    A, At = sc["A"], sc["At"]       # from the definitions, not from the cell
    aem = case["p"]["aem"]
    # the cell's own volume carries the rounding error of compute_volume; through A0 = cbrt(q0 V^2) it moves gamma_eff
    relAt = (sc["Vtol"] / sc["V"] + 1e-14) if sc["V"] > 0 else 0.0
    dgam = abs(aem / At) * (2.0 * A / At + 1.0) * relAt if At != 0 else 0.0
    Ft = ans["forces"]["tension"]
    fan = fans(f)
    nodes = sorted(fan)
    r.shuffle(nodes)
    checked = 0
    for i in nodes[:nsamp]:
        xi = U.fr3(v[i])
        tris = fan.get(i, [])
        L = 0.0
        for (_, a, b, c) in tris:
            L = max(L, vnorm(U.sub(v[b], v[a])))
        if L == 0.0:
            continue
        h = Fr(L) / Fr(10 ** 15)
        for k in range(3):
            want = Decimal(0)
            mag = 0.0
            slack = 0.0
            for (fi, a, b, c) in tris:
                xb, xc = U.fr3(v[b]), U.fr3(v[c])
                area0 = U.area_exact({0: xi, 1: xb, 2: xc}, (0, 1, 2))
                if area0 == 0:
                    continue       # the code skips faces of zero area
                xp = list(xi); xp[k] = xp[k] + h
                xm = list(xi); xm[k] = xm[k] - h
                ap = U.area_exact({0: xp, 1: xb, 2: xc}, (0, 1, 2))
                am = U.area_exact({0: xm, 1: xb, 2: xc}, (0, 1, 2))
                dA = (ap - am) / (2 * U.todec(h))
                gam = case["ft"][case["ftype"][fi]][0] + (aem / At) * (A / At - 1.0) if At != 0 else float("nan")
                want += Decimal(gam) * dA * Decimal(-1)
                mag += abs(gam) * vnorm(U.sub(v[b], v[c])) * 0.5
                slack += dgam * vnorm(U.sub(v[b], v[c])) * 0.5
            got = Ft[i][k]
            tol = GRAD_TOL * mag + slack + 1e-300
            checked += 1
            if not (abs(float(want) - got) <= tol):
                out.append(("tension force differs from minus the effective tension times the area gradient",
                            {"node": i, "axis": k, "force": got, "minus_gamma_dA": float(want), "tolerance": tol}))
                return out, checked
    return out, checked


PYTH_QUATS = [(1, 2, 2, 4), (2, 3, 6, 0), (1, 4, 8, 0), (3, 4, 12, 0), (2, 4, 5, 6), (1, 1, 1, 1), (0, 3, 4, 0), (2, 1, 2, 0)]


def rational_rotation(r):
    a, b, c, d = r.choice(PYTH_QUATS)
    q = [a, b, c, d]
    r.shuffle(q)
    w, x, y, z = [Fr(t * r.choice([1, -1])) for t in q]
    n = w * w + x * x + y * y + z * z
    return [[(w * w + x * x - y * y - z * z) / n, 2 * (x * y - z * w) / n, 2 * (x * z + y * w) / n],
            [2 * (x * y + z * w) / n, (w * w - x * x + y * y - z * z) / n, 2 * (y * z - x * w) / n],
            [2 * (x * z - y * w) / n, 2 * (y * z + x * w) / n, (w * w - x * x - y * y + z * z) / n]]


def moved_copy(case, r):
    """rotate about the centre of the mesh by an exactly orthogonal rational matrix, then translate"""
    M = rational_rotation(r)
    v = case["v"]
    n = len(v)
    ctr = [Fr(sum(p[k] for p in v) / n) for k in range(3)]
    size = max(max(abs(p[k] - float(ctr[k])) for p in v) for k in range(3))
    t = [Fr(size * r.uniform(-3, 3)) for _ in range(3)]
    nv = []
    for p in v:
        q = [Fr(p[k]) - ctr[k] for k in range(3)]
        m = [M[i][0] * q[0] + M[i][1] * q[1] + M[i][2] * q[2] for i in range(3)]
        nv.append([float(m[k] + ctr[k] + t[k]) for k in range(3)])
    c2 = dict(case)
    c2["v"] = nv
    Mf = [[float(z) for z in row] for row in M]
    return c2, Mf


def oracle_equiv(case, ans, ans2, Mf):
    out = []
    # natural size of the angle term (|grad angle| ~ 1/edge): on regular meshes all angles are 60 degrees up to
    # rounding and the computed angle forces are rounding noise, which does not rotate
    v = case["v"]
    lmin = min(min(vnorm(U.sub(v[a], v[b])), vnorm(U.sub(v[b], v[c])), vnorm(U.sub(v[c], v[a]))) for (a, b, c) in case["f"])
    floor = abs(case["p"]["angf"]) / lmin if lmin > 0 else 0.0
    for term in U.TERMS:
        F, G = ans["forces"][term], ans2["forces"][term]
        mx = max(max(abs(z) for z in p) for p in F) if F else 0.0
        if term in ("angle", "all"):
            mx = max(mx, floor)
        worst = 0.0
        for p, q in zip(F, G):
            mp = U.matvec(Mf, p)
            worst = max(worst, max(abs(mp[k] - q[k]) for k in range(3)))
        if worst > EQUIV_TOL * mx + 1e-300:
            out.append(("forces of the rotated and translated cell are not the rotated forces (term '%s')" % term,
                        {"term": term, "max_difference": worst, "max_force": mx}))
    return out


# ---------------------------------------------------------------- run
def gen_refine_case(r, tier, fixed=None):
    """a closed mesh in which a few nodes have been pushed next to a neighbour, so that the real refine_mesh merges
    those edges (two face slots and one node slot become unused per merge); optionally l_max small enough for splits"""
    if fixed is None:
        while True:
            c = gen_case(r, "quick", small=False)
            if 60 <= len(c["f"]) <= (700 if tier == "quick" else 1400):
                break
    else:
        c = fixed
    v, f = [list(p) for p in c["v"]], c["f"]
    el = []
    for (a, b, cc) in f:
        for (i, j) in ((a, b), (b, cc), (cc, a)):
            if i < j:
                el.append((vnorm(U.sub(v[i], v[j])), i, j))
    lmin_e = min(e[0] for e in el)
    lmax_e = max(e[0] for e in el)
    l_min = 0.5 * lmin_e
    touched = set()
    nshort = r.randint(1, 4)
    r.shuffle(el)
    made = 0
    for (_, i, j) in el:
        if made >= nshort:
            break
        nb = set()
        for t in f:
            if i in t or j in t:
                nb.update(t)
        if nb & touched:
            continue
        touched |= nb
        d = [r.normal() for _ in range(3)]
        dn = vnorm(d)
        v[i] = [v[j][k] + 0.3 * l_min * d[k] / dn for k in range(3)]
        made += 1
    c = dict(c)
    c["v"] = v
    c["l_min"] = l_min
    c["l_max"] = r.choice([10.0 * lmax_e, 10.0 * lmax_e, 0.8 * lmax_e])
    c["swap"] = r.randint(0, 1)
    c["kind"] = "refined:" + c.get("kind", "?")
    c["offk"] = c.get("offk", 0)
    return c


def compare_answers(a, m):
    """model vs implementation -> None or a text"""
    bad = None
    for key in ("P", "V", "A", "At"):
        if not vlib.close(a[key], m[key], 64, 0.0):
            bad = "%s impl=%r model=%r" % (key, a[key], m[key])
    for t in U.TERMS:
        FA, FM = a["forces"][t], m["forces"][t]
        mx = max(max(abs(z) for z in p) for p in FA)
        for j, (p, q) in enumerate(zip(FA, FM)):
            if not all(vlib.close(x, y, 256, 1e-11 * mx) for x, y in zip(p, q)):
                bad = bad or "term %s node %d impl=%r model=%r" % (t, j, p, q)
                break
    return bad


def build():
    return vlib.build_repo.build_harness(HARNESS, "h_forces", link_repo=True)


def check_case(case, line, ans, r, nsamp, exe, do_equiv):
    """all oracle checks of one case -> list of (what, detail)"""
    res = list(oracle_balance(case, ans))
    res += oracle_sum_of_terms(case, ans)
    sc = cell_scalars(case)
    res += oracle_scalars(case, ans, sc)
    stats = {"dV": 0, "dA": 0, "equiv": 0}
    o, n = oracle_dV(case, ans, r.fork("dV"), nsamp)
    res += o; stats["dV"] = n
    o, n = oracle_dA(case, ans, r.fork("dA"), max(1, nsamp // 3), sc)
    res += o; stats["dA"] = n
    if do_equiv:
        c2, Mf = moved_copy(case, r.fork("mv"))
        out2, rc2, err2 = vlib.run_lines(exe, [U.line_of(c2)])
        a2 = U.parse_answer(out2[0], len(case["v"])) if out2 else None
        if a2 is None or not a2["unchanged"]:
            res.append(("harness gave no answer on the moved copy", {"rc": rc2, "stderr": err2[-300:]}))
        else:
            res += oracle_equiv(case, ans, a2, Mf)
            stats["equiv"] = 1
    return res, stats


def run(ctx):
    tier, seed = ctx["tier"], ctx["seed"]
    t0 = time.time()
    V = vlib.Verdict(PID)
    gen = vlib.translate.run(GEN)
    proof = vlib.prove(PID, THEOREMS, NAMESPACE, extra_targets=("drv_c02",))
    for f in proof["failures"]:
        V.fail_tie("proof", "%s: %s" % (f["theorem"], f["reason"]), errors=proof["errors"][:5])
    if tier == "thorough" and proof["ok"]:
        ok, log = vlib.leanchecker("SimuVerif.Properties.C02")
        if not ok:
            V.fail_tie("proof", "leanchecker rejected SimuVerif.Properties.C02", log=log)
    exe, rebuilt = build()
    n = 240 if tier == "quick" else 2400
    if not proof["ok"]:
        n = max(n, 400)       # a proof broke: widen the search for a concrete failing input
    r = Rng(seed)
    cases = corpus()
    ncorp = len(cases)
    for i in range(n):
        cases.append(gen_case(r, tier, small=(i % 8 == 0)))
    # small meshes first: the first failing input of each kind is the smallest
    order = list(range(ncorp)) + sorted(range(ncorp, len(cases)), key=lambda i: len(cases[i]["f"]))
    cases = [cases[i] for i in order]
    lines = [U.line_of(c) for c in cases]
    impl, rc, err = vlib.run_lines(exe, lines, timeout=1800)
    if rc != 0 or len(impl) != len(lines):
        V.fail_input("harness ended abnormally (rc=%s): %s" % (rc, err[-600:]), {"line": lines[min(len(impl), len(lines) - 1)]}, key=None)
    drv = vlib.driver_path("drv_c02")
    model = None
    if os.path.exists(drv):
        model, rc2, err2 = vlib.run_lines(drv, lines, timeout=1800)
        if rc2 != 0 or len(model) != len(lines):
            V.fail_tie("correspondence", "model driver ended abnormally (rc=%s) %s" % (rc2, err2[-300:]))
            model = None
    else:
        V.fail_tie("correspondence", "model driver missing (lake build failed)")
    nsamp = 10 if tier == "quick" else 16
    dist = {"kinds": {}, "faces": {"<=32": 0, "33-200": 0, "201-800": 0, ">800": 0}, "offset": {}, "bending_on": 0,
            "tension_on": 0, "pressure_on": 0, "angle_on": 0, "elasticity_on": 0, "pressure_capped": 0, "minvol_clamp": 0}
    bit_identical = 0
    disagreements = 0
    oracle_fail = 0
    checks = {"dV": 0, "dA": 0, "equiv": 0, "balance": 0}
    samples = []
    seen_what = set()
    for i, c in enumerate(cases):
        if i >= len(impl):
            break
        nn = len(c["v"])
        a = U.parse_answer(impl[i], nn)
        if a is None:
            V.fail_input("unparseable harness answer %r" % impl[i][:80], {"line": lines[i], "kind": c.get("kind")})
            continue
        if not a["unchanged"]:
            raise RuntimeError("generator produced a mesh the cell re-oriented (%s)" % c.get("kind"))
        nf = len(c["f"])
        kind = c.get("kind", "?").split("+")[0]
        dist["kinds"][kind] = dist["kinds"].get(kind, 0) + 1
        dist["faces"]["<=32" if nf <= 32 else "33-200" if nf <= 200 else "201-800" if nf <= 800 else ">800"] += 1
        dist["offset"][str(c.get("offk"))] = dist["offset"].get(str(c.get("offk")), 0) + 1
        used = set(c["ftype"])
        dist["bending_on"] += any(b != 0 for (_, b) in c["ft"])
        dist["tension_on"] += any(c["ft"][t][0] != 0 for t in used)
        dist["pressure_on"] += a["P"] != 0
        dist["angle_on"] += c["p"]["angf"] != 0
        dist["elasticity_on"] += c["p"]["aem"] != 0
        dist["tensionless_elastic"] = dist.get("tensionless_elastic", 0) + (all(t == 0 for (t, _) in c["ft"]) and c["p"]["aem"] != 0)
        dist["pressure_capped"] += a["P"] == c["p"]["maxP"]
        dist["minvol_clamp"] += c["p"]["minvol"] > c["p"]["tvol"] + c["p"]["dt"] * c["p"]["growth"]
        if i < 3:
            samples.append({"kind": c.get("kind"), "nodes": nn, "faces": nf, "P": a["P"], "V": a["V"], "A": a["A"],
                            "force_node0_all": a["forces"]["all"][0]})
        do_equiv = (tier == "thorough" and i % 2 == 0) or (tier == "quick" and (nf <= 400 or i < ncorp) and i % 2 == 0) or not proof["ok"]
        # (while compute_volume summed un-centred determinants the moved-copy comparison had to stay within 30 sizes of the
        # origin: the volume, hence the pressure, lost digits by cancellation — repaired by fixes/C12-centred-volume.diff)
        res, st = check_case(c, lines[i], a, r.fork("case%d" % i), nsamp, exe, do_equiv)
        checks["balance"] += 10
        for k in st:
            checks[k] += st[k]
        for what, detail in res:
            oracle_fail += 1
            if what not in seen_what:
                seen_what.add(what)
                V.fail_input(what, {"line": lines[i], "kind": c.get("kind"), "nodes": nn, "faces": nf, "detail": detail}, key=None)
        if model is not None:
            m = U.parse_answer(model[i], nn)
            if m is None:
                disagreements += 1
                if disagreements <= 3:
                    V.fail_tie("correspondence", "model gives no answer on case %d (%s): %r" % (i, c.get("kind"), model[i][:60]))
                continue
            if impl[i].split() == model[i].split():
                bit_identical += 1
            else:
                bad = None
                for key in ("P", "V", "A", "At"):
                    if not vlib.close(a[key], m[key], 64, 0.0):
                        bad = "%s impl=%r model=%r" % (key, a[key], m[key])
                for t in U.TERMS:
                    FA, FM = a["forces"][t], m["forces"][t]
                    mx = max(max(abs(z) for z in p) for p in FA)
                    for j, (p, q) in enumerate(zip(FA, FM)):
                        if not all(vlib.close(x, y, 256, 1e-11 * mx) for x, y in zip(p, q)):
                            bad = bad or "term %s node %d impl=%r model=%r" % (t, j, p, q)
                            break
                if bad:
                    disagreements += 1
                    if disagreements <= 3:
                        V.fail_tie("correspondence", "model and implementation differ (%s, %d faces): %s" % (c.get("kind"), nf, bad),
                                   line=lines[i] if nf <= 200 else "(large mesh, seed %d case %d)" % (seed, i))
    # ---- cells that went through the real refine_mesh since their last rebase (unused face / node slots)
    nref = 40 if tier == "quick" else 400
    if not proof["ok"]:
        nref = max(nref, 80)
    v0, f0 = U.icosahedron()
    v0, f0 = U.subdivide(U.normalize(v0), f0)
    v0 = U.normalize(v0)
    f0 = U.orient_outward(v0, f0)
    fixed = {"v": v0, "f": f0, "ftype": [i % 2 for i in range(len(f0))], "ft": [(1e-3, 1e-3), (5e-4, 0.0)],
             "p": {"K": 100.0, "maxP": float("inf"), "aem": 1e-2, "iso": 120.0, "angf": 1e-3, "minvol": 0.0, "growth": 0.0,
                   "tvol": 4.5, "dt": 1.0}, "kind": "corpus:icosphere80", "scale": 1.0, "offk": 0}
    rr = r.fork("refine")
    rcases = [gen_refine_case(rr, tier, fixed)] + [gen_refine_case(rr, tier) for _ in range(nref)]
    rcases = [rcases[0]] + sorted(rcases[1:], key=lambda c: len(c["f"]))
    rlines = [U.refine_line_of(c) for c in rcases]
    rimpl, rrc, rerr = vlib.run_lines(exe, rlines, timeout=1800)
    if rrc != 0 or len(rimpl) != len(rlines):
        V.fail_input("harness ended abnormally on a refined cell (rc=%s): %s" % (rrc, rerr[-600:]),
                     {"line": rlines[min(len(rimpl), len(rlines) - 1)]}, key=None)
    refs = [U.parse_refined(x) for x in rimpl]
    slines = [U.slots_line_of(c, ref) if ref else "slots 0 0 0 0" for c, ref in zip(rcases, refs)]
    rmodel = None
    if os.path.exists(drv):
        rmodel, rc3, err3 = vlib.run_lines(drv, slines, timeout=1800)
        if rc3 != 0 or len(rmodel) != len(slines):
            V.fail_tie("correspondence", "model driver ended abnormally on the refined cells (rc=%s) %s" % (rc3, err3[-300:]))
            rmodel = None
    refstat = {"cases": len(rcases), "rejected": 0, "with_unused_face_slots": 0, "unused_face_slots": 0, "unused_node_slots": 0,
               "faces_added_by_splits": 0, "model_bit_identical": 0}
    for i, (c, ref) in enumerate(zip(rcases, refs)):
        if ref is None:
            refstat["rejected"] += 1       # refine_mesh threw (mesh_integrity_exception): allowed, nothing to check
            continue
        unused = sum(1 for sl in ref["slots"] if not sl[0])
        refstat["with_unused_face_slots"] += unused > 0
        refstat["unused_face_slots"] += unused
        refstat["unused_node_slots"] += sum(1 for u in ref["used_nodes"] if not u)
        refstat["faces_added_by_splits"] += max(0, len(ref["slots"]) - len(c["f"]))
        lc = U.live_case(c, ref)
        inp = {"line": rlines[i], "kind": c.get("kind"), "nodes": len(ref["v"]), "faces": len(lc["f"]), "unused_face_slots": unused}
        prob = U.edge_set_problem(ref)
        if prob or not U.is_closed_oriented(lc["f"]):
            what = "refined cell is not a closed oriented surface with a matching edge set"
            if what not in seen_what:
                seen_what.add(what)
                V.fail_input(what, dict(inp, detail=prob), key=None)
            continue
        res, st = check_case(lc, rlines[i], ref, r.fork("ref%d" % i), nsamp, exe, False)
        checks["balance"] += 10
        for k in st:
            checks[k] += st[k]
        for what, detail in res:
            oracle_fail += 1
            what = what + " (cell with unused slots after refine_mesh)" if unused else what
            if what not in seen_what:
                seen_what.add(what)
                V.fail_input(what, dict(inp, detail=detail), key=None)
        if rmodel is not None:
            m = U.parse_answer(rmodel[i], len(ref["v"]))
            if m is None:
                disagreements += 1
                if disagreements <= 3:
                    V.fail_tie("correspondence", "model gives no answer on refined case %d (%s): %r" % (i, c.get("kind"), rmodel[i][:60]))
                continue
            bad = compare_answers(ref, m)
            if bad:
                disagreements += 1
                if disagreements <= 3:
                    V.fail_tie("correspondence", "model and implementation differ on a refined cell (%s, %d faces, %d unused slots): %s"
                               % (c.get("kind"), len(lc["f"]), unused, bad), line=rlines[i] if len(c["f"]) <= 200 else "(large mesh)")
            else:
                refstat["model_bit_identical"] += sum(len(ref["forces"][t]) for t in U.TERMS) == sum(len(m["forces"][t]) for t in U.TERMS) and \
                    all(ref["forces"][t] == m["forces"][t] for t in U.TERMS)
    dist["refined_cells"] = refstat
    rcode, nviol = V.finish()
    cov = {
        "obligations": proof["obligations"], "discharged": proof["discharged"],
        "checker_cmd": "lake build SimuVerif.Properties.C02 SimuVerif.Audit.C02 drv_c02 (+ lake env leanchecker in the thorough tier)",
        "trusted_base": vlib.TRUSTED_COMMON + [
            "Model/Forces.lean: the loops of apply_internal_forces (bindings of nodes/faces/parameters to the translated bodies, edge set with f1 = lower face index, std::set order) are hand-written and tied by the correspondence harness only",
            "identities assumed of the non-field functions, as hypotheses of the theorems, pointwise at the mesh: sqrt(y)^2 = y (face doubled areas, edge lengths); cot(angle(u,v)) * 2*area = u.v (i.e. cot(acos(u.v/|u||v|)) = u.v/|u x v|); cos(+-pi/2) = 0; sin(-pi/2) = -sin(pi/2); `==` is equality; isfinite is always true (rotation theorem only)",
            "almost_equal / isfinite / isnan enter as opaque Boolean functions (Float instance re-implements utils.hpp almost_equal)",
            "compute_volume returns |signed volume|: F = P dV is stated for the signed volume (outward orientation makes it positive)",
            "cells with unused slots: the stored edge set (which face is f1) is an input of the slot model (dumped by the harness); that it matches the used faces is checked at run time, not proved",
        ],
        "theorems": {k: v for k, v in proof["axioms"].items()},
        "proof_failures": proof["failures"],
        "translator": gen,
        "evaluations": len(cases) + len(rcases), "distinct_nontrivial": len(set(lines)) + len(set(rlines)),
        "rule": "seeded closed meshes: subdivided icosahedra / octahedra / tetrahedra and UV spheres (4..2600 faces), optionally ellipsoidal, dented (concave hinges), jittered, randomly rotated, scaled 1e-6..1, offset 0..1000 sizes; 1-3 face types with zero / non-zero tension and bending modulus; zero / non-zero bulk modulus, elasticity, angle factor; capped pressure; min-volume clamp; 1 case in 8 with every face type tension-free and a non-zero area elasticity; + corpus (test_cell.vtk of the known bending defect, icosahedron at 10, octahedron (3,2,1)); + cells with 1-4 edges shortened below l_min that went through the real local_mesh_refiner::refine_mesh (merges leave unused face/node slots; 1/3 also split; edge swaps on/off), forces of the refined cell vs the slot model; distinct = distinct request lines",
        "distribution": dist, "oracle_checks": checks, "oracle_failures": oracle_fail,
        "model_vs_impl_bit_identical": bit_identical, "model_vs_impl_disagreements": disagreements,
        "repo_objects_rebuilt": rebuilt, "samples": samples,
    }
    vlib.write_evidence(PID, tier, "proof", cov, [
        "meshes are closed, consistently oriented outward, with non-degenerate faces (what initialize_cell_properties accepts and leaves unchanged); NaN/Inf inputs are not generated",
        "run-time tolerances: |sum F| <= 1e-9 sum|F|, |sum x×F| <= 1e-9 sum|x||F|; gradients 1e-8 of the summed face magnitudes; moved copy 1e-6 of max|F|",
        "exact-arithmetic theorems; rounding is not modelled (observed |sum F|/sum|F| <= 1e-15 on the repaired tree)",
    ], time.time() - t0, nviol)
    return rcode


def replay(ctx):
    """re-run the stored failing input on the current implementation and re-apply the whole oracle"""
    rp = ctx["replay"]
    fi = rp.get("failing_input", {})
    inp = fi.get("input", {})
    line = inp.get("line")
    if not line:
        print("replay file names no input: %s" % json.dumps(rp.get("no_longer_checks", rp))[:2000])
        return 1
    exe, _ = build()
    refined = line.startswith("refine")
    out, rc, err = vlib.run_lines(exe, [line])
    if refined:
        case0 = U.case_of_refine_line(line)
        a = U.parse_refined(out[0]) if out else None
        case = U.live_case(case0, a) if a else case0
        if a:
            print("refine_mesh(l_min=%g, l_max=%g): %d face slots (%d unused), %d node slots (%d unused)" % (
                case0["l_min"], case0["l_max"], len(a["slots"]), sum(1 for s in a["slots"] if not s[0]),
                len(a["v"]), sum(1 for u in a["used_nodes"] if not u)))
    else:
        case = U.case_of_line(line)
        a = U.parse_answer(out[0], len(case["v"])) if out else None
    print("mesh: %s, %d nodes, %d faces; stored failure: %s" % (inp.get("kind"), len(case["v"]), len(case["f"]), fi.get("what")))
    if a is None:
        print("VIOLATION property=C02 replay=%s" % ctx.get("replay_path", "-"))
        print("no answer from the harness (rc=%s) %s" % (rc, err[-300:]))
        return 1
    for term in U.TERMS:
        s, sa, t, ta = net(case["v"], a["forces"][term])
        print("  %-9s sum|F|=%.3e  |sumF|/sum|F|=%.2e  |sumT|/sum|x||F|=%.2e" % (term, sa, s / sa if sa else 0.0, t / ta if ta else 0.0))
    res, _ = check_case(case, line, a, Rng(1), 16, exe, not refined)
    if res:
        print("VIOLATION property=C02 replay=%s" % ctx.get("replay_path", "-"))
        for what, detail in res[:6]:
            print(what, json.dumps(detail, default=str))
        return 1
    print("property holds on this input now")
    return 0
