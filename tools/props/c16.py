"""C16 — mesh files written by the simulator are read back as the same tissue.

Model: Model/Vtk.lean (`writeCells`, `read` on tokens, `assemble` = every check of the reader) and
Model/VtkText.lean (`readText`: the reader's regular expressions on characters), constants from the C++
through tools/gen/c16_vtk.py -> Gen/VtkConsts.lean.  Theorems: Properties/C16.lean.
Correspondence: the REAL mesh_writer::write output of generated populations, read by the REAL
mesh_reader, against (a) the model writer token by token, (b) the token-level model reader on the model
tokens and on the tokenised real file, (c) the character-level model reader on the real bytes.
Oracle (independent of the Lean model): order-preserving compaction + float('%.4e' % x) computed in
Python, and an audit of every declared count of the real file against its contents."""
import os, sys, time, json, math, re, struct
import vlib
from vlib import Rng, fhex, unhex

PID = "C16"
NAMESPACE = "Simu.C16"
THEOREMS = ["roundtrip", "read_fileToks", "counts_consistent", "renumbering_is_identity_when_compact", "rebase_compact",
            "rebase_idempotent", "rebase_order_preserving", "rebase_preserves_geometry", "reader_renumbering_order_preserving",
            "no_type_reads_as_one", "constants_pinned", "exValid"]
GEN = ["VtkConsts"]
HARNESS = os.path.join(vlib.VERIF, "harness", "h_vtk.cpp")


# ---------------------------------------------------------------- closed triangle meshes
def _tetra():
    return [(0., 0., 0.), (1., 0., 0.), (0., 1., 0.), (0., 0., 1.)], [(0, 2, 1), (0, 1, 3), (1, 2, 3), (2, 0, 3)]


def _octa():
    v = [(1., 0., 0.), (-1., 0., 0.), (0., 1., 0.), (0., -1., 0.), (0., 0., 1.), (0., 0., -1.)]
    f = [(0, 2, 4), (2, 1, 4), (1, 3, 4), (3, 0, 4), (2, 0, 5), (1, 2, 5), (3, 1, 5), (0, 3, 5)]
    return v, f


def _cube():
    v = [(0., 0., 0.), (1., 0., 0.), (1., 0., 1.), (0., 0., 1.), (0., 1., 0.), (1., 1., 0.), (0., 1., 1.), (1., 1., 1.)]
    f = [(0, 1, 3), (2, 3, 1), (0, 4, 1), (5, 1, 4), (0, 3, 4), (6, 4, 3), (1, 5, 2), (7, 2, 5), (5, 4, 7), (6, 7, 4), (3, 2, 6), (7, 6, 2)]
    return v, f


def _icosa():
    t = (1 + 5 ** 0.5) / 2
    v = [(-1, t, 0), (1, t, 0), (-1, -t, 0), (1, -t, 0), (0, -1, t), (0, 1, t), (0, -1, -t), (0, 1, -t), (t, 0, -1), (t, 0, 1), (-t, 0, -1), (-t, 0, 1)]
    f = [(0, 11, 5), (0, 5, 1), (0, 1, 7), (0, 7, 10), (0, 10, 11), (1, 5, 9), (5, 11, 4), (11, 10, 2), (10, 7, 6), (7, 1, 8),
         (3, 9, 4), (3, 4, 2), (3, 2, 6), (3, 6, 8), (3, 8, 9), (4, 9, 5), (2, 4, 11), (6, 2, 10), (8, 6, 7), (9, 8, 1)]
    return [tuple(float(x) for x in p) for p in v], f


def _subdivide(v, f):
    v = list(v)
    mid = {}
    out = []

    def m(a, b):
        k = (min(a, b), max(a, b))
        if k not in mid:
            mid[k] = len(v)
            v.append(tuple((v[a][i] + v[b][i]) / 2 for i in range(3)))
        return mid[k]
    for a, b, c in f:
        ab, bc, ca = m(a, b), m(b, c), m(c, a)
        out += [(a, ab, ca), (b, bc, ab), (c, ca, bc), (ab, bc, ca)]
    return v, out


BASES = [_tetra, _octa, _cube, _icosa]


def gen_cell(r, tier, cls, cid, budget=None):
    v, f = r.choice(BASES)()
    for _ in range(r.choice([0, 0, 0, 1, 1, 2] if tier == "quick" else [0, 0, 1, 1, 2, 2, 3])):
        if budget is not None and 4 * len(v) > budget:
            break                                      # keeps the total size of a population bounded
        v, f = _subdivide(v, f)
    # geometry: scale, sign, offset of any magnitude
    mode = r.randint(0, 9)
    if mode <= 6:
        sc = 10.0 ** r.uniform(-9, 6)
    elif mode == 7:
        sc = 10.0 ** r.uniform(-300, -9)
    elif mode == 8:
        sc = 10.0 ** r.uniform(6, 300)
    else:
        sc = 1.0
    sg = [r.choice([1.0, -1.0]) for _ in range(3)]
    off = [sc * r.uniform(-30, 30) * r.choice([0.0, 1.0, 1.0]) for _ in range(3)]
    pts = []
    for p in v:
        q = [sg[i] * sc * p[i] + off[i] for i in range(3)]
        k = r.randint(0, 40)
        if k == 0:
            q[r.randint(0, 2)] = 0.0
        elif k == 1:
            q[r.randint(0, 2)] = -0.0
        elif k == 2:   # a decimal tie of the 5-digit rounding
            q[r.randint(0, 2)] = r.choice([1.00005, -2.50005e-7, 9.99995e5, 9.99995, 1.23455e-3]) * r.choice([1.0, 10.0, 1e-3])
        pts.append(q)
    # relabel the nodes, shuffle the faces
    perm = list(range(len(pts)))
    r.shuffle(perm)                                   # new id of old node i
    npts = [None] * len(pts)
    for i, p in enumerate(pts):
        npts[perm[i]] = p
    faces = [tuple(perm[i] for i in t) for t in f]
    r.shuffle(faces)
    # free slots, as local mesh operations leave them
    nodes = [(True, p) for p in npts]
    fcs = [(True, t) for t in faces]
    if r.randint(0, 1) == 1:
        kn = r.randint(0, max(1, len(nodes) // 2)) if r.randint(0, 3) else r.randint(0, 3)
        kf = r.randint(0, max(1, len(fcs) // 2)) if r.randint(0, 3) else r.randint(0, 3)
        for _ in range(kn):
            pos = r.randint(0, len(nodes))
            junk = [r.choice([float("nan"), float("inf"), 777.0, -1e300, 0.0]) for _ in range(3)]
            nodes.insert(pos, (False, junk))
        # node ids of the faces follow the insertions
        newid = {}
        j = 0
        for i, (u, _) in enumerate(nodes):
            if u:
                newid[j] = i
                j += 1
        fcs = [(True, tuple(newid[i] for i in t)) for _, t in fcs]
        for _ in range(kf):
            pos = r.randint(0, len(fcs))
            fcs.insert(pos, (False, tuple(r.randint(0, len(nodes) - 1) for _ in range(3))))
    free_n = [i for i, (u, _) in enumerate(nodes) if not u]
    free_f = [i for i, (u, _) in enumerate(fcs) if not u]
    r.shuffle(free_n)
    r.shuffle(free_f)
    return {"cls": cls, "id": cid, "nodes": nodes, "faces": fcs, "free_n": free_n, "free_f": free_f}


def gen_pop(r, tier, idx):
    k = r.randint(0, 9)
    if k <= 4:
        nc = r.randint(1, 6)
    elif k <= 8:
        nc = r.randint(7, 40)
    else:
        nc = 40
    if tier == "quick" and idx % 5 != 0:
        nc = min(nc, 12)
    classes = [r.randint(0, 4) for _ in range(nc)]
    if nc >= 5:
        for c in range(5):
            classes[r.randint(0, nc - 1)] = c
    ids = [r.randint(0, 10 ** r.randint(1, 9)) for _ in range(nc)] if r.randint(0, 1) else list(range(nc))
    pop = []
    budget = 2500 if tier == "quick" else 5000          # node slots per population (the model driver is quadratic in it)
    for i in range(nc):
        c = gen_cell(r, tier, classes[i], ids[i], budget=max(0, budget))
        budget -= len(c["nodes"])
        pop.append(c)
    return pop


def pop_line(pop):
    w = ["pop", str(len(pop))]
    for c in pop:
        w += [str(c["cls"]), str(c["id"]), str(len(c["nodes"])), str(len(c["faces"])), str(len(c["free_n"])), str(len(c["free_f"]))]
        for _, p in c["nodes"]:
            w += [fhex(x) for x in p]
        for _, t in c["faces"]:
            w += [str(i) for i in t]
        w += [str(i) for i in c["free_n"]] + [str(i) for i in c["free_f"]]
    return " ".join(w)


def fmt4e(x):
    return "%.4e" % x


# ---------------------------------------------------------------- independent oracle
def expected_dump(pop):
    """what reading the file back must give: types, and per cell the used nodes in slot order at the written
    precision and the used faces in slot order with order-preserving renumbering"""
    out = ["types", str(len(pop))] + [str(c["cls"] if c["cls"] < 5 else 1) for c in pop] + ["cells", str(len(pop))]
    for c in pop:
        used = [i for i, (u, _) in enumerate(c["nodes"]) if u]
        rank = {i: k for k, i in enumerate(used)}
        out += ["nodes", str(3 * len(used))]
        for i in used:
            out += [fhex(float(fmt4e(x))) for x in c["nodes"][i][1]]
        fl = [t for u, t in c["faces"] if u]
        out += ["faces", str(len(fl))]
        for t in fl:
            out += ["3"] + [str(rank[i]) for i in t]
    return " ".join(out)


def audit_counts(text, pop):
    """every declared count of the file against its contents (VTK legacy format); returns None or a message"""
    lines = text.split("\n")
    toks = text.split()
    try:
        i = toks.index("POINTS")
        n = int(toks[i + 1])
        j = toks.index("CELLS")
        if j - (i + 3) != 3 * n:
            return "POINTS declares %d points but %d coordinates follow" % (n, j - (i + 3))
        nb, m = int(toks[j + 1]), int(toks[j + 2])
        li = [k for k, l in enumerate(lines) if l.startswith("CELLS ")][0]
        cl = []
        k = li + 1
        while k < len(lines) and lines[k].strip() != "" and not lines[k][0].isalpha():
            cl.append([int(x) for x in lines[k].split()])
            k += 1
        if len(cl) != nb:
            return "CELLS declares %d cells but %d cell lines follow" % (nb, len(cl))
        if sum(len(l) for l in cl) != m:
            return "CELLS declares %d integers but the cell lines hold %d" % (m, sum(len(l) for l in cl))
        for q, l in enumerate(cl):
            if l[0] != len(l) - 1:
                return "cell line %d announces %d integers and holds %d" % (q, l[0], len(l) - 1)
            if l[1] * 4 + 1 != l[0] or any(l[2 + 4 * t] != 3 for t in range(l[1])):
                return "cell line %d: face count / face arities inconsistent with its length" % q
            if any(x >= n for t in range(l[1]) for x in l[3 + 4 * t: 6 + 4 * t]):
                return "cell line %d refers to a point >= %d" % (q, n)
        t0 = toks.index("CELL_TYPES")
        nt = int(toks[t0 + 1])
        d0 = toks.index("CELL_DATA")
        if nt != nb or toks[t0 + 2:d0] != ["42"] * nb:
            return "CELL_TYPES declares %d, %d type lines follow, %d cells" % (nt, d0 - t0 - 2, nb)
        if int(toks[d0 + 1]) != nb:
            return "CELL_DATA declares %d for %d cells" % (int(toks[d0 + 1]), nb)
        if toks[d0 + 2:d0 + 4] != ["FIELD", "FieldData"]:
            return "FIELD line missing"
        na = int(toks[d0 + 4])
        p = d0 + 5
        seen = 0
        while p < len(toks):
            name, comp, tup, ty = toks[p], int(toks[p + 1]), int(toks[p + 2]), toks[p + 3]
            vals = toks[p + 4:p + 4 + comp * tup]
            if tup != nb or len(vals) != comp * tup or any(re.match(r"^[A-Za-z_]", v) and v not in ("nan", "inf") for v in vals):
                return "array %s declares %d x %d values" % (name, comp, tup)
            if name == "cell_type_id" and vals != [str(c["cls"]) if c["cls"] < 5 else "-1" for c in pop]:
                return "cell_type_id array holds %r" % vals[:8]
            if name == "cell_id" and vals != [str(c["id"]) for c in pop]:
                return "cell_id array holds %r" % vals[:8]
            p += 4 + comp * tup
            seen += 1
        if seen != na or p != len(toks):
            return "FIELD declares %d arrays, %d found" % (na, seen)
    except (ValueError, IndexError) as e:
        return "file structure not recognised: %s" % e
    return None


def extras_of(text, ncells):
    """the texts of the CELL_DATA arrays per cell, taken from the real file (opaque to the model)"""
    toks = text.split()
    try:
        d0 = toks.index("CELL_DATA")
        na = int(toks[d0 + 4])
        p = d0 + 5
        cols = []
        for _ in range(na):
            comp, tup = int(toks[p + 1]), int(toks[p + 2])
            cols.append(toks[p + 4:p + 4 + comp * tup])
            p += 4 + comp * tup
        return [[cols[a][i] if i < len(cols[a]) else "?" for a in range(na)] for i in range(ncells)]
    except (ValueError, IndexError):
        return [["?"] * 8 for _ in range(ncells)]


def model_line(pop, file_hex, extras):
    w = ["c16", file_hex, str(len(pop))]
    for ci, c in enumerate(pop):
        w += [str(c["cls"] if c["cls"] < 5 else -1), str(c["id"]), str(len(c["nodes"])), str(len(c["faces"]))]
        for u, p in c["nodes"]:
            w += ["1" if u else "0"] + [fhex(x) for x in p] + [fmt4e(x) for x in p]
        for u, t in c["faces"]:
            w += ["1" if u else "0"] + [str(i) for i in t]
        w += [str(len(extras[ci]))] + extras[ci]
    return " ".join(w)


def small_desc(pop):
    return {"cells": len(pop), "classes": [c["cls"] for c in pop][:40],
            "node_slots": [len(c["nodes"]) for c in pop][:40], "face_slots": [len(c["faces"]) for c in pop][:40],
            "free_nodes": [len(c["free_n"]) for c in pop][:40], "free_faces": [len(c["free_f"]) for c in pop][:40]}


def corpus(r):
    """hand-made populations kept in every run"""
    out = []
    c = gen_cell(Rng(11), "quick", 0, 0)
    out.append([c])
    # one cell of each class, ids not in order
    out.append([gen_cell(Rng(20 + k), "quick", k, 100 - k) for k in range(5)])
    # a cell whose every other node slot is free
    v, f = _cube()
    nodes = []
    for p in v:
        nodes += [(False, [float("nan")] * 3), (True, [1e-6 * x for x in p])]
    fcs = [(True, tuple(2 * i + 1 for i in t)) for t in f]
    out.append([{"cls": 2, "id": 7, "nodes": nodes, "faces": fcs, "free_n": [14, 0, 2, 12, 4, 10, 6, 8], "free_f": []}])
    return out


def parse_model(ans):
    d = {}
    for part in ans.split(" | "):
        k, _, v = part.partition(" ")
        d[k] = v
    return d


def strip_err(s):
    """model error dumps carry the name of the Err constructor as last word"""
    return s


def run(ctx):
    tier, seed = ctx["tier"], ctx["seed"]
    t0 = time.time()
    V = vlib.Verdict(PID)
    gen = vlib.translate.run(GEN)
    proof = vlib.prove(PID, THEOREMS, NAMESPACE, extra_targets=("drv_c16",))
    for f in proof["failures"]:
        V.fail_tie("proof", "%s: %s" % (f["theorem"], f["reason"]), errors=proof["errors"][:5])
    if tier == "thorough" and proof["ok"]:
        ok, log = vlib.leanchecker("SimuVerif.Properties.C16")
        if not ok:
            V.fail_tie("proof", "leanchecker rejected SimuVerif.Properties.C16", log=log)
    exe, rebuilt = vlib.build_repo.build_harness(HARNESS, "h_vtk")
    n = 160 if tier == "quick" else 900
    if not proof["ok"]:
        n = max(n, 600)
    r = Rng(seed)
    pops = corpus(r) + [gen_pop(r, tier, i) for i in range(n)]
    # a plain cell without a type (automatic_polarization voxels): written as -1, read back as 1 — observation
    lines = [pop_line(p) for p in pops]
    impl, rc, err = vlib.run_lines(exe, lines, timeout=1500)
    if rc != 0 or len(impl) != len(lines):
        k = len(impl)
        V.fail_input("harness ended abnormally (rc=%s) on population %d: %s" % (rc, k, err[-800:]),
                     {"line": lines[k] if k < len(lines) else None, "desc": small_desc(pops[k]) if k < len(pops) else None}, key=None)
    # every second population is ALSO written through the other public entry point, write_cell_data_file(path, cells), which
    # compacts the cells itself and writes the geometry sections only: byte for byte the file of write() up to CELL_DATA
    cidx = [i for i in range(len(lines)) if i % 2 == 1 and i < len(impl)]
    cimpl, rcc, errc = vlib.run_lines(exe, ["popc" + lines[i][3:] for i in cidx], timeout=1500)
    entry2 = {"populations": len(cidx), "with_free_slots": 0, "identical_geometry_sections": 0, "failures": 0}
    if rcc != 0 or len(cimpl) != len(cidx):
        k = len(cimpl)
        V.fail_input("harness ended abnormally (rc=%s) in write_cell_data_file(path, cells) on population %d: %s" % (rcc, cidx[k] if k < len(cidx) else -1, errc[-800:]),
                     {"line": "popc" + lines[cidx[k]][3:] if k < len(cidx) else None}, key=None)
    for q, i in enumerate(cidx[:len(cimpl)]):
        a, b = impl[i], cimpl[q]
        inp = {"line": "popc" + lines[i][3:], "desc": small_desc(pops[i])}
        entry2["with_free_slots"] += 1 if any(c["free_n"] or c["free_f"] for c in pops[i]) else 0
        if not a.startswith("ok file "):
            continue                      # judged below on the write() path
        msg = None
        if not b.startswith("ok file "):
            msg = "write_cell_data_file(path, cells) + read back raised: %s" % b[:160]
        else:
            ta = bytes.fromhex(a.split(" ", 3)[2]).decode("latin-1")
            tb = bytes.fromhex(b.split(" ", 3)[2]).decode("latin-1")
            cut = ta.find("CELL_DATA")
            ga = a.split(" ", 4)[4].split(" cells ", 1)[-1]
            gb = b.split(" ", 4)[4].split(" cells ", 1)[-1].split(" texc ", 1)[0]      # (this file has no cell_type_id array)
            if cut < 0 or tb.rstrip("\n") != ta[:cut].rstrip("\n"):
                k = next((z for z, (x, y) in enumerate(zip(tb, ta)) if x != y), min(len(tb), len(ta)))
                msg = ("the file of write_cell_data_file(path, cells) is not the geometry part of the file of write() (first difference at byte %d: %r vs %r)"
                       % (k, tb[k:k + 30], ta[k:k + 30]))
            elif ga != gb:
                msg = "the geometry read back from the file of write_cell_data_file(path, cells) differs from the one of write()"
            else:
                entry2["identical_geometry_sections"] += 1
        if msg:
            entry2["failures"] += 1
            if entry2["failures"] <= 3:
                V.fail_input(msg, inp, key=None)
    drv = vlib.driver_path("drv_c16")
    stats = {"cells": {}, "with_free_slots": 0, "classes": [0] * 6, "faces_max": 0, "coords": 0, "tie_mismatch": 0,
             "oracle_fail": 0, "audit_fail": 0, "bytes": 0}
    samples = []
    mlines = []
    texts = []
    for i, p in enumerate(pops[:len(impl)]):
        a = impl[i]
        text = None
        if a.startswith("ok file "):
            hexb = a.split(" ", 3)[2]
            text = bytes.fromhex(hexb).decode("latin-1") if hexb != "-" else ""
        elif " file " in a:
            hexb = a.rsplit(" file ", 1)[1]
            text = bytes.fromhex(hexb).decode("latin-1") if hexb != "-" else ""
        texts.append(text)
        mlines.append(model_line(p, text.encode("latin-1").hex() if text else "-", extras_of(text or "", len(p))))
    model = None
    if os.path.exists(drv):
        model, rc2, err2 = vlib.run_lines(drv, mlines, timeout=1500)
        if rc2 != 0 or len(model) != len(mlines):
            V.fail_tie("correspondence", "model driver ended abnormally (rc=%s) %s" % (rc2, err2[-300:]))
            model = None
    else:
        V.fail_tie("correspondence", "model driver missing (lake build failed)")
    for i, p in enumerate(pops[:len(impl)]):
        a = impl[i]
        nc = len(p)
        stats["cells"][nc] = stats["cells"].get(nc, 0) + 1
        stats["with_free_slots"] += 1 if any(c["free_n"] or c["free_f"] for c in p) else 0
        for c in p:
            stats["classes"][c["cls"]] += 1
            stats["faces_max"] = max(stats["faces_max"], len(c["faces"]))
            stats["coords"] += 3 * len(c["nodes"])
        inp = {"line": lines[i], "desc": small_desc(p)}
        if not a.startswith("ok file "):
            stats["oracle_fail"] += 1
            if stats["oracle_fail"] <= 3:
                V.fail_input("writing the population and reading it back raised: %s" % a[:160], inp, key=None)
            continue
        _, _, hexb, _, dump = a.split(" ", 4)
        text = texts[i]
        stats["bytes"] += len(text)
        exp = expected_dump(p)
        if dump != exp:
            stats["oracle_fail"] += 1
            if stats["oracle_fail"] <= 3:
                k = next((q for q, (x, y) in enumerate(zip(dump.split(), exp.split())) if x != y), min(len(dump.split()), len(exp.split())))
                V.fail_input("the file read back differs from the population written (word %d of the dump: read %s, written %s)"
                             % (k, " ".join(dump.split()[k:k + 4]), " ".join(exp.split()[k:k + 4])), inp, key=None)
        msg = audit_counts(text, p)
        if msg:
            stats["audit_fail"] += 1
            if stats["audit_fail"] <= 3:
                V.fail_input("declared counts do not match the contents: " + msg, inp, key=None)
        if i < 2:
            samples.append({"desc": small_desc(p), "file_head": text[:300], "read_head": dump[:200]})
        if model is not None:
            d = parse_model(model[i])
            bad = None
            if d.get("W") != "ok":
                bad = "model writer: %s" % d.get("W")
            elif d.get("TOK") != "same":
                bad = "model writer and real file differ at token %s" % d.get("TOK")
            else:
                for k in ("RT", "RR", "RX"):
                    if d.get(k) != "ok " + dump:
                        bad = "%s (model reader) differs from the real reader: %s" % (k, (d.get(k) or "")[:120])
                        break
            if bad:
                stats["tie_mismatch"] += 1
                if stats["tie_mismatch"] <= 3:
                    V.fail_tie("correspondence", bad, case=inp)
    # the writer refuses non-finite coordinates (model: WErr.nonFinite)
    exe, _ = vlib.build_repo.build_harness(HARNESS, "h_vtk")
    bad_pop = [gen_cell(Rng(3), "quick", 1, 0)]
    bad_pop[0]["nodes"][0] = (True, [float("nan"), 0.0, 0.0])
    o, rcb, eb = vlib.run_lines(exe, [pop_line(bad_pop)])
    nonfinite_ok = bool(o) and o[0].startswith("wexc mesh_writer_exception")
    if not nonfinite_ok:
        V.fail_input("a NaN coordinate was not refused by the writer: %s" % (o[0][:120] if o else rcb), {"line": pop_line(bad_pop)}, key=None)
    if model is not None:
        mo, _, _ = vlib.run_lines(drv, [model_line(bad_pop, "-", [["?"] * 8])])
        if not (mo and "nonFinite" in parse_model(mo[0]).get("W", "")):
            V.fail_tie("correspondence", "model writer accepts a NaN coordinate: %s" % (mo[0][:100] if mo else "-"))
    # observation: a cell without a type is written as -1 and read back as type 1
    nt_pop = [dict(gen_cell(Rng(4), "quick", 5, 3))]
    o, _, _ = vlib.run_lines(exe, [pop_line(nt_pop)])
    no_type_obs = o[0].split(" read ", 1)[1][:12] if o and " read " in o[0] else None
    # the std::vector<mesh> overload of write_cell_data_file (debug helper of the test-suite; faces of any arity;
    # no CELL_DATA, so such a file is no start-up input): real write + real read + character-level model read
    mesh_stats = {"cases": 0, "failures": 0, "model_mismatch": 0}
    mlines2, mexp = [], []
    rm = Rng(seed).fork("meshes")
    for _ in range(12 if tier == "quick" else 150):
        ml = []
        for _ in range(rm.randint(1, 5)):
            if rm.randint(0, 1):
                v, f = _cube()
                f = [(0, 1, 2, 3), (4, 6, 7, 5), (0, 4, 5, 1), (3, 2, 7, 6), (0, 3, 6, 4), (1, 5, 7, 2)]      # quadrilaterals
            else:
                v, f = rm.choice(BASES)()
            sc = 10.0 ** rm.uniform(-9, 6)
            ml.append(([sc * x * rm.choice([1.0, -1.0]) for p in v for x in p], f))
        w = ["meshes", str(len(ml))]
        e = ["types", "0", "cells", str(len(ml))]
        for pts, f in ml:
            w += [str(len(pts))] + [fhex(x) for x in pts] + [str(len(f))]
            e += ["nodes", str(len(pts))] + [fhex(float(fmt4e(x))) for x in pts] + ["faces", str(len(f))]
            for t in f:
                w += [str(len(t))] + [str(i) for i in t]
                e += [str(len(t))] + [str(i) for i in t]
        mlines2.append(" ".join(w))
        mexp.append(" ".join(e))
    exe, _ = vlib.build_repo.build_harness(HARNESS, "h_vtk")      # the shared cache may have been pruned meanwhile
    mo, _, _ = vlib.run_lines(exe, mlines2)
    drv17 = vlib.driver_path("drv_c17")
    for i, a in enumerate(mo):
        mesh_stats["cases"] += 1
        got = a.split(" read ", 1)[1].split(" texc ")[0] if a.startswith("ok file ") and " read " in a else a[:100]
        if got != mexp[i]:
            mesh_stats["failures"] += 1
            if mesh_stats["failures"] <= 2:
                V.fail_input("a list of meshes written by write_cell_data_file(vector<mesh>) is not read back as written: %s" % got[:120], {"line": mlines2[i], "desc": "meshes"}, key=None)
        elif os.path.exists(drv17):
            # with a cell_type_id array appended the file is a complete input: real reader vs character-level model
            nm = int(mexp[i].split()[3])
            full = bytes.fromhex(a.split(" ", 3)[2]) + ("\nCELL_DATA %d\nFIELD FieldData 1\ncell_type_id 1 %d int\n%s\n" % (nm, nm, " ".join(["0"] * nm))).encode()
            ex17, _ = vlib.build_repo.build_harness(os.path.join(vlib.VERIF, "harness", "h_startup.cpp"), "h_startup")
            r17, _, _ = vlib.run_lines(ex17, ["reader " + full.hex()])
            m17, _, _ = vlib.run_lines(drv17, ["reader " + full.hex()])
            want = "ok types %d %s%s" % (nm, " ".join(["0"] * nm), mexp[i][len("types 0"):])
            real17 = re.sub(r" rss=\d+$", "", r17[0]) if r17 else "-"
            if not (m17 and real17 == want and m17[0] == want):
                mesh_stats["model_mismatch"] += 1
                if mesh_stats["model_mismatch"] <= 2:
                    V.fail_tie("correspondence", "polygon file: real reader `%s` model `%s`" % (real17[:100], m17[0][:100] if m17 else "-"))
    # observation (not part of the property: a vector<mesh> is not a population of cells): an empty mesh in the
    # list makes the overload drop the cells behind it and declare counts that do not match
    tet = "12 " + " ".join(fhex(x) for x in [0, 0, 0, 1, 0, 0, 0, 1, 0, 0, 0, 1]) + " 4 3 0 2 1 3 0 1 3 3 1 2 3 3 2 0 3"
    exe, _ = vlib.build_repo.build_harness(HARNESS, "h_vtk")
    oo, _, _ = vlib.run_lines(exe, ["meshes 3 %s 0 0 %s" % (tet, tet)])
    empty_mesh_obs = None
    if oo and oo[0].startswith("ok file "):
        txt = bytes.fromhex(oo[0].split(" ", 3)[2]).decode("latin-1")
        empty_mesh_obs = {"CELLS_line": [l for l in txt.split("\n") if l.startswith("CELLS")], "cells_read_back": oo[0].split(" read ", 1)[1].split(" cells ")[1].split(" ")[0]}
    rcode, nviol = V.finish()
    cov = {
        "obligations": proof["obligations"], "discharged": proof["discharged"],
        "checker_cmd": "lake build SimuVerif.Properties.C16 SimuVerif.Audit.C16 drv_c16 (+ lake env leanchecker in the thorough tier)",
        "trusted_base": vlib.TRUSTED_COMMON[:2] + [
            "tools/gen/c16_vtk.py (regex extraction of literals, formats, regular expressions, throw sites; hashed below)",
            "Model/Vtk.lean is hand-written: tied to the code by the constants it reads from Gen/VtkConsts.lean, by the pins of Properties/C16.lean, and by this run's correspondence (real writer/reader vs model, exact comparison incl. coordinate bits)",
            "the link between the character-level scanners (Model/VtkText.lean) and the token-level sectionsOf is tested (RT = RR = RX on every real file), not proved",
            "sprintf(\"%.4e\") and std::stod enter the theorems as opaque fmt / stod with the hypothesis stod (fmt x) = value (Q x); in this run fmt = Python '%.4e' (checked token by token against the real file) and stod = exact decimal->double conversion of the model (checked bit by bit against the real reader)",
            "cell::rebase is modelled through used-flags (a slot is free iff its index is in the free queue)",
        ],
        "theorems": {k: v for k, v in proof["axioms"].items()},
        "proof_failures": proof["failures"], "translator": gen,
        "evaluations": len(impl), "distinct_nontrivial": len(set(lines)),
        "rule": "seeded populations: 1-40 cells (tetra/octa/cube/icosa, 0-3 midpoint subdivisions, at most 2500 (quick) / 5000 (thorough) node slots per population), all five cell classes forced when >= 5 cells, node relabelling, face shuffling, coordinates scale 1e-9..1e6 (10% each 1e-300..1e-9, 1e6..1e300), signs, offsets, +-0, decimal ties of the 5-digit rounding, free node/face slots (NaN/Inf content, shuffled free queues) in half of the cells; + 3 corpus populations; distinct = distinct request lines",
        "cells_per_population": {str(k): v for k, v in sorted(stats["cells"].items())},
        "second_entry_point_write_cell_data_file": entry2,
        "populations_with_free_slots": stats["with_free_slots"], "class_counts": stats["classes"], "max_face_slots": stats["faces_max"],
        "coordinates_written": stats["coords"], "file_bytes": stats["bytes"],
        "oracle_failures": stats["oracle_fail"], "count_audit_failures": stats["audit_fail"], "model_vs_impl_disagreements": stats["tie_mismatch"],
        "nonfinite_refused": nonfinite_ok, "observation_cell_without_type_reads_as": no_type_obs,
        "mesh_overload": mesh_stats, "observation_mesh_overload_with_an_empty_mesh_in_the_middle_of_3": empty_mesh_obs,
        "repo_objects_rebuilt": rebuilt, "samples": samples,
    }
    vlib.write_evidence(PID, tier, "proof", cov, [
        "populations are closed triangle meshes (each edge in two faces): cell::rebase regenerates the edge set and throws otherwise",
        "every cell of a population has a cell type (simulation_initializer guarantees it); a cell without one is written as -1 and read as 1 (recorded as an observation, theorem no_type_reads_as_one)",
        "counts below 2^31, tokens shorter than 4096 characters (hypotheses Fits / ShortTokens of the theorems)",
    ], time.time() - t0, nviol)
    return rcode


def replay(ctx):
    rp = ctx["replay"]
    fi = rp.get("failing_input", {}).get("input", {})
    line = fi.get("line")
    if not line:
        print("replay file names no input: %s" % json.dumps(rp.get("no_longer_checks", rp))[:2000])
        return 1
    exe, _ = vlib.build_repo.build_harness(HARNESS, "h_vtk")
    out, rc, err = vlib.run_lines(exe, [line])
    print("population:", json.dumps(fi.get("desc")))
    a = out[0] if out else "no answer (rc=%s) %s" % (rc, err[-400:])
    print("implementation:", a[:400])
    pop = pop_from_line(line)
    bad = None
    if not a.startswith("ok file "):
        bad = "writing and reading back raised / crashed"
    else:
        _, _, hexb, _, dump = a.split(" ", 4)
        text = bytes.fromhex(hexb).decode("latin-1")
        if dump != expected_dump(pop):
            bad = "the file read back differs from the population written"
        else:
            bad = audit_counts(text, pop)
    if bad:
        print("VIOLATION property=C16 replay=%s" % ctx.get("replay_path", "-"))
        print(bad)
        return 1
    print("property holds on this input now")
    return 0


def pop_from_line(line):
    w = line.split()
    k = 2
    pop = []
    for _ in range(int(w[1])):
        cls, cid, nn, nf, nfn, nff = (int(x) for x in w[k:k + 6])
        k += 6
        nodes = []
        for _ in range(nn):
            nodes.append([unhex(x) for x in w[k:k + 3]])
            k += 3
        faces = []
        for _ in range(nf):
            faces.append(tuple(int(x) for x in w[k:k + 3]))
            k += 3
        fn = [int(x) for x in w[k:k + nfn]]
        k += nfn
        ff = [int(x) for x in w[k:k + nff]]
        k += nff
        pop.append({"cls": cls, "id": cid, "nodes": [(i not in fn, p) for i, p in enumerate(nodes)],
                    "faces": [(i not in ff, t) for i, t in enumerate(faces)], "free_n": fn, "free_f": ff})
    return pop
