"""C03 — a time step advances every node by the documented integration law.

Model   : lean/SimuVerif/Model/Integrator.lean (loop / branch skeleton, hand-written) calling
          lean/SimuVerif/Gen/Integrator.lean (every arithmetic statement block of update_nodes_positions in the six
          compile-time configurations, the ownership comparisons, the time update, get_node_mass, the static type
          ids and the coupling guards — regenerated from the C++ text on every run by tools/gen/cxx_integrator.py).
Theorems: lean/SimuVerif/Properties/C03.lean (+ Lemmas/Integrator.lean).
Tie     : translator (above) + correspondence: harness/h_integrator.cpp runs the REAL update_nodes_positions in
          each of the six builds (hook H1) on generated populations for 1..50 consecutive steps; lean/Driver/C03.lean
          replays the same lines with the Float instance of the model; the full node state is compared.
Oracle  : the documented law re-implemented with fractions.Fraction, applied to the harness' input state.
"""
import os, sys, time, json, math
from fractions import Fraction as Fr
import vlib
from vlib import Rng, fhex, unhex
import c03_coupling
import c03_search

PID = "C03"
NAMESPACE = "Simu.C03"
THEOREMS = [
    "time_advances", "time_n",
    "node_mass_law",
    "untouched", "unused_untouched", "static_fixed", "static_fixed_n", "contact_creates_no_static_coupling",
    "uncoupled_semi_implicit", "uncoupled_overdamped", "uncoupled_semi_implicit_n", "uncoupled_overdamped_n",
    "force_reset",
    "pair_step", "pair_same_displacement", "pair_momentum", "pair_force", "pair_same_displacement_n",
    "pair_step_ff", "pair_same_displacement_ff", "pair_momentum_ff", "pair_force_ff",
    "pairTopo_of_mutual", "onlySelf_of_noEntry", "onlySelf_springs",
] + c03_coupling.THEOREMS_COUPLING
GEN = ["Integrator"]
CONFIGS = [(cm, dm) for cm in (0, 1, 2) for dm in (0, 1)]
STATIC_KINDS = (1, 4)
KEY_CM2 = "C03/cm2-dm0/position-advanced-with-pre-update-momentum"


# ---------------------------------------------------------------- generator
def rvec(r, scale, pzero=0.1):
    if r.uniform() < pzero:
        return [0.0, 0.0, 0.0]
    return [r.normal() * scale for _ in range(3)]


def gen_case(r, cm, dm, max_steps=50):
    """a population; cls 'P' = inside the domain of the property (couplings mutual, between used nodes of non-static
    cells, local ids = list positions), 'M' = also states outside it (compared with the model only where the
    property is silent)"""
    cls = "P" if r.uniform() < 0.7 else "M"
    ncells = r.randint(1, 6)
    cells = []
    for ci in range(ncells):
        nn = r.randint(1, 8)
        kind = r.choice([0, 0, 0, 0, 2, 3, 1, 4])
        used = [r.uniform() < 0.8 for _ in range(nn)]
        if not any(used):
            used[r.randint(0, nn - 1)] = True
        sc = 10.0 ** r.uniform(-6, 1)
        off = r.choice([0.0, 0.0, 1.0, 100.0]) * sc
        nodes = []
        for ni in range(nn):
            nodes.append({"used": used[ni], "pos": [off + x for x in rvec(r, sc, 0.02)],
                          "mom": rvec(r, 10.0 ** r.uniform(-3, 2)) if dm == 0 else [0.0, 0.0, 0.0],
                          "force": rvec(r, 10.0 ** r.uniform(-3, 3)), "coup": []})
        cells.append({"lid": ci, "kind": kind, "density": 10.0 ** r.uniform(-2, 3), "volume": 10.0 ** r.uniform(-3, 1),
                      "nodes": nodes})
    if cls == "M" and r.uniform() < 0.4:
        ids = r.shuffle(list(range(ncells + r.randint(0, 3))))[:ncells]
        for c, i in zip(cells, ids):
            c["lid"] = i
    # couplings
    slots = [(ci, ni) for ci, c in enumerate(cells) for ni in range(len(c["nodes"]))]

    def ok_P(s):
        c = cells[s[0]]
        return c["kind"] not in STATIC_KINDS and c["nodes"][s[1]]["used"]
    if cm >= 1 and ncells >= 2:
        npairs = r.choice([0, 1, 2, 3, 5, 8])
        for _ in range(npairs):
            a = r.choice(slots); b = r.choice(slots)
            if a[0] == b[0]:
                continue
            na, nb = cells[a[0]]["nodes"][a[1]], cells[b[0]]["nodes"][b[1]]
            if cls == "P" or r.uniform() < 0.5:
                # a mutual pair of so far uncoupled nodes
                if na["coup"] or nb["coup"]:
                    continue
                if cls == "P" and not (ok_P(a) and ok_P(b)):
                    continue
                na["coup"].append(b); nb["coup"].append(a)
            else:
                # one-directional / overwriting entries (what repeated set_coupled_node calls can leave behind)
                if cm == 1:
                    na["coup"] = [b]
                else:
                    na["coup"] = [e for e in na["coup"] if e[0] != b[0]] + [b]
                    if r.uniform() < 0.5:
                        nb["coup"] = [e for e in nb["coup"] if e[0] != a[0]] + [a]
        for c in cells:
            for n in c["nodes"]:
                n["coup"].sort()
    nsteps = r.choice([1, 1, 1, 2, 3, 5, 10, r.randint(1, max_steps)])
    # dt so that damping*dt/m stays moderate for the lightest node (realistic runs have << 1)
    mmin = min(c["density"] * c["volume"] / sum(1 for n in c["nodes"] if n["used"]) for c in cells)
    damping = 10.0 ** r.uniform(-3, 3)
    ratio = 10.0 ** r.uniform(-5, 0.3)
    dt = ratio * mmin / damping
    mutual_only = all(is_mutual(cells, cm, (ci, ni)) for ci, c in enumerate(cells) for ni, n in enumerate(c["nodes"]) if n["coup"])
    ids_ok = all(c["lid"] == i for i, c in enumerate(cells))
    # the model is the sequential order; with mutual couplings AND local ids = positions every pair has exactly one owner,
    # the visits write disjoint slots and the parallel loops (CM 0/1) must give the same result: run those multi-threaded too
    threads = r.choice([1, 2, 4]) if (mutual_only and ids_ok and cm != 2) else 1
    return {"cm": cm, "dm": dm, "threads": threads, "dt": dt, "damping": damping, "nsteps": nsteps, "cells": cells, "cls": cls}


def is_mutual(cells, cm, s):
    """s has exactly one coupling entry p and p has exactly one entry, which is s"""
    cp = cells[s[0]]["nodes"][s[1]]["coup"]
    if len(cp) != 1:
        return False
    p = cp[0]
    back = cells[p[0]]["nodes"][p[1]]["coup"]
    return len(back) == 1 and tuple(back[0]) == tuple(s)


def line_of(case):
    w = ["integ", str(case["cm"]), str(case["dm"]), str(case["threads"]), fhex(case["dt"]), fhex(case["damping"]),
         str(case["nsteps"]), str(len(case["cells"]))]
    for c in case["cells"]:
        w += [str(c["lid"]), str(c["kind"]), fhex(c["density"]), fhex(c["volume"]), str(len(c["nodes"]))]
        for n in c["nodes"]:
            w.append("1" if n["used"] else "0")
            w += [fhex(x) for x in n["pos"] + n["mom"] + n["force"]]
            w.append(str(len(n["coup"])))
            for e in n["coup"]:
                w += [str(e[0]), str(e[1])]
    return " ".join(w)


def parse_out(line, case):
    """-> (time, {slot: (pos, mom, force)}) or None"""
    w = line.split()
    nslots = sum(len(c["nodes"]) for c in case["cells"])
    if len(w) != 2 + 9 * nslots or w[0] != "ok":
        return None
    try:
        v = [unhex(z) for z in w[1:]]
    except ValueError:
        return None
    out = {}
    k = 1
    for ci, c in enumerate(case["cells"]):
        for ni in range(len(c["nodes"])):
            out[(ci, ni)] = (v[k:k + 3], v[k + 3:k + 6], v[k + 6:k + 9])
            k += 9
    return v[0], out


# ---------------------------------------------------------------- exact oracle: the documented law
def classify(case):
    """role of every slot under the property: 'static', 'unused', 'free' (live, uncoupled, nobody coupled to it),
    ('pair', partner) for a mutual pair inside the property's domain, 'silent' where the property says nothing"""
    cells, cm = case["cells"], case["cm"]
    ids_ok = all(c["lid"] == i for i, c in enumerate(cells))
    targeted = {}
    for ci, c in enumerate(cells):
        for ni, n in enumerate(c["nodes"]):
            for e in (n["coup"] if cm >= 1 else []):
                targeted.setdefault(tuple(e), []).append((ci, ni))
    role = {}
    for ci, c in enumerate(cells):
        for ni, n in enumerate(c["nodes"]):
            s = (ci, ni)
            cp = n["coup"] if cm >= 1 else []
            tg = targeted.get(s, [])
            if not cp and not tg:
                role[s] = "static" if c["kind"] in STATIC_KINDS else ("free" if n["used"] else "unused")
                continue
            p = tuple(cp[0]) if len(cp) == 1 else None
            good = (p is not None and is_mutual(cells, cm, s) and tg == [p] and targeted.get(p, []) == [s] and ids_ok
                    and c["kind"] not in STATIC_KINDS and cells[p[0]]["kind"] not in STATIC_KINDS
                    and n["used"] and cells[p[0]]["nodes"][p[1]]["used"])
            role[s] = ("pair", p) if good else "silent"
    return role


def node_mass(c):
    return Fr(c["density"]) * Fr(c["volume"]) / sum(1 for n in c["nodes"] if n["used"])


def law(dm, dt, damping, m, x, p, f):
    """the documented scheme on one body: returns (x', p', scale_x, scale_p)"""
    if dm == 0:
        p2 = [p[i] + (f[i] - damping * p[i] / m) * dt for i in range(3)]
        x2 = [x[i] + p2[i] * dt / m for i in range(3)]
        sp = max(abs(p[i]) + abs(f[i] * dt) + abs(damping * p[i] / m * dt) for i in range(3))
        sx = max(abs(x[i]) + abs(p2[i] * dt / m) for i in range(3))
        return x2, p2, sx, sp
    x2 = [x[i] + f[i] * dt / damping for i in range(3)]
    sx = max(abs(x[i]) + abs(f[i] * dt / damping) for i in range(3))
    return x2, list(p), sx, Fr(0)


ZERO3 = [Fr(0)] * 3


def oracle(case, out, explicit_cm2=False):
    """compares the implementation's answer `out` with the documented law applied to the input state.
    Returns a list of (what, detail) failures.  explicit_cm2=True evaluates instead the law with the position
    advanced by the PRE-update momentum (used only to recognise the known CM2/DM0 finding precisely)."""
    fails = []
    t, st = out
    cells, dm, n = case["cells"], case["dm"], case["nsteps"]
    dt, damping = Fr(case["dt"]), Fr(case["damping"])
    # time
    texp = float(n * dt)
    if abs(Fr(t) - n * dt) > (n + 1) * Fr(vlib.ulp(texp)):
        fails.append(("time", "simulated time is %r after %d steps of %r (expected %r)" % (t, n, case["dt"], texp)))
    role = classify(case)
    EPS = Fr(1, 10 ** 11)
    tiny = Fr(1, 10 ** 300)

    def vec_bad(got, exp, tol):
        return any(abs(Fr(got[i]) - exp[i]) > tol for i in range(3))
    for s, rl in sorted(role.items()):
        c = cells[s[0]]; nd = c["nodes"][s[1]]
        g = st[s]
        if rl in ("static", "unused"):
            same = all(fhex(a) == fhex(b) for a, b in zip(g[0] + g[1] + g[2], nd["pos"] + nd["mom"] + nd["force"]))
            if not same:
                moved = g[0] != nd["pos"]
                fails.append(("static-moved" if (rl == "static" and moved) else rl + "-changed",
                              "%s slot %s was modified: pos %r -> %r, force %r -> %r" % (rl, s, nd["pos"], g[0], nd["force"], g[2])))
            continue
        if rl == "silent" or n == 0:
            continue
        if rl == "free":
            m = node_mass(c)
            x, p, f = [Fr(v) for v in nd["pos"]], [Fr(v) for v in nd["mom"]], [Fr(v) for v in nd["force"]]
            SX = SP = Fr(0)
            for k in range(n):
                if explicit_cm2 and dm == 0:
                    x2, p2, sx, sp = law(dm, dt, damping, m, x, p, f)
                    x2 = [x[i] + p[i] * dt / m for i in range(3)]
                else:
                    x2, p2, sx, sp = law(dm, dt, damping, m, x, p, f)
                x, p, f = x2, p2, ZERO3
                SX, SP = max(SX, sx), max(SP, sp)
            tolp = EPS * (n + 1) * SP + tiny
            tolx = EPS * (n + 1) * (SX + n * SP * abs(dt / m)) + tiny
            if vec_bad(g[0], x, tolx):
                fails.append(("position", "live uncoupled node %s: position %r, documented law gives %r" % (s, g[0], [float(v) for v in x])))
            if dm == 0 and vec_bad(g[1], p, tolp):
                fails.append(("momentum", "live uncoupled node %s: momentum %r, documented law gives %r" % (s, g[1], [float(v) for v in p])))
            if any(fhex(v) != fhex(0.0) for v in g[2]):
                fails.append(("force-not-reset", "live node %s keeps force %r after the step" % (s, g[2])))
            continue
        # mutual pair, handled once from its first slot
        pslot = rl[1]
        if pslot < s:
            continue
        c2 = cells[pslot[0]]; nd2 = c2["nodes"][pslot[1]]
        g2 = st[pslot]
        mavg = (node_mass(c) + node_mass(c2)) / 2
        x1, x2_ = [Fr(v) for v in nd["pos"]], [Fr(v) for v in nd2["pos"]]
        P = [(Fr(a) + Fr(b)) / 2 for a, b in zip(nd["mom"], nd2["mom"])]      # per-node share of the total
        F = [(Fr(a) + Fr(b)) / 2 for a, b in zip(nd["force"], nd2["force"])]
        SX = SP = Fr(0)
        D = [Fr(0)] * 3
        for k in range(n):
            ya, p2, sx, sp = law(dm, dt, damping, mavg, x1, P, F)
            if explicit_cm2 and dm == 0:
                ya = [x1[i] + P[i] * dt / mavg for i in range(3)]
            d = [ya[i] - x1[i] for i in range(3)]
            D = [D[i] + d[i] for i in range(3)]
            x1 = ya; x2_ = [x2_[i] + d[i] for i in range(3)]
            P, F = p2, ZERO3
            SX = max(SX, sx, max(abs(v) for v in x2_)); SP = max(SP, sp)
        tolp = EPS * (n + 1) * SP * 2 + tiny
        tolx = EPS * (n + 1) * (SX + n * SP * abs(dt / mavg)) + tiny
        d1 = [Fr(g[0][i]) - Fr(nd["pos"][i]) for i in range(3)]
        d2 = [Fr(g2[0][i]) - Fr(nd2["pos"][i]) for i in range(3)]
        if any(abs(d1[i] - d2[i]) > 2 * tolx for i in range(3)):
            fails.append(("pair-displacement", "mutual pair %s/%s: displacements differ: %r vs %r" % (s, pslot, [float(v) for v in d1], [float(v) for v in d2])))
        if vec_bad(g[0], x1, tolx) or vec_bad(g2[0], x2_, tolx):
            fails.append(("position", "mutual pair %s/%s: positions %r / %r, documented law gives %r / %r" % (
                s, pslot, g[0], g2[0], [float(v) for v in x1], [float(v) for v in x2_])))
        if dm == 0:
            tot = [Fr(g[1][i]) + Fr(g2[1][i]) for i in range(3)]
            if any(abs(tot[i] - 2 * P[i]) > 2 * tolp for i in range(3)):
                fails.append(("pair-momentum", "mutual pair %s/%s: total momentum %r, documented law gives %r" % (
                    s, pslot, [float(v) for v in tot], [float(2 * v) for v in P])))
        if any(fhex(v) != fhex(0.0) for v in g[2] + g2[2]):
            fails.append(("force-not-reset", "mutual pair %s/%s keeps forces %r / %r after the step" % (s, pslot, g[2], g2[2])))
    return fails


WHAT = {
    "time": "the simulated time is not advanced by exactly one time step per update",
    "static-moved": "a node of a static cell was moved",
    "static-changed": "the dynamic state of a slot of a static cell was modified",
    "unused-changed": "an unused node slot was modified",
    "position": "the position of a live node differs from the documented law",
    "momentum": "the momentum of a live node differs from the documented law",
    "force-not-reset": "an integrated node keeps a non-zero force accumulator",
    "pair-displacement": "the two nodes of a mutually coupled pair received different displacements",
    "pair-momentum": "the total momentum of a mutually coupled pair is not the documented one",
}


# ---------------------------------------------------------------- corpus (kept failing inputs / hand-made shapes)
def _mk(cm, dm, cells, dt=0.5, damping=1.0, nsteps=1, cls="P"):
    cs = []
    for i, (kind, rho, vol, nodes) in enumerate(cells):
        cs.append({"lid": i, "kind": kind, "density": rho, "volume": vol,
                   "nodes": [{"used": u, "pos": list(map(float, p)), "mom": list(map(float, m)) if dm == 0 else [0.0] * 3,
                              "force": list(map(float, f)), "coup": [tuple(e) for e in cp] if cm >= 1 else []}
                             for (u, p, m, f, cp) in nodes]})
    return {"cm": cm, "dm": dm, "threads": 1, "dt": dt, "damping": damping, "nsteps": nsteps, "cells": cs, "cls": cls}


def corpus(cm, dm):
    out = []
    # the concrete population that showed the CM2/DM0 deviation: one live node, p=(1,0,0), f=(2,0,0), m=1, dt=.5, damping=1
    out.append(_mk(cm, dm, [(0, 1.0, 1.0, [(True, (0, 0, 0), (1, 0, 0), (2, 0, 0), [])])]))
    out.append(_mk(cm, dm, [(0, 1.0, 1.0, [(True, (0, 0, 0), (1, 0, 0), (2, 0, 0), [])])], nsteps=7))
    # two cells with one mutual pair, one static cell, one unused slot
    out.append(_mk(cm, dm, [
        (0, 2.0, 3.0, [(True, (0, 0, 0), (1, 2, 3), (1, 0, -1), [(1, 0)]), (True, (1, 0, 0), (0, 1, 0), (0, 2, 0), []),
                       (False, (9, 9, 9), (5, 5, 5), (7, 7, 7), [])]),
        (0, 1.0, 4.0, [(True, (0, 0, 0.5), (-1, 0, 2), (3, 1, 1), [(0, 0)]), (True, (2, 0, 0), (0, 0, 1), (1, 1, 1), [])]),
        (1, 1.0, 1.0, [(True, (5, 5, 5), (1, 1, 1), (2, 2, 2), []), (True, (6, 5, 5), (0, 0, 0), (1, 0, 0), [])]),
        (4, 1.0, 1.0, [(True, (7, 5, 5), (1, 1, 1), (2, 2, 2), [])]),
    ], dt=0.25, damping=0.5, nsteps=3))
    return out


# ---------------------------------------------------------------- run
def harness(cm, dm):
    return vlib.build_repo.build_harness(os.path.join(vlib.VERIF, "harness", "h_integrator.cpp"), "h_integrator_%d%d" % (cm, dm),
                                         defines={"SIMUCELL3D_VERIF_CM": cm, "SIMUCELL3D_VERIF_DM": dm})


def states_close(a, b, case):
    """model answer vs implementation answer: bit patterns, a few ulps of slack"""
    (ta, sa), (tb, sb) = a, b
    if not vlib.close(ta, tb, 4):
        return "time %r vs %r" % (ta, tb)
    for s in sa:
        for q in range(3):
            sc = max([abs(v) for v in sa[s][q]] + [abs(v) for v in sb[s][q]] + [0.0])
            for x, y in zip(sa[s][q], sb[s][q]):
                if not vlib.close(x, y, 16, 1e-13 * sc):
                    return "slot %s %s: implementation %r model %r" % (s, ("pos", "mom", "force")[q], sa[s][q], sb[s][q])
    return None


# ---------------------------------------------------------------- pipeline stage (real contact phase + update)
def pipeline_scenarios(tier, seed):
    """(name, mesh builder, l_min, iterations, threads).  The shipped three-cell tissue is the case in which the
    shipped contact phase used to hand one-sided couplings to the update."""
    sc = [("cell_triplet", "cell_triplet.vtk", "7.5e-7", 2, 1)]
    if tier == "thorough":
        sc.append(("cell_triplet/4 threads", "cell_triplet.vtk", "7.5e-7", 6, 4))
        r = Rng(seed).fork("c03/pipeline")
        for k in range(3):
            sc.append(("two spheres %d" % k, ("spheres", [r.uniform(0.96, 1.04), r.uniform(-0.3, 0.3), r.uniform(-0.3, 0.3)]), "0.12", 12, 1 + 3 * (k % 2)))
    return sc


def pipeline_stage(V, tier, seed, stats, only=None):
    import scenarios as SC
    try:
        exe, _ = vlib.build_repo.build_harness(os.path.join(vlib.VERIF, "harness", "h_coupling.cpp"), "h_coupling")
    except RuntimeError as e:
        V.fail_tie("correspondence", "pipeline harness does not build: %s" % str(e)[-400:])
        return
    import subprocess
    st = stats.setdefault("pipeline", {"scenarios": 0, "iterations": 0, "coupled_nodes": 0, "live_nodes": 0,
                                       "one_sided": 0, "never_integrated": 0, "per_scenario": []})
    for name, mesh, lmin, iters, threads in (only or pipeline_scenarios(tier, seed)):
        with SC.Workdir() as wd:
            if isinstance(mesh, tuple):
                d = mesh[1]
                a = SC.icosphere(2, 1.0, (0.0, 0.0, 0.0), egg=0.1)
                b = SC.icosphere(2, 1.0, (2.0 * d[0], d[1], d[2]), egg=0.1)
                path = os.path.join(wd, "two.vtk")
                SC.write_vtk(path, [(a[0], a[1], 0), (b[0], b[1], 0)])
                meshname = path
            else:
                meshname = mesh
            par = SC.make_params(wd, meshname, lmin, {}, SC.DETERMINISTIC)
            r = subprocess.run([exe, par, str(iters), str(threads)], capture_output=True, text=True, env=vlib.ENV)
            inp = {"stage": "pipeline", "scenario": name, "mesh": mesh if isinstance(mesh, str) else {"two_spheres_offset": mesh[1]},
                   "l_min": lmin, "iterations": iters, "threads": threads}
            if r.returncode != 0:
                V.fail_input("pipeline scenario %s: the real solver ended abnormally (rc=%s): %s" % (name, r.returncode, r.stderr[-500:]), inp)
                continue
            st["scenarios"] += 1
            ps = {"scenario": name, "threads": threads, "iterations": 0, "coupled": 0, "one_sided": 0, "never_integrated": 0}
            rows = r.stdout.splitlines()
            for i, ln in enumerate(rows):
                w = ln.split()
                if not w or w[0] != "I":
                    continue
                live, coupled, onesided, unreset = int(w[3]), int(w[5]), int(w[7]), int(w[9])
                st["iterations"] += 1; st["live_nodes"] += live; st["coupled_nodes"] += coupled
                ps["iterations"] += 1; ps["coupled"] += coupled
                detail = [x for x in rows[i + 1:i + 17] if x[:2] in ("O ", "U ")]
                if unreset and not ps["never_integrated"]:
                    V.fail_input("pipeline %s, iteration %s: %d live node(s) of non-static cells were not integrated by the position update "
                                 "(force accumulator not reset), e.g. %s" % (name, w[1], unreset, next((x for x in detail if x[0] == "U"), "")),
                                 dict(inp, iteration=int(w[1]), kind="never-integrated", detail=detail))
                if onesided and not ps["one_sided"]:
                    V.fail_input("pipeline %s, iteration %s: the contact phase handed %d one-sided coupling(s) to the position update "
                                 "(a names b, b names another node: a is moved twice or not at all), e.g. %s"
                                 % (name, w[1], onesided, next((x for x in detail if x[0] == "O"), "")),
                                 dict(inp, iteration=int(w[1]), kind="one-sided-coupling", detail=detail))
                ps["one_sided"] += onesided; ps["never_integrated"] += unreset
                st["one_sided"] += onesided; st["never_integrated"] += unreset
            st["per_scenario"].append(ps)


def run(ctx):
    tier, seed = ctx["tier"], ctx["seed"]
    t0 = time.time()
    V = vlib.Verdict(PID)
    gen = vlib.translate.run(GEN)
    proof = vlib.prove(PID, THEOREMS, NAMESPACE, extra_targets=("drv_c03",))
    for f in proof["failures"]:
        V.fail_tie("proof", "%s: %s" % (f["theorem"], f["reason"]), errors=proof["errors"][:5])
    # the contact SEARCH (as modelled bit-exactly in Model/Tissue.lean / TissueR.lean) hands a SearchOK / NoStale table to the two loops
    proofS = c03_search.prove_search()
    proofSI = c03_search.prove_search_invariants()
    for pr in (proofS, proofSI):
        for f in pr["failures"]:
            V.fail_tie("proof", "%s: %s" % (f["theorem"], f["reason"]), errors=pr["errors"][:5])
    if tier == "thorough" and proof["ok"] and proofS["ok"]:
        for mod in ("SimuVerif.Properties.C03Base", "SimuVerif.Properties.C03Coupling", "SimuVerif.Properties.C03Search"):
            ok, log = vlib.leanchecker(mod)
            if not ok:
                V.fail_tie("proof", "leanchecker rejected %s" % mod, log=log)
    n = 250 if tier == "quick" else 4000
    if not (proof["ok"] and proofS["ok"] and proofSI["ok"]):
        n = max(n, 600)           # a proof broke: widen the search for a concrete failing input
    drv = vlib.driver_path("drv_c03")
    if not os.path.exists(drv):
        V.fail_tie("correspondence", "model driver missing (lake build failed)")
    stats = {"cases": 0, "steps": 0, "slots": 0, "bit_identical": 0, "disagreements": 0, "oracle_failures": 0,
             "roles": {}, "classes": {"P": 0, "M": 0}, "per_config": {}, "multi_thread_cases": 0}
    samples = []
    distinct = set()
    reported = set()
    rebuilt_total = 0
    compiled = []
    for (cm, dm) in CONFIGS:
        try:
            exe, rebuilt = harness(cm, dm)
        except RuntimeError as e:
            V.fail_tie("correspondence", "configuration CM=%d DM=%d does not build: %s" % (cm, dm, str(e)[-400:]))
            continue
        rebuilt_total += rebuilt
        compiled.append([cm, dm])
        r = Rng(seed).fork("c03/%d/%d" % (cm, dm))
        cases = corpus(cm, dm) + [gen_case(r, cm, dm, 50 if tier == "thorough" else 30) for _ in range(n)]
        lines = [line_of(c) for c in cases]
        distinct.update(lines)
        impl, rc, err = vlib.run_lines(exe, lines)
        if rc != 0 or len(impl) != len(lines):
            V.fail_input("harness CM=%d DM=%d ended abnormally (rc=%s): %s" % (cm, dm, rc, err[-600:]),
                         {"line": lines[min(len(impl), len(lines) - 1)], "cm": cm, "dm": dm}, key=None)
        model = None
        if os.path.exists(drv):
            model, rc2, err2 = vlib.run_lines(drv, lines)
            if rc2 != 0 or len(model) != len(lines):
                V.fail_tie("correspondence", "model driver ended abnormally (rc=%s) %s" % (rc2, err2[-300:]))
                model = None
        pc = {"cases": len(cases), "oracle_failures": 0, "disagreements": 0}
        for i, c in enumerate(cases):
            if i >= len(impl):
                break
            o = parse_out(impl[i], c)
            if o is None:
                V.fail_input("unparseable harness answer %r" % impl[i][:80], {"line": lines[i], "cm": cm, "dm": dm})
                continue
            stats["cases"] += 1; stats["steps"] += c["nsteps"]; stats["classes"][c["cls"]] += 1
            stats["slots"] += len(o[1])
            if c["threads"] > 1:
                stats["multi_thread_cases"] += 1
            for rl in classify(c).values():
                k = rl if isinstance(rl, str) else "pair"
                stats["roles"][k] = stats["roles"].get(k, 0) + 1
            if i < 1 and len(samples) < 6:
                samples.append({"cm": cm, "dm": dm, "line": lines[i][:400], "time": o[0], "first_slot": o[1][(0, 0)]})
            fails = oracle(c, o)
            if fails:
                stats["oracle_failures"] += 1; pc["oracle_failures"] += 1
                known = (cm == 2 and dm == 0 and all(w == "position" for w, _ in fails)
                         and not oracle(c, o, explicit_cm2=True))    # exactly the recorded finding, nothing else
                for w, d in fails:
                    cat = (cm, dm, "known" if known else w)
                    if cat in reported:
                        continue
                    reported.add(cat)         # one replay per configuration and kind of failure: the first (smallest) case
                    what = ("CM=2 DM=0: positions are advanced with the pre-update momentum (explicit, not semi-implicit Euler)"
                            if known else "CM=%d DM=%d: %s" % (cm, dm, WHAT[w]))
                    V.fail_input(what, {"line": lines[i], "cm": cm, "dm": dm, "nsteps": c["nsteps"], "kind": w, "detail": d},
                                 key=KEY_CM2 if known else None)
            if model is not None:
                mo = parse_out(model[i], c)
                if mo is None:
                    stats["disagreements"] += 1; pc["disagreements"] += 1
                    if pc["disagreements"] <= 2:
                        V.fail_tie("correspondence", "model rejects the request the implementation accepted: %s" % lines[i][:200])
                    continue
                if impl[i].split() == model[i].split():
                    stats["bit_identical"] += 1
                else:
                    d = states_close(o, mo, c)
                    if d:
                        stats["disagreements"] += 1; pc["disagreements"] += 1
                        if pc["disagreements"] <= 2:
                            V.fail_tie("correspondence", "CM=%d DM=%d model and implementation differ: %s" % (cm, dm, d), line=lines[i])
        stats["per_config"]["%d%d" % (cm, dm)] = pc
    c03_coupling.coupling_pass_stage(V, tier, seed, stats)
    pipeline_stage(V, tier, seed, stats)
    rcode, nviol = V.finish()
    cov = {
        "obligations": proof["obligations"] + proofS["obligations"] + proofSI["obligations"],
        "discharged": proof["discharged"] + proofS["discharged"] + proofSI["discharged"],
        "checker_cmd": "lake build SimuVerif.Properties.C03 SimuVerif.Audit.C03 drv_c03 (+ lake env leanchecker in the thorough tier)",
        "trusted_base": vlib.TRUSTED_COMMON + [
            "hand-written loop/branch skeleton of Model/Integrator.lean (tied by the correspondence run only)",
            "hook H1 (configuration override at the end of global_configuration.hpp)",
            "hand-written model of the two tail loops of resolve_all_contacts (Model/CouplingPass.lean), tied by the correspondence run only"],
        "theorems": dict(list(proof["axioms"].items()) + list(proofS["axioms"].items()) + list(proofSI["axioms"].items())),
        "proof_failures": proof["failures"] + proofS["failures"] + proofSI["failures"],
        "translator": gen,
        "configurations_built": compiled,
        "evaluations": stats["cases"], "distinct_nontrivial": len(distinct),
        "rule": "per configuration (6 builds): corpus + seeded populations of 1-6 cells x 1-8 slots, used/unused slots, static (type 1/4) and "
                "non-static (0/2/3) cells, random forces/momenta, mutual pairs ('P', 70%) and one-directional/overwritten couplings, "
                "permuted local ids ('M'), 1-50 consecutive steps, damping*dt/m in 1e-5..2; distinct = distinct request lines",
        "integration_steps": stats["steps"], "slots_compared": stats["slots"], "slot_roles": stats["roles"],
        "classes": stats["classes"], "multi_thread_cases": stats["multi_thread_cases"],
        "model_vs_impl_bit_identical": stats["bit_identical"], "model_vs_impl_disagreements": stats["disagreements"],
        "oracle_failures": stats["oracle_failures"], "per_config": stats["per_config"],
        "repo_objects_rebuilt": rebuilt_total, "samples": samples,
        "pipeline": stats.get("pipeline", {}),
        "coupling_pass": stats.get("coupling_pass", {}),
        "pipeline_rule": "harness/h_coupling.cpp steps the REAL solver (default build: node-node coupling, overdamped) on the shipped "
                         "three-cell tissue (thorough: also with 4 threads and on generated pairs of touching epithelial cells) and "
                         "checks after every iteration that every coupling is mutual and that no live node of a non-static cell keeps "
                         "a non-zero force, i.e. that the states the update meets satisfy the hypothesis Mutual of the pair theorems",
    }
    vlib.write_evidence(PID, tier, "proof", cov, [
        "exact-arithmetic reading of the update (rounding is covered only by the bit-level comparison with the Float model)",
        "static cells carry no coupling (NoStaticCoupling): couplings are created only between type-0 cells "
        "(theorem contact_creates_no_static_coupling over the translated guards) — the contact phase itself is not modelled",
        "free_node_queue_ lists exactly the unused slots (mesh invariant of C01/C10)",
        "mutual pairs: local ids equal list positions (solver invariant, C08)",
        "the sequential order of the loops is modelled; populations with only mutual couplings are also run with 2 and 4 threads",
        "kinetic-energy accumulators are not part of the property",
        "coupling pass: cell/node local ids are list positions (C08; cell::set_local_ids); unused node slots carry no coupling (node::reset); "
        "the contact SEARCH is the one modelled bit-exactly in Model/Tissue.lean / TissueR.lean (C14 correspondence): SearchOK / NoStale / definedness of the pass are PROVED for its table (Properties/C03Search.lean: search_searchOK, searchOK_any_schedule for every interleaving of the locked writes, contactRun_mutual, tissue_pair_integrated_once) and are also checked on real runs by the pipeline stage",
    ], time.time() - t0, nviol)
    return rcode


def replay(ctx):
    rp = ctx["replay"]
    fi = rp.get("failing_input", {}).get("input", {})
    line = fi.get("line")
    if fi.get("stage") == c03_coupling.STAGE:
        return c03_coupling.replay(ctx)
    if fi.get("stage") == "pipeline":
        class _V:
            n = 0
            def fail_input(self, what, inp, key=None):
                self.n += 1; print(what)
            def fail_tie(self, kind, what, **kw):
                self.n += 1; print(kind, what)
        v = _V()
        m = fi["mesh"]
        mesh = m if isinstance(m, str) else ("spheres", m["two_spheres_offset"])
        pipeline_stage(v, "quick", 0, {}, only=[(fi["scenario"], mesh, fi["l_min"], fi["iterations"], fi["threads"])])
        if v.n:
            print("VIOLATION property=C03 replay=%s" % ctx.get("replay_path", "-"))
            return 1
        print("property holds on this input now")
        return 0
    if not line:
        print("replay file names no input: %s" % json.dumps(rp.get("no_longer_checks", rp))[:2000])
        return 1
    w = line.split()
    cm, dm = int(w[1]), int(w[2])
    case = case_of_line(line)
    exe, _ = harness(cm, dm)
    out, rc, err = vlib.run_lines(exe, [line])
    o = parse_out(out[0], case) if out else None
    print("configuration CM=%d DM=%d, %d step(s), dt=%r damping=%r" % (cm, dm, case["nsteps"], case["dt"], case["damping"]))
    if o is None:
        print("no answer (rc=%s) %s" % (rc, err[-400:]))
        print("VIOLATION property=C03 replay=%s" % ctx.get("replay_path", "-"))
        return 1
    fails = oracle(case, o)
    for wt, d in fails[:6]:
        print("%s: %s" % (wt, d))
    if fails:
        print("VIOLATION property=C03 replay=%s" % ctx.get("replay_path", "-"))
        return 1
    print("property holds on this input now")
    return 0


def case_of_line(line):
    w = line.split()
    k = [1]

    def I():
        k[0] += 1
        return int(w[k[0] - 1])

    def D():
        k[0] += 1
        return unhex(w[k[0] - 1])
    cm, dm, threads = I(), I(), I()
    dt, damping = D(), D()
    nsteps, ncells = I(), I()
    cells = []
    for ci in range(ncells):
        lid, kind = I(), I()
        rho, vol = D(), D()
        nn = I()
        nodes = []
        for ni in range(nn):
            u = I() != 0
            v = [D() for _ in range(9)]
            kc = I()
            cp = [(I(), I()) for _ in range(kc)]
            nodes.append({"used": u, "pos": v[0:3], "mom": v[3:6], "force": v[6:9], "coup": cp})
        cells.append({"lid": lid, "kind": kind, "density": rho, "volume": vol, "nodes": nodes})
    return {"cm": cm, "dm": dm, "threads": threads, "dt": dt, "damping": damping, "nsteps": nsteps, "cells": cells, "cls": "?"}
